#!/venv/bin/python
"""Coverage-guided search over the *structured cases* of any campaign (thorough tiers).

    hyp_fuzz.py <Cxx> <campaign> [libFuzzer flags] [corpus dir]      e.g.  C02 dag -runs=20000 -seed=7 DIR

The campaign's Hypothesis strategy decodes libFuzzer's byte string into a case (``test.hypothesis.fuzz_one_input``),
the campaign's body -- generator, oracle and all -- is the fuzz target, and pipefunc is imported under atheris'
coverage instrumentation, so libFuzzer keeps the byte strings whose cases reach new code of pipefunc.  A failure
the known-findings file does not list is written to the report (first case per bucket) and fuzzing goes on.

environment:  VERIF_REPO        repository under test (default /repo)
              HYP_FUZZ_REPORT   path of the JSON report {"execs", "valid", "nontrivial", "elapsed_s", "labels": {..},
                                "failures": {bucket: {"case": .., "detail": ..}}, "known": {id: n}}
exit status: 0 nothing found, 3 failures recorded, 4 atheris not importable.
"""

from __future__ import annotations

import json
import os
import sys
import time

HERE = os.path.dirname(os.path.dirname(os.path.abspath(__file__)))
sys.path.insert(0, HERE)


def main() -> None:
    pid, cname = sys.argv[1], sys.argv[2]
    argv = [sys.argv[0], *sys.argv[3:]]
    report_path = os.environ.get("HYP_FUZZ_REPORT", "hyp_fuzz_report.json")
    total_runs = next((int(a.split("=", 1)[1]) for a in argv if a.startswith("-runs=")), 0)
    os.environ["VERIF_NO_REEXEC"] = "1"  # PYTHONHASHSEED is set by the caller
    deps = os.path.join(HERE, ".deps")
    if os.path.isdir(deps):
        sys.path.append(deps)
    try:
        import atheris
    except Exception as e:  # noqa: BLE001
        with open(report_path, "w") as f:
            json.dump({"atheris_missing": f"{type(e).__name__}: {e}"}, f)
        sys.exit(4)

    sys.modules["zarr"] = None  # type: ignore[assignment]
    repo = os.path.abspath(os.environ.get("VERIF_REPO", "/repo"))
    sys.path.insert(0, repo)
    with atheris.instrument_imports(include=["pipefunc"]):
        import pipefunc  # noqa: F401
        import pipefunc.cache  # noqa: F401
        import pipefunc.lazy  # noqa: F401
        import pipefunc.map  # noqa: F401
        import pipefunc.map.adaptive  # noqa: F401
        import pipefunc.resources  # noqa: F401
        import pipefunc.sweep  # noqa: F401
        import pipefunc.typing  # noqa: F401

    import glob
    import importlib

    from hypothesis import HealthCheck, given, settings

    from vlib import boot  # noqa: F401  (pipefunc is already imported, from `repo`)
    from vlib import core

    (path,) = glob.glob(os.path.join(HERE, "checks", pid.lower() + "_*.py"))
    modname = "checks." + os.path.basename(path)[:-3]
    mod = importlib.import_module(modname)
    camp = next(c for c in mod.campaigns("thorough") if c.name == cname)
    known = core.load_known(mod.PID)
    predicates = getattr(mod, "PREDICATES", {})
    state = {"execs": 0, "valid": 0, "nontrivial": 0, "t0": time.time(), "labels": {}, "failures": {}, "known": {}, "dirty": False}

    def flush() -> None:
        rep = {k: state[k] for k in ("execs", "valid", "nontrivial", "labels", "failures", "known")}
        rep["elapsed_s"] = round(time.time() - state["t0"], 2)
        tmp = report_path + ".tmp"
        with open(tmp, "w") as f:
            json.dump(rep, f)
        os.replace(tmp, report_path)
        state["dirty"] = False

    @settings(database=None, deadline=None, suppress_health_check=list(HealthCheck))
    @given(camp.strategy)
    def target(data):
        state["valid"] += 1
        out = camp.body(data)
        if out.nontrivial:
            state["nontrivial"] += 1
        for lab in out.labels:
            state["labels"][lab] = state["labels"].get(lab, 0) + 1
        case = {"campaign": cname, "data": data}
        for f in out.failures:
            kid = core.match_known(known, predicates, case, f)
            if kid:
                state["known"][kid] = state["known"].get(kid, 0) + 1
            elif f.bucket not in state["failures"]:
                state["failures"][f.bucket] = {"case": case, "detail": f.detail, "info": f.info}
                state["dirty"] = True

    fuzz_one = target.hypothesis.fuzz_one_input

    def one(data: bytes) -> None:
        state["execs"] += 1
        try:
            fuzz_one(data)
        except Exception as e:  # noqa: BLE001  a harness problem: recorded as such, never as a property failure
            b = "HARNESS:" + type(e).__name__
            if b not in state["failures"]:
                state["failures"][b] = {"case": None, "detail": repr(e)[:500], "info": None}
                state["dirty"] = True
        if state["dirty"] or state["execs"] % 2000 == 0 or state["execs"] == total_runs:
            flush()
        if total_runs and state["execs"] == total_runs:  # libFuzzer leaves through _Exit: finish here
            sys.stdout.flush()
            os._exit(3 if state["failures"] else 0)

    atheris.Setup(argv, one)
    atheris.Fuzz()


if __name__ == "__main__":
    main()

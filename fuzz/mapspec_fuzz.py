#!/venv/bin/python
"""Coverage-guided fuzz target for MapSpec.from_string (property C08, thorough tier).

Standalone: run as a subprocess by checks/c08_mapspec.py (campaign "fuzz"); never imported with atheris
in the quick tier.  The oracle part (``check_string``) is plain Python without any dependency on atheris
or vlib, so the check module imports it for its in-process "strings" campaign and for replaying strings
the fuzzer found.

    mapspec_fuzz.py [libFuzzer flags] [corpus dirs]         e.g.  -runs=200000 -seed=7 -max_len=64 DIR

environment:  VERIF_REPO      repository under test (default /repo)
              MAPSPEC_FUZZ_REPORT   path of the JSON report (rewritten whenever something new is seen and
                                    every 20000 executions):  {"execs", "elapsed_s", "accepted", "rejected": {exc: n},
                                    "failures": {bucket: {"input": str, "detail": str}}}

Input bytes are mapped onto printable ASCII (printable bytes are kept, others folded into the range).
For every string ``from_string`` accepts the laws in ``check_string`` must hold.  The first input of every
failure bucket is written to the report and fuzzing continues (so one shallow defect does not hide what
lies behind it); on the last execution (-runs=N reached) the process exits with status 3 if any failure
was recorded (libFuzzer leaves through _Exit, so this cannot be an atexit handler).
"""

from __future__ import annotations

import itertools
import json
import os
import sys


# ------------------------------------------------------------------------------------------------
# oracles on one string (no atheris, no vlib)


def to_printable(data: bytes) -> str:
    return "".join(chr(b) if 0x20 <= b < 0x7F else chr(0x20 + b % 95) for b in data)


def small_shape(n: int) -> tuple:
    return tuple(((2, 3)[i % 2] if i < 5 else 1) for i in range(n))


def _is_name(name) -> bool:
    if not isinstance(name, str):
        return False
    parts = name.split(".")
    return 1 <= len(parts) <= 2 and all(p.isidentifier() for p in parts)


def malformed_classes(m) -> list:
    """Independent well-formedness judgement of an accepted MapSpec object (classes the property lists)."""
    bad = []
    if not m.outputs:
        return ["no-outputs"]
    for arr in itertools.chain(m.inputs, m.outputs):
        if not _is_name(arr.name):
            bad.append("non-identifier-array-name")
        if any(not (ax is None or (isinstance(ax, str) and ax.isidentifier())) for ax in arr.axes):
            bad.append("non-identifier-index-name")
    if any(ax is None for ax in m.outputs[0].axes):
        bad.append("colon-in-first-output")
    if any(ax is None for o in m.outputs[1:] for ax in o.axes):
        bad.append("colon-in-later-output")
    named = [tuple(ax for ax in o.axes if ax is not None) for o in m.outputs]
    if any(t != named[0] for t in named[1:]):
        bad.append("outputs-different-indices")
    out_idx = set(named[0])
    if any(ax is not None and ax not in out_idx for a in m.inputs for ax in a.axes):
        bad.append("input-index-absent-from-output")
    return sorted(set(bad))


def check_string(MapSpec, s: str):
    """Returns (accepted, rejection exception name or None, [(bucket, detail), ...])."""
    fails: list = []
    try:
        m = MapSpec.from_string(s)
    except Exception as e:  # noqa: BLE001  any exception is a rejection
        return False, type(e).__name__, fails

    def guard(bucket, fn):
        try:
            return fn()
        except Exception as e:  # noqa: BLE001
            fails.append((f"{bucket}-raised-{type(e).__name__}", f"{s!r}: {e!s:.200}"))
            return None

    for cls in guard("wellformed", lambda: malformed_classes(m)) or []:
        fails.append((f"{cls}-accepted", f"{s!r} -> {m!s}"))
    s1 = guard("str", lambda: str(m))
    if s1 is not None:
        m2 = guard("reparse", lambda: MapSpec.from_string(s1))
        if m2 is not None:
            if m2 != m:
                fails.append(("roundtrip-differs", f"{s!r} -> {s1!r} -> {m2!s}"))
            s2 = guard("str", lambda: str(m2))
            if s2 is not None and s2 != s1:
                fails.append(("str-not-idempotent", f"{s!r} -> {s1!r} -> {s2!r}"))
        if guard("to_string", m.to_string) != s1:
            fails.append(("to_string-differs-from-str", repr(s)))
    for ren in ({}, {"no_such_name__": "other__"}):
        r = guard("rename", lambda: m.rename(ren))
        if r is not None and r != m:
            fails.append(("rename-nomatch-not-identity", f"{s!r} rename({ren}) -> {r!s}"))
    n_ext = guard("input_indices", lambda: len(m.input_indices))
    if n_ext is not None:
        shape = small_shape(n_ext)
        want = list(itertools.product(*[range(d) for d in shape]))
        got = guard("output_key", lambda: [m.output_key(shape, k) for k in range(len(want))])
        if got is not None:
            if sorted(map(tuple, got)) != want:
                fails.append(("output_key-not-bijection", f"{s!r} shape {shape}: {got}"))
            elif [tuple(g) for g in got] != want:
                fails.append(("output_key-not-row-major", f"{s!r} shape {shape}: {got}"))
        if not fails:  # input_keys needs a well-formed spec (external index names = input index names)
            ext = [ax for ax in m.outputs[0].axes if any(ax in a.axes for a in m.inputs)]
            if len(ext) == n_ext:
                for k, pos in enumerate(want):
                    val = dict(zip(ext, pos))
                    exp = {a.name: tuple(slice(None) if ax is None else val[ax] for ax in a.axes) for a in m.inputs}
                    gk = guard("input_keys", lambda: m.input_keys(shape, k))
                    if gk is None:
                        break
                    if gk != exp:
                        fails.append(("input_keys-wrong", f"{s!r} shape {shape} k={k}: {gk} want {exp}"))
                        break
    return True, None, fails


SEEDS = [
    "a[i, j], b[i, j], c[k] -> q[i, j, k]",
    "a[i, :], b[:, k] -> q[i, k]",
    "... -> b[j]",
    "foo.a[i] -> foo.c[i], d[i]",
    "x[i, j], y[j, :, k] -> z[i, j, k, l]",
]
DICT = ['"->"', '"..."', '"["', '"]"', '","', '":"', '"."', '" "', '"a[i]"', '"[i,j]"']


# ------------------------------------------------------------------------------------------------
def main() -> None:
    sys.modules["zarr"] = None  # type: ignore[assignment]  (installed zarr is incompatible with this pipefunc)
    repo = os.path.abspath(os.environ.get("VERIF_REPO", "/repo"))
    sys.path.insert(0, repo)
    here = os.path.dirname(os.path.dirname(os.path.abspath(__file__)))
    deps = os.path.join(here, ".deps")
    if os.path.isdir(deps) and deps not in sys.path:
        sys.path.append(deps)
    report_path = os.environ.get("MAPSPEC_FUZZ_REPORT")
    try:
        import atheris
    except Exception as e:  # noqa: BLE001
        if report_path:
            with open(report_path, "w") as f:
                json.dump({"atheris_missing": f"{type(e).__name__}: {e}"}, f)
        sys.exit(4)
    import warnings

    warnings.filterwarnings("ignore")
    with atheris.instrument_imports(include=["pipefunc"]):
        import pipefunc
        from pipefunc.map._mapspec import MapSpec
    assert os.path.abspath(pipefunc.__file__).startswith(repo + os.sep), (pipefunc.__file__, repo)

    total_runs = -1
    for a in sys.argv[1:]:
        if a.startswith("-runs="):
            total_runs = int(a[6:])
    state = {"execs": 0, "accepted": 0, "rejected": {}, "failures": {}}

    import time

    t0 = time.monotonic()

    def flush() -> None:
        state["elapsed_s"] = round(time.monotonic() - t0, 3)  # informational (exec/s label), never an oracle
        if report_path:
            tmp = report_path + ".tmp"
            with open(tmp, "w") as f:
                json.dump(state, f)
            os.replace(tmp, report_path)

    def one(data: bytes) -> None:
        s = to_printable(data)
        state["execs"] += 1
        accepted, exc, fails = check_string(MapSpec, s)
        dirty = state["execs"] % 20000 == 0
        if accepted:
            state["accepted"] += 1
        else:
            if exc not in state["rejected"]:
                dirty = True
            state["rejected"][exc] = state["rejected"].get(exc, 0) + 1
        for bucket, detail in fails:
            cur = state["failures"].get(bucket)
            if cur is None or len(s) < len(cur["input"]):
                state["failures"][bucket] = {"input": s, "detail": detail[:500]}
                dirty = True
        if state["execs"] == total_runs:  # libFuzzer leaves through _Exit (no atexit): finish here
            flush()
            sys.stderr.flush()
            if state["failures"]:
                sys.stderr.write("mapspec_fuzz: oracle failures: %s\n" % sorted(state["failures"]))
                os._exit(3)
        elif dirty:
            flush()

    atheris.Setup(sys.argv, one)
    atheris.Fuzz()


if __name__ == "__main__":
    main()

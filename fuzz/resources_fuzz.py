#!/venv/bin/python
"""Coverage-guided fuzz target for the Resources memory / wall-time validators and combine_max (property C20,
thorough tier).  Standalone; run as a subprocess by checks/c20_resources.py (campaign "fuzz").

    resources_fuzz.py [libFuzzer flags] [corpus dirs]

environment: VERIF_REPO (default /repo), RESOURCES_FUZZ_REPORT = path of the JSON report
             {"execs", "accepted_mem", "accepted_time", "failures": {bucket: {"input": str, "detail": str}}}

Input bytes are folded onto printable ASCII and split at the first '|' into two strings a, b.  Oracles (in-target):
Resources(memory=s) is accepted iff the reference recogniser accepts s (same for time=s); for two accepted strings
combine_max returns the one with the larger byte count / duration.  The process exits 3 on the last execution if a
failure was recorded, 4 if atheris is not importable.
"""

from __future__ import annotations

import json
import os
import re
import sys
from fractions import Fraction

UNITS = {"B": 1, "KB": 10**3, "MB": 10**6, "GB": 10**9, "TB": 10**12, "PB": 10**15}


def to_printable(data: bytes) -> str:
    return "".join(chr(b) if 0x20 <= b < 0x7F else chr(0x20 + b % 95) for b in data)


def ref_bytes(s: str):
    m = re.fullmatch(r"([0-9]+(?:\.[0-9]+)?)([KkMmGgTtPp]?[Bb])", s)
    if not m:
        return None
    return Fraction(m.group(1)) * UNITS[m.group(2).upper()]


def ref_seconds(s: str):
    if not re.fullmatch(r"[0-9:]+", s):
        return None
    parts = s.split(":")
    if not 2 <= len(parts) <= 4 or any(p == "" for p in parts):
        return None
    if any(len(p) != 2 for p in parts[1:]):
        return None
    if len(parts) == 2 and len(parts[0]) != 2:
        return None
    return sum(int(p) * w for p, w in zip(reversed(parts), [1, 60, 3600, 86400]))


STATE = {"execs": 0, "accepted_mem": 0, "accepted_time": 0, "failures": {}}
REPORT = os.environ.get("RESOURCES_FUZZ_REPORT", "")
RUNS = 0


def write_report():
    if REPORT:
        tmp = REPORT + ".tmp"
        with open(tmp, "w") as f:
            json.dump(STATE, f)
        os.replace(tmp, REPORT)


def fail(bucket, s, detail):
    if bucket not in STATE["failures"]:
        STATE["failures"][bucket] = {"input": s, "detail": str(detail)[:300]}
        write_report()


def check(Resources, a: str, b: str) -> None:
    acc = {}
    for kind, ref in (("memory", ref_bytes), ("time", ref_seconds)):
        for s in (a, b):
            want = ref(s) is not None
            try:
                Resources(**{kind: s})
                got = True
            except ValueError:
                got = False
            except Exception as e:  # noqa: BLE001
                fail(f"{kind}-validator-raised-{type(e).__name__}", s, e)
                continue
            if got != want:
                fail(f"{kind}-validator-{'accepts-malformed' if got else 'rejects-wellformed'}", s, f"reference says {want}")
            acc[(kind, s)] = got and want
    if acc.get(("memory", a)) and acc.get(("memory", b)):
        STATE["accepted_mem"] += 1
        c = Resources.combine_max([Resources(memory=a), Resources(memory=b)])
        want = max(ref_bytes(a), ref_bytes(b))
        got = ref_bytes(c.memory) if isinstance(c.memory, str) else None
        if want > 0 and (got is None or got < want * (1 - Fraction(1, 10**12))):
            fail("combine_max-memory-too-small", f"{a}|{b}", f"got {c.memory}")
    if acc.get(("time", a)) and acc.get(("time", b)):
        STATE["accepted_time"] += 1
        c = Resources.combine_max([Resources(time=a), Resources(time=b)])
        want = max(ref_seconds(a), ref_seconds(b))
        got = ref_seconds(c.time) if isinstance(c.time, str) else None
        if got is None or got < want:
            fail("combine_max-time-too-small", f"{a}|{b}", f"got {c.time}")


def main():
    global RUNS
    deps = os.path.join(os.path.dirname(os.path.dirname(os.path.abspath(__file__))), ".deps")
    if os.path.isdir(deps) and deps not in sys.path:
        sys.path.append(deps)
    try:
        import atheris
    except ImportError:
        STATE["atheris_missing"] = True
        write_report()
        sys.exit(4)
    sys.modules["zarr"] = None
    sys.path.insert(0, os.environ.get("VERIF_REPO", "/repo"))
    with atheris.instrument_imports(include=["pipefunc"]):
        from pipefunc.resources import Resources
    for arg in sys.argv:
        if arg.startswith("-runs="):
            RUNS = int(arg.split("=")[1])

    def one(data: bytes):
        STATE["execs"] += 1
        s = to_printable(data[:48])
        a, _, b = s.partition("|")
        check(Resources, a, b)
        if STATE["execs"] % 20000 == 0:
            write_report()
        if RUNS and STATE["execs"] >= RUNS:
            write_report()
            os._exit(3 if STATE["failures"] else 0)

    atheris.Setup(sys.argv, one)
    atheris.Fuzz()


if __name__ == "__main__":
    main()

#!/bin/bash
# Re-run, for every stored seeded change, the checks recorded for it (in a scratch worktree each; /repo is untouched).
# usage: tools/seeded_regress.sh [jobs] [pattern]   -- prints one line per change
cd "$(dirname "$0")/.."
jobs=${1:-3}; pat=${2:-}
ls seeded | grep -E "${pat:-.}" | xargs -P "$jobs" -I{} sh -c '
  d=seeded/{}; pid=$(echo {} | cut -d- -f1)
  checks=$(/venv/bin/python -c "import json,sys; m=json.load(open(\"$d/meta.json\")); print(\",\".join(m.get(\"our_confirmation\",{}).get(\"checks\",{}).keys()) or \"$pid\")")
  tools/seed_eval.py $pid $d --skip-suite --checks $checks >/dev/null 2>&1
  /venv/bin/python -c "import json; m=json.load(open(\"$d/meta.json\"))[\"our_confirmation\"]; print(\"{}\", {k:v[\"status\"] for k,v in m[\"checks\"].items()})"
'

#!/venv/bin/python
import json, sys
for f in sys.argv[1:]:
    d = json.load(open(f))
    print("==", f)
    print("bucket:", d["bucket"])
    print("detail:", d["detail"][:800])
    case = d["case"]["data"]
    if isinstance(case, dict) and "funcs" in case and "sizes" in case:
        sys.path.insert(0, "/verif")
        print(" sizes", case["sizes"], "storage", case["storage"])
        print(" roots", case["roots"])
        for fn in case["funcs"]:
            ins = [f"{p['name']}[{', '.join(':' if a is None else a for a in p['spec'])}]" if p["spec"] is not None else p["name"] for p in fn["params"]]
            print("  ", fn["name"], "mapspec" if fn["mapspec"] else "NO-MS", ", ".join(ins), "->", fn["outs"], fn["out_axes"], "int", fn["int_axes"], fn["ret"], fn.get("shape_via"), fn.get("picker"))
    else:
        print(json.dumps(d["case"])[:3000])

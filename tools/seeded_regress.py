#!/venv/bin/python
"""Re-run, for every stored seeded change, the checks recorded for it (each in its own scratch worktree; /repo is
untouched).  usage: tools/seeded_regress.py [jobs] [regex]   -- one line per change, exit 1 if a change is caught by none."""
import json, os, re, subprocess, sys
from concurrent.futures import ThreadPoolExecutor

HERE = os.path.dirname(os.path.dirname(os.path.abspath(__file__)))
jobs = int(sys.argv[1]) if len(sys.argv) > 1 else 3
pat = re.compile(sys.argv[2]) if len(sys.argv) > 2 else None


def one(name):
    d = os.path.join(HERE, "seeded", name)
    meta = json.load(open(os.path.join(d, "meta.json")))
    pid = name.split("-")[0]
    checks = ",".join(meta.get("our_confirmation", {}).get("checks", {}).keys()) or pid
    subprocess.run([os.path.join(HERE, "tools", "seed_eval.py"), pid, d, "--skip-suite", "--checks", checks], capture_output=True, text=True)
    m = json.load(open(os.path.join(d, "meta.json")))["our_confirmation"]
    st = {k: v["status"] for k, v in m["checks"].items()}
    print(name, st, flush=True)
    return name, st


names = sorted(n for n in os.listdir(os.path.join(HERE, "seeded")) if not pat or pat.search(n))
with ThreadPoolExecutor(jobs) as ex:
    res = list(ex.map(one, names))
bad = [n for n, st in res if "CAUGHT" not in st.values()]
print(f"{len(res)} changes, {len(res) - len(bad)} caught; not caught: {bad}")
sys.exit(1 if bad else 0)

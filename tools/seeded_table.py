#!/venv/bin/python
"""Print the markdown table of seeded changes (from seeded/*/meta.json) used in DESIGN.md section 11."""
import glob, json, os
HERE = os.path.dirname(os.path.dirname(os.path.abspath(__file__)))
rows = []
for d in sorted(glob.glob(os.path.join(HERE, "seeded", "*"))):
    m = json.load(open(os.path.join(d, "meta.json")))
    c = m.get("our_confirmation", {})
    title = (m.get("title") or m.get("what_it_breaks") or "")[:110].replace("|", "/").replace("\n", " ")
    needs = (m.get("needs_to_manifest") or "")[:120].replace("|", "/").replace("\n", " ")
    checks = "; ".join(f"{k}:{v['status']}({v['tier']})" for k, v in sorted(c.get("checks", {}).items()))
    ok = "yes" if c.get("demo_with_change") == 1 and c.get("demo_without_change") == 0 and c.get("suite_passes_with_change", True) else "?"
    rows.append(f"| {os.path.basename(d)} | {title} | {needs} | {ok} | {checks} |")
print("| id | change | needs to manifest | confirmed | checks run against it |")
print("|---|---|---|---|---|")
print("\n".join(rows))

#!/venv/bin/python
"""Sensitivity aid (DESIGN.md section 6): apply one textual mutant to a scratch copy of pipefunc and run a check
against it (VERIF_REPO=<scratch>); a useful check must print VIOLATION.  Never touches /repo.

usage: tools/sens.py <Cxx> [mutant-name ...] [--tier quick]     (mutants from tools/mutants.json)
       tools/sens.py <Cxx> --patch FILE.diff
"""
import json, os, shutil, subprocess, sys, tempfile, time

HERE = os.path.dirname(os.path.dirname(os.path.abspath(__file__)))
args = sys.argv[1:]
pid = args.pop(0)
tier = "quick"
patch = None
if "--tier" in args:
    i = args.index("--tier"); tier = args[i + 1]; del args[i:i + 2]
if "--patch" in args:
    i = args.index("--patch"); patch = os.path.abspath(args[i + 1]); del args[i:i + 2]
muts = json.load(open(os.path.join(HERE, "tools", "mutants.json"))).get(pid, {})
_extra = os.path.join(HERE, "tools", "mutants.d", pid + ".json")
if os.path.exists(_extra):
    muts.update(json.load(open(_extra)))
names = args or list(muts)
if patch:
    names = ["<patch>"]
rc_all = 0
for name in names:
    scratch = tempfile.mkdtemp(prefix=f"sens-{pid}-")
    try:
        shutil.copytree("/repo/pipefunc", os.path.join(scratch, "pipefunc"), ignore=shutil.ignore_patterns("__pycache__"))
        shutil.copy("/repo/pyproject.toml", scratch)
        if patch:
            subprocess.run(["patch", "-p1", "-s", "-d", scratch, "-i", patch], check=True)
        else:
            m = muts[name]
            path = os.path.join(scratch, m["file"])
            s = open(path).read()
            assert s.count(m["old"]) >= 1, f"{name}: pattern not found in {m['file']}"
            s = s.replace(m["old"], m["new"], 1)
            open(path, "w").write(s)
        t0 = time.time()
        env = dict(os.environ, VERIF_REPO=scratch)
        p = subprocess.run([os.path.join(HERE, "run_check.py"), pid, "--tier", tier], env=env, cwd=HERE,
                           stdout=subprocess.PIPE, stderr=subprocess.STDOUT, text=True)
        viol = [l for l in p.stdout.splitlines() if l.startswith("VIOLATION")]
        status = "CAUGHT" if (p.returncode == 1 and viol) else ("HARNESS-ERROR" if p.returncode == 2 else "MISSED")
        print(f"{pid} {name}: {status} rc={p.returncode} {len(viol)} violation lines, {time.time()-t0:.1f}s")
        for l in viol[:4]:
            print("   ", l)
        if status != "CAUGHT":
            rc_all = 1
            print(p.stdout[-1500:])
    finally:
        shutil.rmtree(scratch, ignore_errors=True)
sys.exit(rc_all)

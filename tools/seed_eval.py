#!/venv/bin/python
"""Confirm a seeded change produced by an independent sub-agent and run our checks against it.

usage: tools/seed_eval.py <Cxx> <src_dir> [--checks C01,C07] [--tier quick|thorough] [--skip-suite]

<src_dir> holds patch.diff, demo.py, meta.json.  Steps (all in a scratch git worktree of /repo outside /repo and
/verif, removed afterwards): the patch applies; demo exits 1 with it and 0 without; the pinned baseline suite still
passes with it; then the named checks (default: the property's own check) are run with VERIF_REPO=<worktree>.
Results are stored under /verif/seeded/<Cxx>-<name>/ (patch.diff, demo.py, meta.json incl. what we ran).
"""
import json, os, shutil, subprocess, sys, tempfile, time

HERE = os.path.dirname(os.path.dirname(os.path.abspath(__file__)))
args = sys.argv[1:]
pid, src = args[0], os.path.abspath(args[1])
checks = [pid]
tier = "quick"
skip_suite = "--skip-suite" in args
if "--checks" in args:
    checks = args[args.index("--checks") + 1].split(",")
if "--tier" in args:
    tier = args[args.index("--tier") + 1]
name = f"{pid}-{os.path.basename(src.rstrip('/'))}"
in_place = os.path.dirname(src.rstrip("/")) == os.path.join(HERE, "seeded")  # re-evaluation of a stored change
if in_place:
    name = os.path.basename(src.rstrip("/"))
wt = tempfile.mkdtemp(prefix="seedeval-")
os.rmdir(wt)
subprocess.run(["git", "-C", "/repo", "worktree", "add", "-q", "--detach", wt, "HEAD"], check=True)
result = {"applied": False}
try:
    demo = os.path.join(src, "demo.py")
    r0 = subprocess.run(["/venv/bin/python", demo], env=dict(os.environ, PIPEFUNC_SRC=wt), cwd=wt, capture_output=True, text=True, timeout=600)
    result["demo_without_change"] = r0.returncode
    ap = subprocess.run(["git", "-C", wt, "apply", "--3way", os.path.join(src, "patch.diff")], capture_output=True, text=True)
    if ap.returncode != 0:
        ap = subprocess.run(["patch", "-p1", "-d", wt, "-i", os.path.join(src, "patch.diff")], capture_output=True, text=True)
    result["applied"] = ap.returncode == 0
    if not result["applied"]:
        print("PATCH DOES NOT APPLY", ap.stdout[-500:], ap.stderr[-500:])
    else:
        r1 = subprocess.run(["/venv/bin/python", demo], env=dict(os.environ, PIPEFUNC_SRC=wt), cwd=wt, capture_output=True, text=True, timeout=600)
        result["demo_with_change"] = r1.returncode
        result["demo_output_with_change"] = (r1.stdout + r1.stderr)[-600:]
        if not skip_suite:
            b = subprocess.run([os.path.join(HERE, "tools", "baseline.py"), wt], capture_output=True, text=True)
            result["suite_passes_with_change"] = b.returncode == 0
            result["suite_line"] = [l for l in b.stdout.splitlines() if l.startswith("baseline:")][-1:]
        result["checks"] = {}
        for c in checks:
            t0 = time.time()
            p = subprocess.run([os.path.join(HERE, "run_check.py"), c, "--tier", tier], env=dict(os.environ, VERIF_REPO=wt),
                               cwd=HERE, capture_output=True, text=True)
            viol = [l for l in p.stdout.splitlines() if l.startswith("VIOLATION")]
            result["checks"][c] = {"tier": tier, "rc": p.returncode, "violations": [v.split("replay=")[-1].split("/")[-1] for v in viol][:8],
                                   "wall_s": round(time.time() - t0, 1),
                                   "status": "CAUGHT" if p.returncode == 1 and viol else ("HARNESS-ERROR" if p.returncode == 2 else "MISSED")}
            if p.returncode == 2:
                print(p.stdout[-800:], p.stderr[-800:])
finally:
    subprocess.run(["git", "-C", "/repo", "worktree", "remove", "--force", wt])
    shutil.rmtree(wt, ignore_errors=True)
dst = os.path.join(HERE, "seeded", name)
os.makedirs(dst, exist_ok=True)
if not in_place:
    for f in ("patch.diff", "demo.py"):
        shutil.copy(os.path.join(src, f), dst)
meta = {}
if os.path.exists(os.path.join(src, "meta.json")):
    try:
        meta = json.load(open(os.path.join(src, "meta.json")))
    except Exception:
        meta = {"raw": open(os.path.join(src, "meta.json")).read()[:2000]}
old = {}
if os.path.exists(os.path.join(dst, "meta.json")):
    try:
        old = json.load(open(os.path.join(dst, "meta.json"))).get("our_confirmation", {})
    except Exception:
        old = {}
conf = dict(old)
conf.update({k: v for k, v in result.items() if k != "checks"})
conf.setdefault("checks", {}).update(result.get("checks", {}))
meta["our_confirmation"] = conf
json.dump(meta, open(os.path.join(dst, "meta.json"), "w"), indent=1)
print(name, json.dumps({k: v for k, v in result.items() if k != "demo_output_with_change"}))

#!/usr/bin/env python3
"""Regenerate /verif/MANIFEST.json from the table below (only checks whose module exists are claimed)."""
import glob
import json
import os

HERE = os.path.dirname(os.path.dirname(os.path.abspath(__file__)))

TECH_HYP = "property-based testing (Hypothesis strategies, seeded, sharded) against an independent reference model"

META = {
    "C01": dict(level="exploration", technique=TECH_HYP + " (MapSpec denotation evaluator on provenance-carrying tracer values)",
                text="Generated map pipelines (rank<=3, sizes 1-3, zip/outer/':'/reductions/internal axes/generators/autogen/tuple outputs, list vs ndarray, every registered storage) are run and compared element-by-element and by shape with a denotation evaluator that shares no code with pipefunc; any refusal of a generator-valid program is a failure. Exploration: holds on the generated cases only.",
                note="Trusted: the reference evaluator in vlib/mapmodel.py, NumPy basic indexing, Hypothesis. zarr backend absent in this environment (blocked import)."),
    "C02": dict(level="exploration", technique=TECH_HYP + " (DAG evaluator + call log)",
                text="Generated DAGs (<=6 functions, nullary, tuple outputs with tuple/dict pickers, defaults, bound, renames, shared parameters) x listing permutation x every output x every arg_combinations cut x surplus keywords, compared in value and call log with a reference DAG evaluator.",
                note="Trusted: reference evaluator in vlib/dagmodel.py; tracer strings make values provenance-complete."),
    "C03": dict(level="exploration", technique="property-based testing with a harness-owned deterministic executor (schedule enumeration/sampling) plus real pools with injected delays; oracle = sequential reference model + call log",
                text="Completion orders of each generation are owned by ScheduledExecutor (all permutations for small generations, Hypothesis-drawn otherwise) under map and map_async; real thread/process pools with drawn delays; every storage x executor assignment; results, stored data, once-per-index and happens-before are checked.",
                note="Overlapping execution of two running tasks is sampled (OS scheduling), not enumerated; only serialised orders are owned."),
    "C04": dict(level="exploration", technique=TECH_HYP + " (run in a forked child, reload in-process and in a fresh interpreter with another hash seed)",
                text="Generated map pipelines x persisting storages; run in a child that exits, then load_outputs / RunInfo.load / load_xarray_dataset in the harness and in fresh interpreters, twice; compared with the denotation model and the child's RunInfo summary.",
                note="Trusted: model, pickle/cloudpickle of harness values."),
    "C05": dict(level="fault_enumeration", technique="fault injection: every file-system event / user call of a run enumerated as kill, torn-write or raise point in a forked child; oracle = uninterrupted reference + call log of the resumed run",
                text="For small generated pipelines and each persisting storage every FS event (mkdir, open-for-write, each write incl. torn prefixes, close, unlink/rmdir/replace) and every user call index is used as an interruption point (os._exit / raise); crash states are de-duplicated by folder digest and each distinct state is resumed; second crashes during resume enumerated for the smallest pipelines.",
                note="Models process death, not power loss: bytes accepted by the kernel are assumed durable; no reordering, no fsync semantics."),
    "C06": dict(level="exploration", technique=TECH_HYP + " (partitions of independent axes x part orders, learners; oracle = single-run model, storage masks, call log)",
                text="Generated pipelines with an independent axis, drawn set partitions expressed as ints/slices (negative steps/bounds), drawn part order; masks after every part, exact call sets, final equality with the single-run model, no recomputation; learners with and without split_independent_axes; rejection cases.",
                note="Trusted: reference model, call log."),
    "C07": dict(level="exploration", technique="model-based differential testing: generated operation histories and exhaustive tiny geometries against a masked NumPy object array, all registered backends compared with the model and each other",
                text="Operation histories (dump/getitem/to_array/mask/mask_linear/has_index/get_from_index/persist+reopen/invalid keys) over all geometries rank<=3, sizes 1-3, every external/internal mask; exhaustive key alphabets for tiny geometries.",
                note="Trusted: NumPy basic indexing semantics as the reference. zarr backend not registered in this environment."),
    "C08": dict(level="exploration", technique=TECH_HYP + " (own MapSpec AST, printer and index arithmetic) plus coverage-guided fuzzing (atheris) of from_string in the thorough tier",
                text="Generated MapSpec ASTs printed with arbitrary whitespace; round trip, shape(), output_key bijection/row-major order, input_keys selection, rename/add_axes, malformed mutants rejected; atheris explores raw strings with the round-trip laws as in-target oracle.",
                note="Strings the lenient tokenizer silently skips are not asserted to be rejected (DESIGN.md section 7)."),
    "C09": dict(level="exploration", technique="model-based stateful testing: generated call/mutation histories applied to a cached pipeline and an uncached twin (differential oracle) + call log",
                text="Histories of calls (pipeline(), run, func, full_output, intermediate cuts) and mutations (update_defaults/update_bound/replace) on twin pipelines for every cache type and cached subset; map with repeated values, sequential and with pools.",
                note="Trusted: uncached twin is the oracle (same code minus caching)."),
    "C10": dict(level="exploration", technique=TECH_HYP + " (metamorphic relation: rewritten pipeline == original under the induced renaming)",
                text="Sequences of <=3 rewrites (copy, pickle, join, update_renames, update_scope, nest_funcs, simplified_pipeline, split_disconnected, add_mapspec_axis) with induced renaming; values under pipeline() and map compared with the original; non-interference snapshots.",
                note="Trusted: the original pipeline is itself checked against the reference models by C01/C02."),
    "C11": dict(level="exploration", technique=TECH_HYP + " (reference computability + DAG model + call log)",
                text="Programs x requested subsets S x cuts I; subpipeline / map(output_names) / auto_subpipeline must succeed exactly when the reference says S is computable from I, with model values and exactly the needed calls; otherwise an error naming a missing name.",
                note="Trusted: reference dependency/computability model."),
    "C12": dict(level="exploration", technique="mutation-based property testing: valid generated cases x single-fault operators; oracle = raises, empty call log, run-folder content digest unchanged",
                text="Each documented ill-formedness class is produced by mutating a valid generated case; the check requires an exception before any tracer call and an unchanged folder digest for cleanup=False.",
                note="Folder comparison is by content, not mtime."),
    "C13": dict(level="fault_enumeration", technique="fault injection: every (function, call index) as failing invocation x exception types x execution modes (sequential, ScheduledExecutor orders, thread/process pools, async); oracle = same type/args, note contents, call log, snapshot round trip, loadable prefixes",
                text="All failing invocations of generated programs are enumerated; attribution notes, absence of later-generation calls, ErrorSnapshot.reproduce (also after save/load) and loadability of completed results are checked; bounded-wait watchdog for the no-hang clause.",
                note="'Does not hang' is a bounded wait, not a proof of termination."),
    "C14": dict(level="exploration", technique="model-based testing: explicit-state BFS of implementation x policy model, Hypothesis op sequences, and harness-owned interleavings at manager-proxy granularity",
                text="LRU/Simple/Disk caches explored breadth-first to closure or depth bound with every transition compared with the policy model; Hybrid by validity predicate; shared mode explored under a baton scheduler at proxy-call granularity.",
                note="Interleavings inside multiprocessing.managers itself are out of scope; the fake manager is validated against a real multi-process smoke run."),
    "C15": dict(level="exploration", technique=TECH_HYP + " (equal / definitely-different pair generator; cross-interpreter key comparison)",
                text="Pairs of values from a recursive recipe language, equal variants and look-alikes; keys must be hashable, equal for equal values, different for look-alikes, and identical across two interpreters with different hash seeds.",
                note="Numeric-tower pairs (1/1.0/True) and NaN are outside both classes."),
    "C16": dict(level="exploration", technique=TECH_HYP + " (reference subtype relation + algebraic laws; exhaustive over the depth-1 grammar)",
                text="Ordered pairs from a recursive annotation grammar compared with a reference relation and with reflexivity/union/covariance/Annotated laws; 2-3 node pipelines wired directly, element-wise and through reductions.",
                note="Source-side TypeVars, variadic tuples and bare generics are outside the grammar."),
    "C17": dict(level="exploration", technique=TECH_HYP + " (list-comprehension reference semantics)",
                text="Generated sweeps (items, dims partitions, constants, derivers, exclude), products, sums, filtered_sweep and count_sweep compared with comprehensions as multisets and, where stated, as sequences.",
                note="Trusted: the comprehension reference."),
    "C18": dict(level="exploration", technique=TECH_HYP + " (eager DAG model, call log, expected edge set)",
                text="Generated DAGs built lazy; nothing runs before evaluate(); evaluate equals the eager model; each needed function exactly once over repeated evaluate(); construct_dag graph acyclic with exactly the model's producer-consumer edges after contracting picker nodes.",
                note="Trusted: DAG model."),
    "C19": dict(level="exploration", technique=TECH_HYP + " (dims/values/coords/sel compared with the denotation model)",
                text="Restricted map programs with distinct coordinate values; both dataset constructors identical; dims, values, coordinates (incl. zipped MultiIndex) and sel() provenance compared with the model.",
                note="Trusted: model; xarray/pandas as installed."),
    "C20": dict(level="exploration", technique=TECH_HYP + " (independent byte/second arithmetic, before/after snapshots) plus coverage-guided fuzzing (atheris) of the memory/time validators in the thorough tier",
                text="Generated Resources and operand lists; combine_max monotone and tight per quantity, with_defaults field-wise, update/dict/from_dict side-effect free and round-tripping, slurm tokens, single-fault invalid inputs rejected.",
                note="gpus=0 need not be mentioned by to_slurm_options; strings restricted to printable ASCII."),
}

DESIGN_REF = {k: f"DESIGN.md section 4, {k}" for k in META}


# checks that have been reviewed (quiet on >= 5 seeds, mutants caught) and may be claimed
READY = ["C01", "C02", "C03", "C04", "C05", "C06", "C07", "C08", "C09", "C10", "C11", "C12", "C13", "C14", "C15", "C16", "C17", "C18", "C19", "C20"]


COV_FUZZ = {"C02", "C09", "C10", "C14", "C15", "C16", "C17", "C18"}
for _pid in COV_FUZZ:
    META[_pid]["technique"] += "; thorough tier adds coverage-guided fuzzing (atheris/libFuzzer) over the same structured cases (fuzz/hyp_fuzz.py)"


def main():
    checks, na = [], []
    for pid, m in sorted(META.items()):
        mods = glob.glob(os.path.join(HERE, "checks", pid.lower() + "_*.py"))
        if not mods or pid not in READY:
            na.append({"property_id": pid, "reason": "check not built yet (planned in DESIGN.md section 4); not claimed"})
            continue
        checks.append({
            "property_id": pid,
            "quick_cmd": f"./run_check.py {pid} --tier quick",
            "thorough_cmd": f"./run_check.py {pid} --tier thorough",
            "evidence_file": f"/verif/evidence/{pid}.json",
            "replay_cmd_template": f"./run_check.py {pid} --replay {{path}}",
            "engine": "pbt-runner",
            "level_claimed": {"category": m["level"], "text": m["text"], "design_ref": DESIGN_REF[pid]},
            "level_note": m["note"],
            "technique": m["technique"],
        })
    manifest = {
        "version": 1,
        "setup_cmd": "./setup.sh",
        "hooks": {
            "guard": "PIPEFUNC_VERIF",
            "enable": "no source hooks are needed: checks import pipefunc from /repo's working tree and drive it through public arguments (executor=, run_folder=, cache_kwargs=) and harness-side monkeypatching inside forked children; PIPEFUNC_VERIF=1 is set by the checks but read by nothing in the repository",
            "baseline_off_cmd": "cd /repo && /venv/bin/python -m pytest -ra -q -p no:cacheprovider --timeout=900 --continue-on-collection-errors",
            "source_commits": [],
            "add_only": True,
        },
        "engines": [{
            "name": "pbt-runner",
            "path": "/verif/run_check.py",
            "serves_properties": [c["property_id"] for c in checks],
            "kind_free_text": "Hypothesis-driven generated-input search with explicit oracles, sharded over 16 processes, failure bucketing + shrinking + JSON replay files; exhaustive enumeration for small finite sub-domains; atheris fuzz targets in thorough tiers",
        }],
        "checks": checks,
        "not_applicable": na,
        "notes": "Seed via VERIF_SEED, tier via --tier/VERIF_TIER. Known findings and fixed defects: /verif/known_findings.json. Seeded mutants used for sensitivity: /verif/seeded/.",
    }
    with open(os.path.join(HERE, "MANIFEST.json"), "w") as f:
        json.dump(manifest, f, indent=1)
    try:
        import jsonschema
        jsonschema.validate(manifest, json.load(open("/root/.vp/MANIFEST.schema.json")))
    except ImportError:
        pass
    print(f"claimed: {[c['property_id'] for c in checks]}; not claimed: {[n['property_id'] for n in na]}")


if __name__ == "__main__":
    main()

#!/bin/sh
# usage: tools/seed_sweep.sh <first-seed> <last-seed> [tier] [checks...]   -> prints one line per (check, seed); VIOLATION lines are shown
cd "$(dirname "$0")/.." || exit 2
first=$1; last=$2; tier=${3:-quick}; shift 3 2>/dev/null
checks=${*:-C01 C02 C03 C04 C05 C06 C07 C08 C09 C10 C11 C12 C13 C14 C15 C16 C17 C18 C19 C20}
for s in $(seq "$first" "$last"); do
  for c in $checks; do
    out=$(VERIF_SEED=$s ./run_check.py "$c" --tier "$tier" 2>&1); rc=$?
    echo "$out" | grep -E "^VIOLATION|HARNESS" | head -5
    echo "seed=$s $c rc=$rc $(echo "$out" | grep -E "^$c tier" | sed 's/excluded_known.*violations/violations/' | cut -c1-120)"
  done
done

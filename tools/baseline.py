#!/usr/bin/env python3
"""Run the repository's pinned baseline suite (guard off) and compare with /root/.vp/BASELINE.json.

usage: tools/baseline.py [repo_dir]      exit 0 iff every stable_pass test passed.
"""
import json, os, subprocess, sys, tempfile, xml.etree.ElementTree as ET

repo = sys.argv[1] if len(sys.argv) > 1 else "/repo"
base = json.load(open("/root/.vp/BASELINE.json"))
out = tempfile.mktemp(suffix=".xml")
env = dict(os.environ)
env.pop("PIPEFUNC_VERIF", None)
cmd = ["/venv/bin/python", "-m", "pytest", "-ra", "-q", "-p", "no:cacheprovider", "--timeout=900",
       "--continue-on-collection-errors", f"--junitxml={out}"]
p = subprocess.run(cmd, cwd=repo, env=env, stdout=subprocess.PIPE, stderr=subprocess.STDOUT, text=True)
passed = set()
for tc in ET.parse(out).getroot().iter("testcase"):
    if not any(ch.tag in ("failure", "error", "skipped") for ch in tc):
        passed.add(f"{tc.get('classname')}::{tc.get('name')}")
os.unlink(out)
for junk in ("tmp_path", "htmlcov", "coverage.xml", ".coverage"):
    subprocess.run(["rm", "-rf", os.path.join(repo, junk)])
# the suite rewrites a *tracked* file (my_run_folder/run_info.json): leave the working tree as it was
subprocess.run(["git", "-C", repo, "checkout", "--", "my_run_folder"], stdout=subprocess.DEVNULL, stderr=subprocess.DEVNULL)
missing = [t for t in base["stable_pass"] if t not in passed]
print(p.stdout[-600:])
print(f"baseline: {len(base['stable_pass']) - len(missing)}/{len(base['stable_pass'])} stable tests passed")
for m in missing:
    print("MISSING", m)
sys.exit(1 if missing else 0)

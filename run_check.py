#!/venv/bin/python
"""Single entry point:  run_check.py <Cxx> [--tier quick|thorough] [--replay FILE]

exit 0: property held on everything explored; exit 1: "VIOLATION property=<id> replay=<path>" printed;
exit 2: harness error (never a violation).  Seed from $VERIF_SEED (default 1), tier from --tier or
$VERIF_TIER.
"""
import argparse
import glob
import os
import sys
import traceback

sys.path.insert(0, os.path.dirname(os.path.abspath(__file__)))


def main() -> int:
    ap = argparse.ArgumentParser()
    ap.add_argument("pid")
    ap.add_argument("--tier", default=os.environ.get("VERIF_TIER") or "quick", choices=["quick", "thorough"])
    ap.add_argument("--replay", default=None)
    a = ap.parse_args()
    try:
        seed = int(os.environ.get("VERIF_SEED", "1") or "1")
    except ValueError:
        seed = 1
    from vlib import boot  # noqa: F401  (may re-exec)
    from vlib import core

    here = os.path.dirname(os.path.abspath(__file__))
    mods = glob.glob(os.path.join(here, "checks", a.pid.lower() + "_*.py"))
    if len(mods) != 1:
        print(f"no unique check module for {a.pid}: {mods}", file=sys.stderr)
        return 2
    modname = "checks." + os.path.basename(mods[0])[:-3]
    return core.run_check(modname, a.tier, seed, a.replay)


if __name__ == "__main__":
    try:
        rc = main()
    except SystemExit:
        raise
    except BaseException:
        traceback.print_exc()
        rc = 2
    sys.stdout.flush()
    sys.stderr.flush()
    os._exit(rc) if rc == 2 else sys.exit(rc)

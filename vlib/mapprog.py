"""MapProgram: JSON AST of a pipeline whose functions carry MapSpecs, its Hypothesis strategy, a builder that
turns it into a real ``pipefunc.Pipeline`` of tracer functions, and an independent MapSpec *denotation* evaluator
(DESIGN.md 2.1, 2.2, C01).  The evaluator shares no code with pipefunc: own AST, own indexing (NumPy basic
indexing on object arrays), own placement of internal axes.

AST
---
prog = {"sizes": {index name: size},
        "roots": {name: {"axes": [index names], "kind": "scalar"|"list"|"ndarray"}},
        "funcs": [{"name": "f0", "outs": ["o0"] | ["o0a","o0b"], "picker": None|"tuple"|"dict",
                   "mapspec": bool,                     # False: no MapSpec given to pipefunc
                   "params": [{"name": p, "spec": None | [index name | None, ...]}],   # None = unlisted (whole)
                   "out_axes": [index names]            # axes of every output (mapspec functions and autogen)
                   "int_axes": [index names],           # subset of out_axes filled from the returned array
                   "ret": "list"|"ndarray",             # container type returned for internal axes
                   "shape_via": "map"|"pipefunc"}],     # how the internal shape is communicated
        "storage": "file_array" | {"": default, out: name, ...}}
"""

from __future__ import annotations

import inspect
import itertools
import json
import os
from typing import Any

import numpy as np
from hypothesis import strategies as st

from . import boot  # noqa: F401

MASKED = "<MASKED>"
INDEX_POOL = ["i", "j", "k", "l", "m", "n"]


# ------------------------------------------------------------------------------------------------
# canonical form


def canon(v: Any) -> Any:
    """Nested-list normal form; masked elements are rendered as MASKED; leaves as ``str``."""
    if v is np.ma.masked:
        return MASKED
    if isinstance(v, np.ma.MaskedArray):
        return _canon_nd(np.asarray(v.data), np.ma.getmaskarray(v))
    if isinstance(v, np.ndarray):
        return _canon_nd(v, None)
    if isinstance(v, (list, tuple)):
        return [canon(x) for x in v]
    return str(v)


def _canon_nd(data: np.ndarray, mask) -> Any:
    if data.ndim == 0:
        if mask is not None and bool(mask[()]):
            return MASKED
        return canon(data[()])
    if data.ndim == 1:
        return [MASKED if (mask is not None and bool(mask[i])) else canon(data[i]) for i in range(data.shape[0])]
    return [_canon_nd(data[i], None if mask is None else mask[i]) for i in range(data.shape[0])]


def canon_text(v: Any) -> str:
    return json.dumps(canon(v), separators=(",", ":"))


def shape_of(v: Any) -> tuple:
    c = canon(v)
    shape = []
    while isinstance(c, list):
        shape.append(len(c))
        if not c:
            break
        c = c[0]
    return tuple(shape)


# ------------------------------------------------------------------------------------------------
# cross-process, append-only call log


class FileLog:
    def __init__(self, path: str) -> None:
        self.path = path

    def append(self, entry) -> None:
        fd = os.open(self.path, os.O_WRONLY | os.O_APPEND | os.O_CREAT, 0o644)
        try:
            os.write(fd, (json.dumps(entry, separators=(",", ":")) + "\n").encode())
        finally:
            os.close(fd)

    def read(self) -> list:
        if not os.path.exists(self.path):
            return []
        with open(self.path) as f:
            return [json.loads(line) for line in f if line.strip()]

    def clear(self) -> None:
        try:
            os.unlink(self.path)
        except FileNotFoundError:
            pass


# ------------------------------------------------------------------------------------------------
# tracer bodies


def fn_internal_shape(prog: dict, fn: dict) -> tuple:
    return tuple(prog["sizes"][a] for a in fn["out_axes"] if a in fn["int_axes"])


TRACE_ARG_LIMIT = 2000


def _arg_text(v: Any) -> str:
    """Provenance text of one argument.  Nested ':' slices and reductions make the text grow geometrically with the
    depth of the program (gigabytes for a few rank-6 cases); beyond TRACE_ARG_LIMIT characters the text is replaced
    by its length and SHA-1, which keeps the oracle's equality semantics with bounded memory."""
    t = canon_text(v)
    if len(t) > TRACE_ARG_LIMIT:
        import hashlib

        t = f"<{len(t)}#{hashlib.sha1(t.encode()).hexdigest()[:20]}>"
    return t


def trace_call(fn: dict, kw: dict) -> str:
    return fn["name"] + "(" + ";".join(f"{p['name']}={_arg_text(kw[p['name']])}" for p in fn["params"]) + ")"


def returns_none(fn: dict, base: str) -> bool:
    """Some tracers legitimately return None for some calls (side-effect style functions): decided by the call text."""
    import zlib

    return bool(fn.get("nones")) and not fn["int_axes"] and len(fn["outs"]) == 1 and zlib.crc32(base.encode()) % 3 == 0


def make_block(base: str, oname: str, int_shape: tuple, ret: str):
    if not int_shape:
        return f"{oname}:{base}"
    arr = np.empty(int_shape, dtype=object)
    for idx in itertools.product(*map(range, int_shape)):
        arr[idx] = f"{oname}:{base}@{','.join(map(str, idx))}"
    return arr.tolist() if ret == "list" and len(int_shape) == 1 else arr


def main_value_class():
    """A result type defined in ``__main__`` (as in a user's script): only serialisation *by value* lets another
    interpreter load such results.  str() of an instance is the provenance text, so oracles are unaffected."""
    import sys

    main = sys.modules["__main__"]
    cls = getattr(main, "VerifMainValue", None)
    if cls is None:
        ns: dict = {}
        src = (
            "class VerifMainValue:\n"
            "    def __init__(self, t):\n        self.t = t\n"
            "    def __str__(self):\n        return self.t\n"
            "    def __repr__(self):\n        return self.t\n"
            "    def __eq__(self, other):\n        return str(other) == self.t\n"
            "    def __hash__(self):\n        return hash(self.t)\n"
        )
        exec(src, {"__name__": "__main__"}, ns)  # noqa: S102
        cls = ns["VerifMainValue"]
        main.VerifMainValue = cls
    return cls


if not os.environ.get("VERIF_NO_MAIN_CLASS"):
    # at import: every process forked later (pools, Manager servers) knows the class, as with a user's script; an
    # *independent* interpreter that only loads results (VERIF_NO_MAIN_CLASS=1) does not have it
    main_value_class()


def _wrap_main(r):
    cls = main_value_class()
    if isinstance(r, str):
        return cls(r)
    if isinstance(r, tuple):
        return tuple(_wrap_main(x) for x in r)
    if isinstance(r, list):
        return [_wrap_main(x) for x in r]
    if isinstance(r, dict):
        return {k: _wrap_main(v) for k, v in r.items()}
    if isinstance(r, np.ndarray):
        out = np.empty(r.shape, dtype=object)
        for idx in np.ndindex(*r.shape):
            out[idx] = _wrap_main(r[idx])
        return out
    return r


def dict_picker(output: Any, name: str) -> Any:
    return output[name]


def make_body(prog: dict, fn: dict, log=None, hook=None):
    int_shape = fn_internal_shape(prog, fn)
    pnames = [p["name"] for p in fn["params"]]
    fn = json.loads(json.dumps(fn))  # private copy (closures travel through cloudpickle)
    outs = list(fn["outs"])
    ret = fn["ret"]
    picker = fn.get("picker")

    def body(**kw):
        base = trace_call(fn, kw)
        if log is not None:
            log.append(["start", fn["name"], base, os.getpid()])
        if hook is not None:
            hook(fn["name"], base, kw)
        if returns_none(fn, base):
            r = None
        elif len(outs) == 1:
            r = make_block(base, outs[0], int_shape, ret)
        elif picker == "dict":
            r = {o: make_block(base, o, int_shape, ret) for o in outs}
        else:
            r = tuple(make_block(base, o, int_shape, ret) for o in outs)
        if r is not None and prog.get("value_class") == "main":
            r = _wrap_main(r)
        if log is not None:
            log.append(["end", fn["name"], base, os.getpid()])
        return r

    body.__signature__ = inspect.Signature(
        [inspect.Parameter(p, inspect.Parameter.POSITIONAL_OR_KEYWORD) for p in pnames]
    )
    # (two different PipeFuncs may well wrap callables of the same __name__: lambdas, one function wrapped twice)
    body.__name__ = "f" if prog.get("same_callable_name") else fn["name"]
    body.__qualname__ = body.__name__
    return body


def mapspec_str(fn: dict) -> str | None:
    if not fn["mapspec"]:
        return None
    ins = [
        f"{p['name']}[{', '.join(':' if a is None else a for a in p['spec'])}]"
        for p in fn["params"]
        if p["spec"] is not None
    ]
    outs = [f"{o}[{', '.join(fn['out_axes'])}]" for o in fn["outs"]]
    return (", ".join(ins) if ins else "...") + " -> " + ", ".join(outs)


def internal_shapes_arg(prog: dict) -> dict | None:
    d: dict = {}
    for fn in prog["funcs"]:
        if fn["int_axes"] and fn.get("shape_via", "map") == "map":
            for o in fn["outs"]:
                shp = fn_internal_shape(prog, fn)
                # the documented shorthand for one internal axis is a plain int; used for every other such output
                d[o] = shp[0] if len(shp) == 1 and (len(o) + len(fn["out_axes"])) % 2 else shp
    return d or None


def make_pipefuncs(prog: dict, log=None, hook=None, **extra):
    from pipefunc import PipeFunc

    pfs = []
    for fn in prog["funcs"]:
        body = make_body(prog, fn, log, hook)
        on = fn["outs"][0] if len(fn["outs"]) == 1 else tuple(fn["outs"])
        kw: dict[str, Any] = {}
        if fn.get("picker") == "dict":
            kw["output_picker"] = dict_picker
        if fn["int_axes"] and fn.get("shape_via", "map") == "pipefunc":
            kw["internal_shape"] = fn_internal_shape(prog, fn)
        dflt = {r: root_default(r, sp, prog["sizes"]) for r, sp in prog["roots"].items() if sp.get("default") and sp.get("default_on") == fn["name"]}
        if dflt:
            kw["defaults"] = dflt
        kw.update(extra.get(fn["name"], {}))
        pfs.append(PipeFunc(body, on, mapspec=mapspec_str(fn), **kw))
    return pfs


def build_pipeline(prog: dict, log=None, hook=None, order=None, pf_extra=None, **pipeline_kwargs):
    from pipefunc import Pipeline

    pfs = make_pipefuncs(prog, log, hook, **(pf_extra or {}))
    if order is not None:
        pfs = [pfs[i] for i in order]
    return Pipeline(pfs, **pipeline_kwargs)


def root_value(name: str, spec: dict, sizes: dict, variant: str = ""):
    name = name + variant  # a second, different set of input values for the same program
    axes = spec["axes"]
    if not axes:
        return f"{name}"
    shape = tuple(sizes[a] for a in axes)
    arr = np.empty(shape, dtype=object)
    for idx in itertools.product(*map(range, shape)):
        arr[idx] = f"{name}<{','.join(map(str, idx))}>"
    if spec["kind"] == "list" and len(axes) == 1:
        return arr.tolist()
    return arr


def used_roots(prog: dict) -> list[str]:
    used = {p["name"] for fn in prog["funcs"] for p in fn["params"]}
    return [r for r in prog["roots"] if r in used]


def root_default(name: str, spec: dict, sizes: dict):
    """The default value a root declares (spec["default"]): "used" -- the caller omits the input and the default (of
    the right extent) is the input; "longer"/"shorter"/"same" -- the caller's input overrides a default of another
    extent / other values, which must then play no role at all."""
    mode = spec.get("default")
    if mode is None:
        return None
    if mode == "longer":
        sizes = {a: n + 1 for a, n in sizes.items()}
    elif mode == "shorter":
        sizes = {a: max(1, n - 1) for a, n in sizes.items()}
    return root_value(name, spec, sizes, "D")


def make_inputs(prog: dict, variant: str = "") -> dict:
    return {r: root_value(r, prog["roots"][r], prog["sizes"], variant) for r in used_roots(prog)
            if prog["roots"][r].get("default") != "used"}  # fmt: skip


def with_used_defaults(prog: dict, inputs: dict) -> dict:
    env = dict(inputs)
    for r in used_roots(prog):
        if prog["roots"][r].get("default") == "used" and r not in env:
            env[r] = root_default(r, prog["roots"][r], prog["sizes"])
    return env


def output_names(prog: dict) -> list[str]:
    return [o for fn in prog["funcs"] for o in fn["outs"]]


# ------------------------------------------------------------------------------------------------
# reference: MapSpec denotation


def ext_axes_of(fn: dict) -> list[str]:
    return [a for a in fn["out_axes"] if a not in fn["int_axes"]]


def iter_calls(prog: dict, fn: dict):
    """Yield the external index assignments (dict index name -> int) of every call of `fn`."""
    if not fn["mapspec"]:
        yield {}
        return
    ext = ext_axes_of(fn)
    for combo in itertools.product(*[range(prog["sizes"][a]) for a in ext]):
        yield dict(zip(ext, combo))


def select_kwargs(fn: dict, env: dict, ids: dict) -> dict:
    kw = {}
    for p in fn["params"]:
        v = env[p["name"]]
        if p["spec"] is None or not fn["mapspec"]:
            kw[p["name"]] = v
        else:
            key = tuple(slice(None) if a is None else ids[a] for a in p["spec"])
            kw[p["name"]] = np.asarray(v, dtype=object)[key]
    return kw


def denotation(prog: dict, inputs: dict | None = None, only: set | None = None, calls_out: list | None = None) -> dict:
    """Evaluate the program by the MapSpec semantics. Returns name -> value for inputs and every output.

    `calls_out`, if given, receives (function name, traced call text, ids) for every call in evaluation order.
    """
    sizes = prog["sizes"]
    env = with_used_defaults(prog, make_inputs(prog) if inputs is None else inputs)
    for fn in prog["funcs"]:
        if only is not None and not (set(fn["outs"]) & only):
            continue
        int_shape = fn_internal_shape(prog, fn)
        if not fn["mapspec"]:
            kw = {p["name"]: env[p["name"]] for p in fn["params"]}
            base = trace_call(fn, kw)
            if calls_out is not None:
                calls_out.append((fn["name"], base, {}))
            for o in fn["outs"]:
                env[o] = None if returns_none(fn, base) else make_block(base, o, int_shape, "ndarray")
            continue
        full_shape = tuple(sizes[a] for a in fn["out_axes"])
        res = {o: np.empty(full_shape, dtype=object) for o in fn["outs"]}
        for ids in iter_calls(prog, fn):
            kw = select_kwargs(fn, env, ids)
            base = trace_call(fn, kw)
            if calls_out is not None:
                calls_out.append((fn["name"], base, dict(ids)))
            for o in fn["outs"]:
                blk = None if returns_none(fn, base) else make_block(base, o, int_shape, "ndarray")
                if fn["int_axes"]:
                    for iidx in itertools.product(*map(range, int_shape)):
                        it = iter(iidx)
                        full = tuple(ids[a] if a in ids else next(it) for a in fn["out_axes"])
                        res[o][full] = blk[iidx]
                else:
                    res[o][tuple(ids[a] for a in fn["out_axes"])] = blk
        env.update(res)
    return env


def func_of_output(prog: dict) -> dict:
    return {o: fn for fn in prog["funcs"] for o in fn["outs"]}


def expected_call_counts(prog: dict) -> dict[str, int]:
    return {fn["name"]: sum(1 for _ in iter_calls(prog, fn)) for fn in prog["funcs"]}


# ------------------------------------------------------------------------------------------------
# labels


def labels(prog: dict) -> list[str]:
    labs = set()
    prod = func_of_output(prog)
    for r, sp in prog["roots"].items():
        if sp.get("default"):
            labs.add("root-default:" + ("used" if sp["default"] == "used" else "overridden") + ("-array" if sp["axes"] else "-scalar"))
    for fn in prog["funcs"]:
        if not fn["mapspec"]:
            labs.add("no_mapspec")
            if fn["int_axes"]:
                labs.add("autogen")
            continue
        named = [a for p in fn["params"] if p["spec"] for a in p["spec"] if a is not None]
        specs = [p["spec"] for p in fn["params"] if p["spec"] is not None]
        if len(specs) >= 2:
            sets = [set(a for a in s if a is not None) for s in specs]
            if any(sets[a] & sets[b] for a in range(len(sets)) for b in range(a + 1, len(sets))):
                labs.add("zip")
            if any(sets[a] - sets[b] and sets[b] - sets[a] for a in range(len(sets)) for b in range(a + 1, len(sets))):
                labs.add("outer")
        if any(s and any(a is None for a in s) and any(a is not None for a in s) for s in specs):
            labs.add("partial_reduction")
        if any(s and all(a is None for a in s) for s in specs):
            labs.add("fully_sliced")
        if any(p["spec"] is None and (p["name"] in prod and prod[p["name"]]["out_axes"] or prog["roots"].get(p["name"], {}).get("axes")) for p in fn["params"]):
            labs.add("full_reduction")
        if fn["int_axes"]:
            ext = ext_axes_of(fn)
            if not ext:
                labs.add("generator")
            else:
                pos = [fn["out_axes"].index(a) for a in fn["int_axes"]]
                epos = [fn["out_axes"].index(a) for a in ext]
                labs.add("internal_leading" if min(pos) < max(epos) else "internal_trailing")
            if len(fn["int_axes"]) > 1:
                labs.add("internal_x2")
        if len(fn["outs"]) > 1:
            labs.add("multi_output")
            if any(p["spec"] is None and p["name"] in prod for f2 in prog["funcs"] for p in f2["params"] if p["name"] in fn["outs"]):
                labs.add("multi_output_x_reduction")
        if len(set(named)) >= 2:
            labs.add("two_indices")
        if list(fn["out_axes"]) != [a for a in dict.fromkeys(named)] + [a for a in fn["int_axes"]]:
            labs.add("permuted_output")
    for r, spec in prog["roots"].items():
        if r in used_roots(prog):
            if spec["kind"] == "list":
                labs.add("list_input")
            if len(spec["axes"]) >= 2:
                labs.add(f"rank{len(spec['axes'])}")
    st_ = prog["storage"]
    labs.add("storage:" + (st_ if isinstance(st_, str) else "mixed"))
    if len({prog["sizes"][a] for a in prog["sizes"]}) >= 2:
        labs.add("unequal_sizes")
    if any(fn.get("nones") for fn in prog["funcs"]):
        labs.add("returns_none")
    labs.add(f"nf{len(prog['funcs'])}")
    return sorted(labs)


def nontrivial(labs: list[str]) -> bool:
    if not any(l.startswith("nf") for l in labs):
        return False
    interesting = {
        "two_indices", "partial_reduction", "fully_sliced", "full_reduction", "generator", "internal_leading",
        "internal_trailing", "multi_output", "autogen", "rank2", "rank3", "zip", "outer",
    }  # fmt: skip
    return bool(interesting & set(labs)) and "no_mapspec_only" not in labs


# ------------------------------------------------------------------------------------------------
# strategy


@st.composite
def map_programs(
    draw,
    max_funcs: int = 4,
    max_rank: int = 3,
    storages=("file_array", "dict", "shared_memory_dict"),
    allow_autogen: bool = True,
    allow_internal: bool = True,
    allow_multi: bool = True,
    allow_no_mapspec: bool = True,
    allow_reduction: bool = True,
    consistent_only: bool = True,
    min_funcs: int = 1,
    max_size: int = 3,
    root_pool: int = 4,  # number of index names the root inputs draw their axes from (small -> more zips)
    allow_none: bool = True,
    allow_root_defaults: bool = False,
    max_outputs: int = 2,
):
    sizes: dict[str, int] = {}

    def size_of(a):
        if a not in sizes:
            sizes[a] = draw(st.integers(1, max_size))
        return sizes[a]

    arrays: dict[str, list[str]] = {}
    roots: dict[str, dict] = {}
    for r in range(draw(st.integers(1, 3))):
        rank = draw(st.sampled_from([0, 1, 1, 1, 2, 2, 3][: 2 + 2 * max_rank]))
        rank = min(rank, max_rank)
        rank = min(rank, root_pool)
        axes = list(draw(st.permutations(INDEX_POOL[:root_pool]))[:rank])
        for a in axes:
            size_of(a)
        kind = "scalar" if rank == 0 else ("ndarray" if rank > 1 else draw(st.sampled_from(["list", "ndarray"])))
        roots[f"r{r}"] = {"axes": axes, "kind": kind}
        arrays[f"r{r}"] = axes
    funcs = []
    n_funcs = draw(st.integers(min_funcs, max_funcs))
    autogen_candidates: set[str] = set()  # outputs of no-mapspec functions that may still get axes
    for f in range(n_funcs):
        avail = list(arrays)
        k = draw(st.integers(1, min(3, len(avail))))
        # prefer recent outputs
        pnames = []
        pool = list(avail)
        for _ in range(k):
            if len(pool) > 1 and draw(st.booleans()):
                p = pool[-1]
            else:
                p = draw(st.sampled_from(pool))
            pool.remove(p)
            pnames.append(p)
        use_mapspec = draw(st.sampled_from([True, True, True, False])) if allow_no_mapspec else True
        params = []
        in_indices: list[str] = []
        for p in pnames:
            axes = arrays[p]
            if not use_mapspec:
                params.append({"name": p, "spec": None})
                continue
            if not axes:
                # a rank-0 value; if it is the output of a no-mapspec function we may *declare* axes for it now
                if allow_autogen and p in autogen_candidates and draw(st.integers(0, 2)) == 0:
                    rank = draw(st.integers(1, 2))
                    new_axes = list(draw(st.permutations(INDEX_POOL))[:rank])
                    prodf = next(fn for fn in funcs if p in fn["outs"])
                    for a in new_axes:
                        size_of(a)
                    prodf["out_axes"] = new_axes
                    prodf["int_axes"] = list(new_axes)
                    for o in prodf["outs"]:
                        arrays[o] = new_axes
                        autogen_candidates.discard(o)
                    axes = new_axes
                else:
                    params.append({"name": p, "spec": None})
                    continue
            mode = draw(st.sampled_from(["index", "index", "index", "partial", "sliced", "whole"]))
            if not allow_reduction:
                mode = "index"
            if mode == "whole":
                params.append({"name": p, "spec": None})
            elif mode == "sliced":
                params.append({"name": p, "spec": [None] * len(axes)})
            else:
                spec = [a if (mode == "index" or draw(st.booleans())) else None for a in axes]
                params.append({"name": p, "spec": spec})
                for a in spec:
                    if a is not None and a not in in_indices:
                        in_indices.append(a)
        n_out = draw(st.sampled_from([1, 1, 1, 2] + [3] * (max_outputs >= 3))) if allow_multi else 1
        outs = [f"o{f}" + ("abc"[q] if n_out > 1 else "") for q in range(n_out)]
        int_axes: list[str] = []
        if use_mapspec:
            free = [a for a in INDEX_POOL if a not in in_indices]
            n_int = draw(st.sampled_from([0, 0, 1, 1, 2])) if allow_internal else 0
            has_spec = any(p["spec"] is not None for p in params)
            if not in_indices and n_int == 0:
                # MapSpec needs at least one output index: generator form, or drop the MapSpec
                if allow_internal and draw(st.booleans()):
                    n_int = 1
                else:
                    use_mapspec = False
                    params = [{"name": p["name"], "spec": None} for p in params]
            if use_mapspec:
                int_axes = list(draw(st.permutations(free))[:n_int])
                for a in int_axes:
                    size_of(a)
                del has_spec
        out_axes: list[str] = []
        if use_mapspec:
            out_axes = list(draw(st.permutations(in_indices + int_axes)))
        fn = {
            "name": f"f{f}",
            "outs": outs,
            "picker": (draw(st.sampled_from(["tuple", "tuple", "dict"])) if n_out > 1 else None),
            "mapspec": use_mapspec,
            "params": params,
            "out_axes": out_axes,
            "int_axes": int_axes,
            "ret": draw(st.sampled_from(["list", "ndarray"])),
            "shape_via": draw(st.sampled_from(["map", "map", "pipefunc"])),
            "nones": bool(allow_none and n_out == 1 and draw(st.integers(0, 3)) == 0),
        }
        funcs.append(fn)
        for o in outs:
            arrays[o] = out_axes
            if not use_mapspec:
                autogen_candidates.add(o)
    # None results only for outputs nobody consumes: call texts of downstream functions stay unique
    consumed = {p["name"] for fn in funcs for p in fn["params"]}
    for fn in funcs:
        if fn["nones"] and (set(fn["outs"]) & consumed):
            fn["nones"] = False
    names = [o for fn in funcs for o in fn["outs"]]
    kind = draw(st.sampled_from(["uniform"] * 4 + ["mixed"]))
    weights = [s for s in storages for _ in range(1 if "shared" in s else 4)]
    if kind == "uniform" or len(storages) == 1:
        storage: Any = draw(st.sampled_from(weights))
    else:
        storage = {"": draw(st.sampled_from(weights))}
        for o in names:
            if draw(st.booleans()):
                storage[o] = draw(st.sampled_from(weights))
        # tuple outputs: pipefunc looks the storage up by the function's output_name (the tuple)
        for fn in funcs:
            if len(fn["outs"]) > 1:
                vals = {storage.pop(o, None) for o in fn["outs"]} - {None}
                if vals:
                    storage[",".join(fn["outs"])] = sorted(vals)[0]
    if allow_root_defaults:
        for r, sp in roots.items():
            users = [fn["name"] for fn in funcs if any(q["name"] == r for q in fn["params"])]
            mode = draw(st.sampled_from([None, None, None, "used", "longer", "shorter", "same"]))
            if users and mode:
                sp["default"] = mode
                sp["default_on"] = users[draw(st.integers(0, len(users) - 1))]
    # sizes for every used index name (JSON object)
    return {"sizes": dict(sizes), "roots": roots, "funcs": funcs, "storage": storage}


def storage_arg(prog: dict):
    s = prog["storage"]
    if isinstance(s, str):
        return s
    return {(tuple(k.split(",")) if "," in k else k): v for k, v in s.items()}

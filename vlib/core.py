"""Runner core: campaigns, sharding, bucketing, known findings, shrinking, replay, evidence.

A *check module* (checks/cNN_*.py) exposes

    PID, LEVEL, RULE, ASSUMPTIONS            strings / list of strings
    campaigns(tier) -> list[Campaign]        what to explore
    PREDICATES: dict[str, fn(case, failure) -> bool]   structural predicates used by known_findings.json

A campaign *body* takes one JSON-serialisable ``data`` value (drawn from the campaign's Hypothesis
strategy, or produced by its enumerator) and returns an :class:`Outcome`.  Bodies never raise on an
oracle failure -- they return ``Failure(bucket, detail)`` records (DESIGN.md 2.3) -- so one shallow
defect cannot hide what lies behind it.  An exception escaping a body is a harness error (exit 2).
"""

from __future__ import annotations

import dataclasses
import hashlib
import json
import multiprocessing as mp
import os
import signal
import sys
import time
import traceback
from collections import Counter
from typing import Any, Callable, Iterable

from . import boot

KNOWN_FILE = os.path.join(boot.VERIF, "known_findings.json")
EVIDENCE_DIR = os.path.join(boot.VERIF, "evidence")
REPLAY_DIR = os.path.join(boot.VERIF, "replays")
REGRESSION_DIR = os.path.join(boot.VERIF, "regressions")
NCPU = min(16, os.cpu_count() or 1)


# ------------------------------------------------------------------------------------------------
@dataclasses.dataclass
class Failure:
    bucket: str
    detail: str = ""
    info: Any = None  # optional structured data for known-finding predicates


@dataclasses.dataclass
class Outcome:
    nontrivial: bool = False
    labels: list = dataclasses.field(default_factory=list)
    failures: list = dataclasses.field(default_factory=list)
    # optional finer-grained units of work inside one case (e.g. calls checked, crash states)
    units: int = 1
    # optional: extra distinct non-trivial digests contributed by this case (e.g. per crash state)
    extra_digests: list = dataclasses.field(default_factory=list)

    def fail(self, bucket: str, detail: Any = "", info: Any = None) -> None:
        self.failures.append(Failure(bucket, str(detail)[:600], info))


@dataclasses.dataclass
class Campaign:
    name: str
    body: Callable[[Any], Outcome]
    strategy: Any = None
    enumerate: Callable[[], Iterable] | None = None
    quick: int = 200
    thorough: int = 4000
    shards_quick: int = 8
    shards_thorough: int = 16
    exhaustive: bool = False  # enumerate() is a complete enumeration of a stated finite domain
    describe: str = ""


def exc_bucket(e: BaseException, prefix: str = "EXC") -> str:
    """Root-cause signature of an exception: type + innermost pipefunc frame."""
    tb = traceback.extract_tb(e.__traceback__)
    inner = [f for f in tb if (boot.REPO + os.sep + "pipefunc") in os.path.abspath(f.filename)]
    if inner:
        loc = f"{os.path.basename(inner[-1].filename)}:{inner[-1].name}"
    else:
        loc = "outside-pipefunc:" + (tb[-1].name if tb else "?")
    return f"{prefix}:{type(e).__name__}@{loc}"


def exc_detail(e: BaseException) -> str:
    return f"{type(e).__name__}: {str(e)[:300]}"


def digest(obj: Any) -> str:
    return hashlib.sha1(json.dumps(obj, sort_keys=True, default=str).encode()).hexdigest()[:16]


def case_size(obj: Any) -> int:
    return len(json.dumps(obj, sort_keys=True, default=str))


# ------------------------------------------------------------------------------------------------
# known findings


def load_known(pid: str) -> list[dict]:
    if not os.path.exists(KNOWN_FILE):
        return []
    with open(KNOWN_FILE) as f:
        data = json.load(f)
    return [e for e in data.get("entries", []) if e.get("property") == pid]


def match_known(entries: list[dict], predicates: dict, case: dict, failure: Failure) -> str | None:
    """Return the id of the *open* finding that covers this failure, if any."""
    for e in entries:
        if e.get("status") != "finding":
            continue
        b = e.get("bucket")
        if b is not None and b != failure.bucket:
            continue
        pred = e.get("predicate")
        if pred:
            fn = predicates.get(pred)
            if fn is None:
                raise RuntimeError(f"known finding {e['id']} names unknown predicate {pred}")
            try:
                if not fn(case, failure):
                    continue
            except Exception:  # a predicate that cannot judge a case does not cover it
                continue
        return e["id"]
    return None


# ------------------------------------------------------------------------------------------------
# shard worker


class ShardResult:
    def __init__(self) -> None:
        self.evals = 0
        self.units = 0
        self.digests: set[str] = set()
        self.labels: Counter = Counter()
        self.buckets: dict[str, dict] = {}
        self.excluded: Counter = Counter()
        self.samples: list = []
        self.error: str | None = None

    def record(self, campaign: str, data: Any, out: Outcome, known, predicates, shard_seed) -> None:
        self.evals += 1
        self.units += out.units
        case = {"campaign": campaign, "data": data}
        if out.nontrivial:
            self.digests.add(digest(case))
            if len(self.samples) < 2:
                self.samples.append(case)
        for d in out.extra_digests:
            self.digests.add(d)
        for lab in out.labels:
            self.labels[lab] += 1
        for f in out.failures:
            fcase = case
            if isinstance(f.info, dict) and f.info.get("inner_case"):
                fcase = f.info["inner_case"]  # found by a search that wraps another campaign: that campaign's case replays it
            kid = match_known(known, predicates, fcase, f)
            if kid is not None:
                self.excluded[kid] += 1
                continue
            b = self.buckets.setdefault(
                f.bucket, {"count": 0, "case": None, "detail": "", "size": 1 << 60, "seed": shard_seed}
            )
            b["count"] += 1
            s = case_size(fcase)
            if s < b["size"]:
                b.update(case=fcase, detail=f.detail, size=s, seed=shard_seed)


def _silence() -> None:
    sys.stdout = open(os.devnull, "w")


def _get_campaign(modname: str, tier: str, cname: str) -> tuple[Any, Campaign]:
    import importlib

    mod = importlib.import_module(modname)
    for c in mod.campaigns(tier):
        if c.name == cname:
            return mod, c
    raise KeyError(cname)


def _run_shard(args) -> ShardResult:
    modname, tier, cname, shard, nshards, seed, n = args
    res = ShardResult()
    old_stdout = sys.stdout
    try:
        _silence()
        if cname == "__stored__":  # replay of one stored case; `shard` carries the case itself
            import importlib

            mod = importlib.import_module(modname)
            res.stored_failures = replay_case(mod, tier, shard)  # type: ignore[attr-defined]
            res.evals = 1
            return res
        mod, camp = _get_campaign(modname, tier, cname)
        known = load_known(mod.PID)
        predicates = getattr(mod, "PREDICATES", {})
        shard_seed = seed * 1000 + shard
        if camp.enumerate is not None:
            for i, data in enumerate(camp.enumerate()):
                if i % nshards != shard:
                    continue
                if n and res.evals >= n:
                    break
                out = camp.body(data)
                res.record(cname, data, out, known, predicates, shard_seed)
        else:
            from hypothesis import HealthCheck, Phase, given, settings
            from hypothesis import seed as hseed

            @hseed(shard_seed)
            @settings(
                max_examples=n,
                deadline=None,
                database=None,
                derandomize=False,
                report_multiple_bugs=False,
                suppress_health_check=list(HealthCheck),
                phases=[Phase.generate],
            )
            @given(camp.strategy)
            def t(data):
                out = camp.body(data)
                res.record(cname, data, out, known, predicates, shard_seed)

            t()
    except BaseException as e:  # harness error: report, never a VIOLATION
        res.error = "".join(traceback.format_exception(type(e), e, e.__traceback__))[-4000:]
    finally:
        try:
            sys.stdout.close()
        except Exception:
            pass
        sys.stdout = old_stdout
    return res


def _detach_child() -> None:
    """Own process group (so the parent can kill every descendant, e.g. leaked Manager servers) and no
    inherited stdout/stderr pipe (so a leftover process can never keep the caller's pipe open)."""
    try:
        os.setpgid(0, 0)
    except OSError:
        pass
    dn = os.open(os.devnull, os.O_WRONLY)
    os.dup2(dn, 1)
    if not os.environ.get("VERIF_DEBUG"):
        os.dup2(dn, 2)
    os.close(dn)


def _kill_group(pid: int) -> None:
    try:
        os.killpg(pid, signal.SIGKILL)
    except (ProcessLookupError, PermissionError):
        pass


def _job_child(job, path) -> None:
    import pickle

    _detach_child()
    res = _run_shard(job)
    with open(path + ".tmp", "wb") as f:
        pickle.dump(res, f)
    os.replace(path + ".tmp", path)


def _run_jobs(jobs: list) -> list[ShardResult]:
    """Run shard jobs in forked, non-daemonic children (they may start Manager/pool processes themselves),
    at most NCPU at a time; results come back through pickle files in the scratch area."""
    import pickle

    ctx = mp.get_context("fork")
    paths = [boot.fresh_path("shard") + ".pkl" for _ in jobs]
    pending = list(range(len(jobs)))
    running: dict[int, Any] = {}
    results: list[ShardResult | None] = [None] * len(jobs)
    while pending or running:
        while pending and len(running) < NCPU:
            i = pending.pop(0)
            pr = ctx.Process(target=_job_child, args=(jobs[i], paths[i]), daemon=False)
            pr.start()
            running[i] = pr
        for i, pr in list(running.items()):
            if not pr.is_alive():
                pr.join()
                _kill_group(pr.pid)
                del running[i]
                if os.path.exists(paths[i]):
                    with open(paths[i], "rb") as f:
                        results[i] = pickle.load(f)
                    os.unlink(paths[i])
                else:
                    r = ShardResult()
                    r.error = f"shard process died (exit code {pr.exitcode}) without a result: {jobs[i]}"
                    results[i] = r
        time.sleep(0.02)
    return results  # type: ignore[return-value]


# ------------------------------------------------------------------------------------------------
# shrinking (forked child with a time budget; the smallest failing case seen is kept)


def _shrink_child(modname, tier, cname, bucket, shard_seed, n, outpath, start_case) -> None:
    from hypothesis import HealthCheck, Phase, given, settings
    from hypothesis import seed as hseed

    _silence()
    mod, camp = _get_campaign(modname, tier, cname)
    known = load_known(mod.PID)
    predicates = getattr(mod, "PREDICATES", {})
    best = [case_size(start_case) if start_case is not None else 1 << 60]

    def failing(data) -> bool:
        out = camp.body(data)
        case = {"campaign": cname, "data": data}
        for f in out.failures:
            if f.bucket == bucket and match_known(known, predicates, case, f) is None:
                s = case_size(case)
                if s < best[0]:
                    best[0] = s
                    tmp = outpath + ".tmp"
                    with open(tmp, "w") as fh:
                        json.dump({"case": case, "detail": f.detail}, fh, default=str)
                    os.replace(tmp, outpath)
                return True
        return False

    @hseed(shard_seed)
    @settings(
        max_examples=n,
        deadline=None,
        database=None,
        report_multiple_bugs=False,
        suppress_health_check=list(HealthCheck),
        phases=[Phase.generate, Phase.shrink],
    )
    @given(camp.strategy)
    def t(data):
        assert not failing(data)

    try:
        t()
    except BaseException:
        pass


def shrink(modname, tier, camp: Campaign, bucket: str, info: dict, n: int, budget_s: float) -> dict:
    if camp.strategy is None:
        return info
    outpath = boot.fresh_path("shrink") + ".json"
    pid = os.fork()
    if pid == 0:
        try:
            _detach_child()
            _shrink_child(modname, tier, camp.name, bucket, info["seed"], n, outpath, info["case"])
        finally:
            os._exit(0)
    t0 = time.time()
    while time.time() - t0 < budget_s:
        done, _ = os.waitpid(pid, os.WNOHANG)
        if done:
            break
        time.sleep(0.2)
    else:
        try:
            os.kill(pid, signal.SIGKILL)
        except ProcessLookupError:
            pass
        os.waitpid(pid, 0)
    _kill_group(pid)
    if os.path.exists(outpath):
        with open(outpath) as f:
            got = json.load(f)
        if case_size(got["case"]) <= info["size"]:
            info = dict(info, case=got["case"], detail=got["detail"], size=case_size(got["case"]))
    return info


# ------------------------------------------------------------------------------------------------
# replay of one stored case


def replay_case(mod, tier: str, case: dict) -> list[Failure]:
    for c in mod.campaigns(tier):
        if c.name == case["campaign"]:
            out = c.body(case["data"])
            return list(out.failures)
    raise KeyError(f"campaign {case['campaign']} not found in {mod.__name__}")


def _safe_name(s: str) -> str:
    return "".join(ch if ch.isalnum() or ch in "-_." else "_" for ch in s)[:120]


def write_replay(pid: str, bucket: str, case: dict, detail: str, seed: int, tier: str) -> str:
    d = os.path.join(REPLAY_DIR, pid)
    os.makedirs(d, exist_ok=True)
    path = os.path.join(d, _safe_name(bucket) + ".json")
    with open(path, "w") as f:
        json.dump(
            {"property": pid, "bucket": bucket, "detail": detail, "seed": seed, "tier": tier, "case": case},
            f,
            indent=1,
            default=str,
        )
    return path


# ------------------------------------------------------------------------------------------------


def write_evidence(mod, tier, seed, wall, coverage, violations) -> None:
    os.makedirs(EVIDENCE_DIR, exist_ok=True)
    ev = {
        "property_id": mod.PID,
        "tier": tier,
        "seed": seed,
        "level": mod.LEVEL,
        "coverage": coverage,
        "assumptions": list(getattr(mod, "ASSUMPTIONS", [])),
        "wall_s": round(wall, 2),
        "violations": violations,
    }
    try:
        import jsonschema

        with open("/root/.vp/EVIDENCE.schema.json") as f:
            schema = json.load(f)
        jsonschema.validate(ev, schema)
    except ImportError:
        pass
    except FileNotFoundError:
        pass
    path = os.path.join(EVIDENCE_DIR, f"{mod.PID}.json")
    tmp = path + ".tmp"
    with open(tmp, "w") as f:
        json.dump(ev, f, indent=1, default=str)
    os.replace(tmp, path)


def _trim(obj: Any, limit: int = 6000) -> Any:
    s = json.dumps(obj, default=str)
    if len(s) <= limit:
        return obj
    return {"truncated_json": s[:limit]}


def _campaign_jobs(mod, modname: str, tier: str, seed: int) -> list:
    jobs = []
    for c in mod.campaigns(tier):
        n_total = c.quick if tier == "quick" else c.thorough
        shards = c.shards_quick if tier == "quick" else c.shards_thorough
        shards = max(1, min(shards, NCPU, n_total if n_total else shards))
        if c.enumerate is not None:
            per = n_total // shards if n_total else 0
        else:
            per = max(1, n_total // shards)
        for s in range(shards):
            jobs.append((modname, tier, c.name, s, shards, seed, per))
    return jobs


def run_check(modname: str, tier: str, seed: int, replay: str | None = None) -> int:
    import importlib

    mod = importlib.import_module(modname)
    pid = mod.PID
    predicates = getattr(mod, "PREDICATES", {})
    known = load_known(pid)
    t0 = time.time()
    violations: list[tuple[str, str]] = []  # (bucket, replay path)
    if replay is None:
        import shutil

        shutil.rmtree(os.path.join(REPLAY_DIR, pid), ignore_errors=True)

    # ---- explicit replay ---------------------------------------------------------------------
    if replay is not None:
        with open(replay) as f:
            stored = json.load(f)
        case = stored["case"]
        old = sys.stdout
        _silence()
        try:
            fails = replay_case(mod, tier, case)
        finally:
            sys.stdout.close()
            sys.stdout = old
        bad = 0
        for fl in fails:
            kid = match_known(known, predicates, case, fl)
            print(f"replay: bucket={fl.bucket} known={kid} detail={fl.detail}")
            if kid is None:
                bad += 1
        if bad:
            print(f"VIOLATION property={pid} replay={replay}")
            return 1
        print(f"replay: no unlisted failure ({len(fails)} failures)")
        return 0

    # ---- tier 0: stored cases (known findings, fixed entries, regressions) ---------------------
    stored_cases: list[tuple[str, str, dict, dict | None]] = []  # (kind, path/id, case, entry)
    for e in known:
        if e.get("case") is not None:
            stored_cases.append((e["status"], f"{KNOWN_FILE}#{e['id']}", e["case"], e))
    rdir = os.path.join(REGRESSION_DIR, pid)
    if os.path.isdir(rdir):
        for fn in sorted(os.listdir(rdir)):
            if fn.endswith(".json"):
                with open(os.path.join(rdir, fn)) as f:
                    stored_cases.append(("regression", os.path.join(rdir, fn), json.load(f)["case"], None))
    n_regress = 0
    known_lines: list[str] = []
    stored_jobs = [(modname, tier, "__stored__", case, 1, seed, 1) for _, _, case, _ in stored_cases]
    camp_jobs = _campaign_jobs(mod, modname, tier, seed)
    all_results = _run_jobs(stored_jobs + camp_jobs)
    stored_results, camp_results = all_results[: len(stored_jobs)], all_results[len(stored_jobs) :]
    stored_errors = [r.error for r in stored_results if r.error]
    for (kind, where, case, entry), sres in zip(stored_cases, stored_results):
        fails = list(getattr(sres, "stored_failures", []))
        n_regress += 1
        if kind == "finding":
            still = [f for f in fails if match_known([entry], predicates, case, f) is not None]
            if still:
                known_lines.append(f"KNOWN-FINDING: property={pid} {entry['id']}: {entry['what']}")
            else:
                print(f"note: known finding {entry['id']} no longer reproduces on this tree")
        for fl in fails:
            if match_known(known, predicates, case, fl) is None:
                if kind == "regression":
                    path = where
                else:
                    path = write_replay(pid, "stored-" + fl.bucket, case, fl.detail, seed, tier)
                violations.append((fl.bucket, path))
    for line in known_lines:
        print(line)

    # ---- campaigns -----------------------------------------------------------------------------
    camps = mod.campaigns(tier)
    total = ShardResult()
    per_campaign: dict[str, dict] = {}
    errors: list[str] = [f"[stored case]\n{e}" for e in stored_errors]
    jobs = camp_jobs
    results: list[tuple[tuple, ShardResult]] = list(zip(jobs, camp_results))
    camp_by_name = {c.name: c for c in camps}
    all_buckets: dict[tuple[str, str], dict] = {}
    for job, res in results:
        cname = job[2]
        pc = per_campaign.setdefault(cname, {"evaluations": 0, "units": 0, "distinct_nontrivial": set()})
        pc["evaluations"] += res.evals
        pc["units"] += res.units
        pc["distinct_nontrivial"] |= res.digests
        total.evals += res.evals
        total.units += res.units
        total.digests |= {cname + ":" + d for d in res.digests}
        total.labels.update({f"{cname}/{k}": v for k, v in res.labels.items()})
        total.excluded.update(res.excluded)
        if len(total.samples) < 6:
            total.samples.extend(res.samples[:1])
        if res.error:
            errors.append(f"[{cname} shard {job[3]}]\n{res.error}")
        for b, info in res.buckets.items():
            cur = all_buckets.get((cname, b))
            if cur is None:
                all_buckets[(cname, b)] = dict(info)
            else:
                cur["count"] += info["count"]
                if info["size"] < cur["size"]:
                    cur.update(case=info["case"], detail=info["detail"], size=info["size"], seed=info["seed"])

    # ---- unlisted failures -> shrink -> replay file -> VIOLATION ---------------------------------
    bucket_table = {}
    n_shrunk = 0
    for (cname, b), info in sorted(all_buckets.items()):
        c = camp_by_name[cname]
        n_total = c.quick if tier == "quick" else c.thorough
        shards = c.shards_quick if tier == "quick" else c.shards_thorough
        per = max(1, n_total // max(1, min(shards, NCPU)))
        budget = 15 if tier == "quick" else 60
        n_shrunk += 1
        if n_shrunk <= 3:  # bound total shrink time; later buckets keep their smallest seen case
            info = shrink(modname, tier, c, b, info, per, budget)
        path = write_replay(pid, f"{cname}-{b}", info["case"], info["detail"], seed, tier)
        violations.append((b, path))
        bucket_table[f"{cname}/{b}"] = {"count": info["count"], "detail": info["detail"][:300]}

    wall = time.time() - t0
    coverage = {
        "evaluations": (total.units if getattr(mod, "EVALUATIONS_ARE_UNITS", False) else total.evals) + n_regress,
        "cases": total.evals,
        "distinct_nontrivial": len(total.digests),
        "rule": mod.RULE,
        "samples": [_trim(s) for s in total.samples[:5]],
        "units_checked": total.units,
        "stored_cases_replayed": n_regress,
        "per_campaign": {
            k: {
                "evaluations": v["evaluations"],
                "units": v["units"],
                "distinct_nontrivial": len(v["distinct_nontrivial"]),
                "exhaustive": bool(camp_by_name[k].exhaustive),
                "describe": camp_by_name[k].describe,
            }
            for k, v in per_campaign.items()
        },
        "labels": dict(sorted(total.labels.items())),
        "excluded_known": dict(total.excluded),
        "unlisted_failure_buckets": bucket_table,
        "exhaustive": bool(camps) and all(c.exhaustive for c in camps),
    }
    if errors:
        print("HARNESS-ERROR in", pid, file=sys.stderr)
        for e in errors[:3]:
            print(e, file=sys.stderr)
        return 2
    write_evidence(mod, tier, seed, wall, coverage, len(violations))
    seen_paths = set()
    for b, path in violations:
        if path not in seen_paths:
            print(f"VIOLATION property={pid} replay={path}")
        seen_paths.add(path)
    print(
        f"{pid} tier={tier} seed={seed}: {coverage['evaluations']} cases, {total.units} units, "
        f"{coverage['distinct_nontrivial']} distinct non-trivial, excluded_known={dict(total.excluded)}, "
        f"violations={len(violations)}, {wall:.1f}s"
    )
    return 1 if violations else 0


# ------------------------------------------------------------------------------------------------
# coverage-guided search over a campaign's structured cases (thorough tiers): fuzz/hyp_fuzz.py as a subprocess


def cov_fuzz_campaign(pid: str, inner: list, procs: int = 16) -> Campaign:
    """`inner`: [(campaign name, executions per process), ...]; process i fuzzes inner[i % len(inner)]."""
    import subprocess

    script = os.path.join(boot.VERIF, "fuzz", "hyp_fuzz.py")

    def enum():
        try:
            base = int(os.environ.get("VERIF_SEED", "1") or "1")
        except ValueError:
            base = 1
        for i in range(procs):
            name, runs = inner[i % len(inner)]
            yield {"inner": name, "seed": base * 1000 + i + 1, "runs": runs}

    def body(data) -> Outcome:
        import random

        out = Outcome()
        out.labels.append("inner:" + data["inner"])
        work = boot.fresh_dir("covfuzz")
        corpus = os.path.join(work, "corpus")
        os.makedirs(corpus)
        rnd = random.Random(int(data["seed"]))  # seed corpus: byte strings long enough to decode into non-minimal cases
        for i in range(16):
            with open(os.path.join(corpus, f"s{i}"), "wb") as f:
                f.write(bytes(rnd.randrange(256) for _ in range(rnd.choice([256, 512, 1024, 2048]))))
        report = os.path.join(work, "report.json")
        env = dict(os.environ, VERIF_REPO=boot.REPO, HYP_FUZZ_REPORT=report, PYTHONHASHSEED="0", TMPDIR=work)
        cmd = [sys.executable, script, pid, data["inner"], f"-runs={int(data['runs'])}", f"-seed={int(data['seed'])}",
               "-max_len=4096", "-len_control=0", f"-artifact_prefix={work}/", corpus]  # fmt: skip
        noaslr = ["setarch", os.uname().machine, "-R"]
        try:
            if subprocess.run([*noaslr, "true"], stdout=subprocess.DEVNULL, stderr=subprocess.DEVNULL).returncode == 0:
                cmd = noaslr + cmd
        except OSError:
            pass
        rc, log = 0, ""
        try:
            p = subprocess.run(cmd, env=env, cwd=work, stdout=subprocess.PIPE, stderr=subprocess.STDOUT, text=True, timeout=1500)
            rc, log = p.returncode, p.stdout
        except subprocess.TimeoutExpired:
            rc = -9
            out.labels.append("covfuzz-inconclusive-time-budget")  # a budget hit is never a verdict
        rep = {}
        if os.path.exists(report):
            try:
                with open(report) as f:
                    rep = json.load(f)
            except ValueError:
                rep = {}
        boot.rm(work)
        if rc == 4 or "atheris_missing" in rep:
            out.labels.append("atheris-missing")
            return out
        execs = int(rep.get("execs", 0))
        out.units = max(1, execs)
        out.nontrivial = int(rep.get("nontrivial", 0)) >= 100
        out.labels.append(f"valid-cases~{int(rep.get('valid', 0)) // 1000}k")
        for kid, n in rep.get("known", {}).items():
            out.labels.append(f"known:{kid}")
        for bucket, info in sorted(rep.get("failures", {}).items()):
            if bucket.startswith("HARNESS:"):
                raise RuntimeError(f"hyp_fuzz {pid}/{data['inner']}: {info.get('detail')}")
            out.fail("covfuzz-" + bucket, info.get("detail", ""), {"inner_case": info.get("case")})
        if rc not in (0, 3, -9) and not out.failures:
            raise RuntimeError(f"hyp_fuzz {pid}/{data['inner']} crashed rc={rc}: {log[-600:]}")
        return out

    return Campaign("cov-fuzz", body, enumerate=enum, quick=0, thorough=procs, shards_thorough=procs,
                    describe="atheris coverage-guided search over the structured cases of: "
                             + ", ".join(f"{n} ({r} executions per process)" for n, r in inner))  # fmt: skip

"""Process bootstrap shared by every check (DESIGN.md section 1).

Importing this module
  * re-executes the interpreter with PYTHONHASHSEED=0 if it is not pinned,
  * blocks ``zarr`` (the installed zarr 3 is incompatible with the pinned pipefunc; with the
    import blocked pipefunc is in its documented "zarr not installed" configuration),
  * puts the repository under test (``$VERIF_REPO`` or /repo) in front of sys.path and verifies
    that ``pipefunc`` is imported from there,
  * creates a per-process scratch directory that is removed at exit.
"""

from __future__ import annotations

import atexit
import os
import shutil
import sys
import tempfile
import warnings

VERIF = os.path.dirname(os.path.dirname(os.path.abspath(__file__)))
REPO = os.path.abspath(os.environ.get("VERIF_REPO", "/repo"))

if os.environ.get("PYTHONHASHSEED") != "0" and not os.environ.get("VERIF_NO_REEXEC"):
    os.environ["PYTHONHASHSEED"] = "0"
    os.environ["PYTHONDONTWRITEBYTECODE"] = "1"
    os.execv(sys.executable, [sys.executable, *sys.argv])

os.environ.setdefault("PYTHONDONTWRITEBYTECODE", "1")
sys.dont_write_bytecode = True
os.environ["PIPEFUNC_VERIF"] = "1"  # guard name recorded in MANIFEST.hooks (no hooks are needed)

sys.modules["zarr"] = None  # type: ignore[assignment]
_deps = os.path.join(VERIF, ".deps")
if os.path.isdir(_deps) and _deps not in sys.path:
    sys.path.append(_deps)
if VERIF not in sys.path:
    sys.path.insert(0, VERIF)
sys.path.insert(0, REPO)
warnings.filterwarnings("ignore")

import pipefunc  # noqa: E402

if os.environ.get("VERIF_STACKS"):  # kill -USR1 <pid> writes every thread's stack to the given file (debugging aid)
    import faulthandler
    import signal as _signal

    faulthandler.register(_signal.SIGUSR1, file=open(os.environ["VERIF_STACKS"], "a"), all_threads=True)

assert os.path.abspath(pipefunc.__file__).startswith(REPO + os.sep), (pipefunc.__file__, REPO)

_SCRATCH_OWNER = os.getpid()
SCRATCH = tempfile.mkdtemp(prefix=f"verif-{os.getpid()}-")


# everything the code under test or multiprocessing puts into "the temp dir" (pymp-* socket dirs of Manager
# processes, mkdtemp run folders, default DiskCache dirs) lands inside the scratch area and disappears with it
os.environ["TMPDIR"] = SCRATCH
tempfile.tempdir = SCRATCH


def _cleanup() -> None:
    if os.getpid() == _SCRATCH_OWNER:
        shutil.rmtree(SCRATCH, ignore_errors=True)


atexit.register(_cleanup)

_counter = [0]


def fresh_dir(prefix: str = "d") -> str:
    """A new empty directory under the scratch area (unique per process)."""
    _counter[0] += 1
    path = os.path.join(SCRATCH, f"{prefix}-{os.getpid()}-{_counter[0]}")
    os.makedirs(path, exist_ok=True)
    return path


def fresh_path(prefix: str = "p") -> str:
    """A new path (not created) under the scratch area."""
    _counter[0] += 1
    return os.path.join(SCRATCH, f"{prefix}-{os.getpid()}-{_counter[0]}")


def rm(path: str) -> None:
    shutil.rmtree(path, ignore_errors=True)

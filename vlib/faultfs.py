"""Fork-runner with file-system event interception and fault plans (DESIGN.md C05).

``run_child(fn, root, plan)`` forks; in the child every file-system *mutation* below ``root`` becomes a numbered
event (open-for-write, each ``write`` call, ``close``, ``mkdir``, ``unlink``/``remove``, ``rmdir``,
``replace``/``rename``).  A plan can
  * kill the process at event n (``os._exit(137)`` *before* the operation: no buffers flushed, no ``finally`` blocks --
    what SIGKILL leaves),
  * tear write event n (only ``tear`` bytes of the *pending + current* data reach the file, then exit),
  * or just count events.
The child reports through a side file: events seen, the list of files whose ``close`` returned (= completely
stored), the result of ``fn`` or its exception.  Reads are never intercepted.  The tracer call log uses ``os.open`` /
``os.write`` directly and is therefore not an event.
"""

from __future__ import annotations

import builtins
import hashlib
import io
import json
import os
import signal
import time
import traceback


_PID_TMP = __import__("re").compile(r"\.\d+\.tmp$")


def _norm(rel: str) -> str:
    """temporary files carry the writer's pid in their name; normalise it so that equal states compare equal"""
    return _PID_TMP.sub(".PID.tmp", rel)


def folder_digest(folder: str) -> dict:
    d = {}
    if not os.path.isdir(folder):
        return d
    for root, dirs, files in os.walk(folder):
        for name in dirs:
            d[os.path.relpath(os.path.join(root, name), folder) + "/"] = "dir"
        for f in files:
            p = os.path.join(root, f)
            try:
                rel = _norm(os.path.relpath(p, folder))
                if rel.endswith(".PID.tmp"):
                    d[rel] = "tmp"  # an unfinished temporary file: never read by anything, content irrelevant
                    continue
                with io.open(p, "rb") as fh:
                    data = fh.read().replace(os.path.abspath(folder).encode(), b"<RUN_FOLDER>")
                d[rel] = hashlib.sha256(data).hexdigest()[:16]
            except OSError:
                d[_norm(os.path.relpath(p, folder))] = "unreadable"
    return d


def digest_key(d: dict) -> str:
    return hashlib.sha1(json.dumps(d, sort_keys=True).encode()).hexdigest()[:16]


class _State:
    def __init__(self, root, plan, side):
        self.root = os.path.abspath(root)
        self.plan = plan or {}
        self.side = side
        self.n = 0
        self.closed: list[str] = []
        self.events: list = []
        self.record = bool(self.plan.get("record"))

    def rel(self, p):
        return os.path.relpath(p, self.root)

    def tracked(self, path) -> bool:
        try:
            p = os.path.abspath(os.fspath(path))
        except TypeError:
            return False
        return p == self.root or p.startswith(self.root + os.sep)

    def report(self, extra: dict) -> None:
        data = {"events": self.n, "closed": self.closed}
        if self.record:
            data["trace"] = self.events
        data.update(extra)
        fd = os.open(self.side + ".tmp", os.O_WRONLY | os.O_CREAT | os.O_TRUNC, 0o644)
        os.write(fd, json.dumps(data, default=str).encode())
        os.close(fd)
        _REAL["replace"](self.side + ".tmp", self.side)

    def event(self, kind, path) -> bool:
        """Returns True if the process must tear this (write) event; kills at the planned event."""
        if self.record:
            self.events.append([kind, self.rel(os.path.abspath(os.fspath(path)))])
        n = self.n
        self.n += 1
        if self.plan.get("kill_at") == n:
            if self.plan.get("tear") is not None and kind == "write":
                return True
            self.report({"killed_at": n, "event": [kind, self.rel(os.path.abspath(os.fspath(path)))]})
            os._exit(137)
        return False


_REAL: dict = {}


class _W:
    """Write-tracking proxy around a real file object."""

    def __init__(self, st: _State, f, path):
        self._st, self._f, self._p = st, f, os.path.abspath(os.fspath(path))

    def write(self, data):
        if self._st.event("write", self._p):
            k = self._st.plan["tear"]
            n = len(data)
            cut = {"0": 0, "1": min(1, n), "half": n // 2, "all-1": max(0, n - 1)}[k]
            try:
                self._f.write(data[:cut])
                self._f.flush()
            finally:
                self._st.report({"killed_at": self._st.n - 1, "event": ["write-torn:" + k, self._st.rel(self._p)]})
                os._exit(137)
        return self._f.write(data)

    def close(self):
        if self._f.closed:
            return None
        self._st.event("close", self._p)
        r = self._f.close()
        self._st.closed.append(self._st.rel(self._p))
        return r

    def __enter__(self):
        return self

    def __exit__(self, *a):
        self.close()

    def __getattr__(self, name):
        return getattr(self._f, name)

    def __iter__(self):
        return iter(self._f)


def install(root: str, plan: dict | None, side: str) -> _State:
    st = _State(root, plan, side)
    real_open = io.open
    _REAL["open"] = real_open
    for name in ("mkdir", "unlink", "remove", "rmdir", "replace", "rename"):
        _REAL[name] = getattr(os, name)

    def my_open(file, mode="r", *a, **k):
        if isinstance(file, (str, bytes, os.PathLike)) and any(c in mode for c in "wax+") and st.tracked(file):
            st.event("open", file)
            f = real_open(file, mode, *a, **k)
            return _W(st, f, file)
        return real_open(file, mode, *a, **k)

    io.open = my_open
    builtins.open = my_open

    def wrap(name):
        real = _REAL[name]

        def fn(path, *a, **k):
            if "dir_fd" not in k and st.tracked(path):
                st.event(name, path)
            return real(path, *a, **k)

        return fn

    for name in ("mkdir", "unlink", "remove", "rmdir", "replace", "rename"):
        setattr(os, name, wrap(name))
    return st


def run_child(fn, root: str, plan: dict | None, side: str, timeout: float = 120.0) -> dict:
    """Fork, install the interceptor with `plan`, run fn() -> JSON-able result, report through `side`.

    Returns the side-file content plus {"exit": code}.  A killed child has exit 137 and "killed_at".
    """
    for p in (side, side + ".tmp"):
        try:
            os.unlink(p)
        except FileNotFoundError:
            pass
    pid = os.fork()
    if pid == 0:
        code = 0
        try:
            try:
                os.setpgid(0, 0)
            except OSError:
                pass
            dn = os.open(os.devnull, os.O_WRONLY)
            os.dup2(dn, 1)
            os.dup2(dn, 2)
            st = install(root, plan, side)
            try:
                res = fn()
                st.report({"ok": True, "result": res})
            except BaseException as e:  # noqa: BLE001
                tb = traceback.extract_tb(e.__traceback__)
                inner = [f for f in tb if os.sep + "pipefunc" + os.sep in f.filename]
                loc = f"{os.path.basename(inner[-1].filename)}:{inner[-1].name}" if inner else "outside-pipefunc"
                st.report({"ok": False, "exc_type": type(e).__name__, "exc_msg": str(e)[:300], "where": loc})
        except BaseException:  # noqa: BLE001
            code = 3
        finally:
            os._exit(code)
    t0 = time.time()
    status = None
    while time.time() - t0 < timeout:
        done, st_ = os.waitpid(pid, os.WNOHANG)
        if done:
            status = st_
            break
        time.sleep(0.002)
    if status is None:
        try:
            os.killpg(pid, signal.SIGKILL)
        except (ProcessLookupError, PermissionError):
            pass
        try:
            os.kill(pid, signal.SIGKILL)
        except ProcessLookupError:
            pass
        os.waitpid(pid, 0)
        return {"exit": -1, "timeout": True}
    try:
        os.killpg(pid, signal.SIGKILL)  # leftover grandchildren (manager / pool processes)
    except (ProcessLookupError, PermissionError):
        pass
    out = {"exit": os.waitstatus_to_exitcode(status)}
    if os.path.exists(side):
        with io.open(side) as f:
            out.update(json.load(f))
        os.unlink(side)
    return out

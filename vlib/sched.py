"""Harness-owned executors (DESIGN.md C03): a deterministic, single-threaded ``ScheduledExecutor`` whose start /
completion order is data (a list of integers drawn by Hypothesis), usable under ``Pipeline.map`` and
``Pipeline.map_async``.

Because pipefunc submits a whole generation before it waits for any result, draining the queue in a chosen order
realises every serialised start/completion order of that generation's tasks.  ``eager`` lets some queued tasks run
already at submit time (a worker that finishes before the next submit).
"""

from __future__ import annotations

import asyncio
from concurrent.futures import Executor, Future


class _SFuture(Future):
    def __init__(self, ex: "ScheduledExecutor") -> None:
        super().__init__()
        self._ex = ex

    def result(self, timeout=None):
        if not self.done():
            self._ex._drain_until(self)
        return super().result(timeout)

    def exception(self, timeout=None):
        if not self.done():
            self._ex._drain_until(self)
        return super().exception(timeout)


class ScheduledExecutor(Executor):
    def __init__(self, choices=(0,), eager=(0,)) -> None:
        self.q: list = []
        self.choices = list(choices) or [0]
        self.eager = list(eager) or [0]
        self._ci = 0
        self._ei = 0
        self.n = 0
        self.order: list[int] = []  # task ids in execution order
        self.queue_sizes: list[int] = []  # size of the queue at each execution (>=2 means a real choice)
        self._shutdown = False

    def _choose(self, n: int) -> int:
        v = self.choices[self._ci % len(self.choices)] % n
        self._ci += 1
        return v

    def _eager(self) -> int:
        v = self.eager[self._ei % len(self.eager)]
        self._ei += 1
        return v

    def submit(self, fn, /, *a, **k):
        f = _SFuture(self)
        self.q.append((self.n, f, fn, a, k))
        self.n += 1
        for _ in range(min(self._eager(), len(self.q))):
            self._run_one()
        try:
            loop = asyncio.get_running_loop()
        except RuntimeError:
            loop = None
        if loop is not None:
            loop.call_soon(self._drain_async)
        return f

    def _run_one(self) -> None:
        self.queue_sizes.append(len(self.q))
        i = self._choose(len(self.q))
        tid, f, fn, a, k = self.q.pop(i)
        self.order.append(tid)
        if not f.set_running_or_notify_cancel():
            return
        try:
            f.set_result(fn(*a, **k))
        except BaseException as e:  # noqa: BLE001
            f.set_exception(e)

    def _drain_until(self, fut) -> None:
        while not fut.done() and self.q:
            self._run_one()

    def _drain_async(self) -> None:
        if self.q:
            self._run_one()

    def shutdown(self, wait=True, *, cancel_futures=False):
        if cancel_futures:
            for _, f, *_ in self.q:
                f.cancel()
            self.q.clear()
        while self.q:
            self._run_one()
        self._shutdown = True

"""DagProgram: JSON AST of a function DAG, its Hypothesis strategy, a builder that turns it into a real
``pipefunc.Pipeline`` of tracer functions, and an independent reference evaluator (DESIGN.md 2.1/2.2).

AST
---
prog = {"roots": [name...],
        "funcs": [{"name": "f0",
                   "params": [pipeline-level parameter names, in slot order],
                   "orig":   [python-level parameter names, same length]   (orig != params => renames),
                   "outs":   [pipeline-level output names]  (1 or 2),
                   "orig_outs": [python-level output names],
                   "sig_defaults": {pipeline param name: value}   (default in the python signature),
                   "pf_defaults":  {pipeline param name: value}   (PipeFunc(defaults=...)),
                   "bound":        {pipeline param name: value},
                   "picker": None | "tuple" | "dict",
                   "cache": bool}],
        "order": permutation of range(len(funcs))  (listing order given to Pipeline)}

Tracer values are strings that spell out function name and every argument *by slot*; names inside the
string are never pipeline-level names, so renaming rewrites do not change them.
"""

from __future__ import annotations

import inspect
from typing import Any

from hypothesis import strategies as st

from . import boot  # noqa: F401


class Missing(Exception):
    """The reference evaluator needs a value nobody provides."""


# ------------------------------------------------------------------------------------------------
# strategy


@st.composite
def dag_programs(
    draw,
    max_funcs: int = 6,
    min_funcs: int = 1,
    allow_bound: bool = True,
    allow_defaults: bool = True,
    allow_renames: bool = True,
    allow_multi: bool = True,
    allow_nullary: bool = True,
    cache: bool = False,
    consistent_ignored_defaults: bool = False,
    shuffle_names: bool = False,
    allow_none: bool = False,
    allow_attr_picker: bool = False,
):
    n_roots = draw(st.integers(1, 4))
    roots = [f"r{i}" for i in range(n_roots)]
    root_default = {r: f"D{r}" for r in roots if allow_defaults and draw(st.integers(0, 3)) == 0}
    names = list(roots)
    funcs = []
    n_funcs = draw(st.integers(min_funcs, max_funcs))
    for f in range(n_funcs):
        lo = 0 if allow_nullary else 1
        k = draw(st.integers(lo, min(3, len(names))))
        # bias towards recent outputs so that chains / diamonds are frequent
        pool = list(names)
        params = []
        for _ in range(k):
            if not pool:
                break
            if len(pool) > 2 and draw(st.booleans()):
                p = pool[-1 - draw(st.integers(0, min(2, len(pool) - 1)))]
            else:
                p = draw(st.sampled_from(pool))
            pool.remove(p)
            params.append(p)
        n_out = draw(st.sampled_from([1, 1, 1, 2])) if allow_multi else 1
        tag = draw(st.sampled_from("oabxyz")) if shuffle_names else "o"  # name order != dependency order
        outs = [f"{tag}{f}" + ("ab"[q] if n_out > 1 else "") for q in range(n_out)]
        orig = [p if not (allow_renames and draw(st.integers(0, 3)) == 0) else f"q{i}" for i, p in enumerate(params)]
        orig_outs = [o if not (allow_renames and draw(st.integers(0, 5)) == 0) else f"raw_{o}" for o in outs]
        sig_defaults, pf_defaults, bound = {}, {}, {}
        for p in params:
            if p in root_default:
                kind = draw(st.sampled_from(["sig", "pf", "none"]))
                if kind == "sig":
                    sig_defaults[p] = root_default[p]
                elif kind == "pf":
                    pf_defaults[p] = root_default[p]
            elif allow_defaults and p not in roots and draw(st.integers(0, 7)) == 0:
                # a default on a parameter that is fed by an upstream output: must be ignored
                sig_defaults[p] = f"IGN{p}" if consistent_ignored_defaults else f"IGN{f}{p}"
            if allow_bound and p not in pf_defaults and draw(st.integers(0, 6)) == 0:
                bound[p] = f"B{f}{p}"  # (pipefunc documents: a parameter cannot be both bound and in defaults=)
        picker = draw(st.sampled_from(["tuple", "dict"] + ["attr"] * bool(allow_attr_picker))) if n_out > 1 else None
        funcs.append(
            {
                "name": f"f{f}",
                "params": params,
                "orig": orig,
                "outs": outs,
                "orig_outs": orig_outs,
                "sig_defaults": sig_defaults,
                "pf_defaults": pf_defaults,
                "bound": bound,
                "picker": picker,
                "cache": bool(cache and draw(st.booleans())),
                "ret_none": bool(allow_none and n_out == 1 and draw(st.integers(0, 5)) == 0),
            }
        )
        names += outs
    order = list(draw(st.permutations(range(n_funcs))))
    return {"roots": roots, "funcs": funcs, "order": order}


# ------------------------------------------------------------------------------------------------
# tracer bodies


class Opaque:
    """An unhashable argument value whose str()/repr() hide its content (equal text, different values)."""

    __hash__ = None  # type: ignore[assignment]

    def __init__(self, payload) -> None:
        self.payload = payload

    def __eq__(self, other) -> bool:
        return isinstance(other, Opaque) and other.payload == self.payload

    def __repr__(self) -> str:
        return "Opaque(...)"

    def trace(self) -> str:
        return f"Opaque<{self.payload}>"


def tv(a) -> str:
    """text of an argument inside tracer strings and logs"""
    return a.trace() if hasattr(a, "trace") else str(a)


def trace_value(fname: str, args: list, version: str = "") -> str:
    return f"{fname}{version}[" + ";".join(tv(a) for a in args) + "]"


def out_value(oname_orig: str, base: str) -> str:
    return f"{oname_orig}<-{base}"


def dict_picker(output: Any, name: str) -> Any:
    return output[name]


def make_body(fn: dict, log, version: str = "", fail=None):
    """A tracer function with a real signature (python-level names, sig defaults)."""
    orig = list(fn["orig"])
    params = list(fn["params"])
    outs = list(fn["outs"])
    orig_outs = list(fn["orig_outs"])
    picker = fn["picker"]
    fname = fn["name"]
    ret_none = bool(fn.get("ret_none")) and len(outs) == 1

    resvar = fn.get("resvar")

    def body(**kw):
        if resvar and resvar not in kw:  # what a real signature would do
            raise TypeError(f"{fname}() missing 1 required keyword-only argument: '{resvar}'")
        args = [kw[o] for o in orig]
        if log is not None:
            log.append((fname, tuple(tv(a) for a in args)))
        if fail is not None:
            fail(fname, args)
        base = trace_value(fname, args, version)
        if ret_none:
            return None  # a (side-effect style) function that legitimately returns None
        if len(outs) == 1:
            return base
        if picker == "dict":
            return {o: out_value(oo, base) for o, oo in zip(outs, orig_outs)}
        if picker == "attr":
            # a named tuple whose field order is NOT the order of output_name, picked by attribute (output_picker=getattr)
            import collections

            rec = collections.namedtuple("Rec", list(reversed(outs)))
            return rec(*[out_value(oo, base) for oo in reversed(orig_outs)])
        return tuple(out_value(oo, base) for oo in orig_outs)

    ps = []
    for o, p in zip(orig, params):
        d = fn["sig_defaults"].get(p, inspect.Parameter.empty)
        ps.append(inspect.Parameter(o, inspect.Parameter.KEYWORD_ONLY, default=d))
    if fn.get("resvar"):  # the parameter through which pipefunc hands in the evaluated resources (not traced)
        ps.append(inspect.Parameter(fn["resvar"], inspect.Parameter.KEYWORD_ONLY))
    body.__signature__ = inspect.Signature(ps)
    body.__name__ = fname
    body.__qualname__ = fname
    return body


class CallableObject:
    """A user callable that is an object, not a function: it has ``__name__`` and a signature like the callable a
    ``NestedPipeFunc`` wraps, but no ``__qualname__`` (``functools.partial`` objects and callable instances are
    documented as accepted by ``PipeFunc``)."""

    def __init__(self, body) -> None:
        self._body = body
        self.__name__ = body.__name__
        self.__signature__ = body.__signature__

    def __call__(self, **kw):
        return self._body(**kw)


def make_pipefunc(fn: dict, log, version: str = "", fail=None, **extra):
    from pipefunc import PipeFunc

    body = make_body(fn, log, version, fail)
    if fn.get("callable_object"):
        body = CallableObject(body)
    renames = {o: p for o, p in zip(fn["orig"], fn["params"]) if o != p}
    renames.update({oo: o for oo, o in zip(fn["orig_outs"], fn["outs"]) if oo != o})
    on = fn["orig_outs"][0] if len(fn["outs"]) == 1 else tuple(fn["orig_outs"])
    kw: dict[str, Any] = {}
    if renames:
        kw["renames"] = renames
    if fn["pf_defaults"]:
        kw["defaults"] = dict(fn["pf_defaults"])
    if fn["bound"]:
        kw["bound"] = dict(fn["bound"])
    if fn["picker"] == "dict":
        kw["output_picker"] = dict_picker
    elif fn["picker"] == "attr":
        kw["output_picker"] = getattr
    if fn.get("cache"):
        kw["cache"] = True
    if fn.get("resvar"):
        kw["resources"] = {"cpus": 2}
        kw["resources_variable"] = fn["resvar"]
    kw.update(extra)
    return PipeFunc(body, on, **kw)


def build_pipeline(prog: dict, log, version: str = "", fail=None, **pipeline_kwargs):
    from pipefunc import Pipeline

    # prog["plain_callables"]: every function that needs no PipeFunc option is handed to Pipeline as the bare callable
    # (Pipeline.add wraps it itself, output name = __name__); its cache flag is switched on through the handle afterwards
    plain = bool(prog.get("plain_callables"))
    pfs, cache_on = [], []
    for fn in prog["funcs"]:
        if plain and plain_eligible(fn):
            body = make_body(fn, log, version, fail)
            body.__name__ = fn["outs"][0]
            pfs.append(body)
            if fn.get("cache"):
                cache_on.append(fn["outs"][0])
        else:
            pfs.append(make_pipefunc(fn, log, version, fail))
    p = Pipeline([pfs[i] for i in prog["order"]], **pipeline_kwargs)
    for o in cache_on:
        p[o].cache = True
    return p


def plain_eligible(fn: dict) -> bool:
    return (
        len(fn["outs"]) == 1
        and list(fn["orig"]) == list(fn["params"])
        and list(fn["orig_outs"]) == list(fn["outs"])
        and not fn["pf_defaults"]
        and not fn["bound"]
        and not fn.get("resvar")
        and not fn.get("callable_object")
    )


# ------------------------------------------------------------------------------------------------
# reference model


class DagModel:
    def __init__(self, prog: dict, version: str | dict = "") -> None:
        self.prog = prog
        self.funcs = {fn["name"]: fn for fn in prog["funcs"]}
        self.producer = {o: fn for fn in prog["funcs"] for o in fn["outs"]}
        self.version = version
        # pipeline-wide defaults for root arguments (documented: shared, consistent)
        self.defaults: dict[str, Any] = {}
        for fn in prog["funcs"]:
            eff = dict(fn["sig_defaults"])
            for p in list(eff):
                if p in fn["bound"]:
                    del eff[p]
            eff.update(fn["pf_defaults"])
            for p, v in eff.items():
                if p in fn["bound"] or p in self.producer:
                    continue
                self.defaults.setdefault(p, v)

    def _ver(self, fname: str) -> str:
        return self.version.get(fname, "") if isinstance(self.version, dict) else self.version

    def all_outputs(self) -> list[str]:
        return [o for fn in self.prog["funcs"] for o in fn["outs"]]

    def evaluate(self, out, supplied: dict[str, Any]):
        """Return (value, executed function names in execution order, values of every computed name).

        ``out`` is an output name or a tuple of the names of one multi-output function (=> raw return).
        """
        memo: dict[str, Any] = {}
        raw: dict[str, Any] = {}
        executed: list[str] = []
        calls: list[tuple] = []
        used: set[str] = set()

        def run(fn) -> None:
            if fn["name"] in raw:
                return
            args = []
            for p in fn["params"]:
                if p in fn["bound"]:
                    args.append(fn["bound"][p])
                elif p in supplied:
                    used.add(p)
                    args.append(supplied[p])
                elif p in self.producer:
                    args.append(val(p))
                elif p in self.defaults:
                    args.append(self.defaults[p])
                else:
                    raise Missing(p)
            base = trace_value(fn["name"], args, self._ver(fn["name"]))
            executed.append(fn["name"])
            calls.append((fn["name"], tuple(tv(a) for a in args)))
            if len(fn["outs"]) == 1:
                if fn.get("ret_none"):
                    base = None
                raw[fn["name"]] = base
                memo[fn["outs"][0]] = base
            else:
                vals = [out_value(oo, base) for oo in fn["orig_outs"]]
                raw[fn["name"]] = (dict(zip(fn["outs"], vals)) if fn["picker"] == "dict"
                                   else tuple(reversed(vals)) if fn["picker"] == "attr" else tuple(vals))  # fmt: skip
                for o, v in zip(fn["outs"], vals):
                    memo[o] = v

        def val(name: str):
            if name in supplied:
                used.add(name)
                return supplied[name]
            if name in memo:
                return memo[name]
            if name in self.producer:
                run(self.producer[name])
                return memo[name]
            raise Missing(name)

        if isinstance(out, (tuple, list)):
            fn = self.producer[out[0]]
            run(fn)
            value = raw[fn["name"]]
        else:
            value = val(out)
        return value, executed, memo, raw, calls, used

    def deps(self, fname: str, supplied_names=()) -> set[str]:
        """Functions whose outputs `fname` consumes directly (non-bound, non-supplied parameters)."""
        fn = self.funcs[fname]
        return {
            self.producer[p]["name"]
            for p in fn["params"]
            if p in self.producer and p not in fn["bound"] and p not in supplied_names
        }

    def needed_roots(self, out, supplied_names=()) -> list[str]:
        """Root names reached from `out` through non-bound parameters, cutting at supplied names."""
        seen_f: set[str] = set()
        roots: list[str] = []

        def visit(name: str) -> None:
            if name in supplied_names:
                return
            if name in self.producer:
                fn = self.producer[name]
                if fn["name"] in seen_f:
                    return
                seen_f.add(fn["name"])
                for p in fn["params"]:
                    if p in fn["bound"]:
                        continue
                    visit(p)
            elif name not in roots:
                roots.append(name)

        for o in out if isinstance(out, (tuple, list)) else [out]:
            visit(o)
        return roots

    def cone(self, out, supplied_names=()) -> list[str]:
        """Names of functions executed for `out` when `supplied_names` are given."""
        seen_f: list[str] = []

        def visit(name: str) -> None:
            if name in supplied_names:
                return
            if name in self.producer:
                fn = self.producer[name]
                if fn["name"] in seen_f:
                    return
                seen_f.append(fn["name"])
                for p in fn["params"]:
                    if p in fn["bound"]:
                        continue
                    visit(p)

        for o in out if isinstance(out, (tuple, list)) else [out]:
            visit(o)
        return seen_f


    def touched(self, out, supplied_names=()) -> set[str]:
        """Every parameter name (bound or not) of the functions executed for `out`."""
        return {p for f in self.cone(out, supplied_names) for p in self.funcs[f]["params"]}


def labels(prog: dict) -> list[str]:
    labs = []
    funcs = prog["funcs"]
    producer = {o: fn for fn in funcs for o in fn["outs"]}
    consumers: dict[str, int] = {}
    for fn in funcs:
        for p in fn["params"]:
            if p not in fn["bound"]:
                consumers[p] = consumers.get(p, 0) + 1
    if any(consumers.get(o, 0) >= 2 for o in producer):
        labs.append("diamond")
    if any(len(fn["outs"]) > 1 for fn in funcs):
        labs.append("multi_output")
    if any(len(fn["outs"]) > 1 and sum(1 for o in fn["outs"] if consumers.get(o)) == 2 for fn in funcs):
        labs.append("multi_output_both_consumed")
    if any(fn["picker"] == "dict" for fn in funcs):
        labs.append("dict_picker")
    if any(not fn["params"] for fn in funcs):
        labs.append("nullary")
    if any(fn["bound"] for fn in funcs):
        labs.append("bound")
    if any(fn["sig_defaults"] or fn["pf_defaults"] for fn in funcs):
        labs.append("default")
    if any(fn["orig"] != fn["params"] or fn["orig_outs"] != fn["outs"] for fn in funcs):
        labs.append("renamed")
    if any(consumers.get(r, 0) >= 2 for r in prog["roots"]):
        labs.append("shared_root")
    labs.append(f"nf{len(funcs)}")
    return labs


# ------------------------------------------------------------------------------------------------
# an in-process call log that survives serialisation of the tracers: pipefunc serialises functions by value
# (PipeFunc.__getstate__, shared caches, deepcopy); the log a tracer closes over must not be forked by that, so it
# pickles to a reference to itself
_LOGS: dict = {}


def _log_lookup(key):
    return _LOGS[key]


class SharedLog(list):
    def __reduce__(self):
        _LOGS[id(self)] = self
        return (_log_lookup, (id(self),))

    def release(self) -> None:
        _LOGS.pop(id(self), None)

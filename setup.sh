#!/bin/sh
# Offline setup: make sure hypothesis / jsonschema are importable from /venv and put atheris (fuzz tiers
# only) into /verif/.deps.  Everything comes from the local wheelhouse; nothing is fetched.
cd "$(dirname "$0")" || exit 1
W=/opt/veriftools/wheels
/venv/bin/python -c "import hypothesis" 2>/dev/null || /venv/bin/pip install -q --no-index --find-links $W hypothesis || exit 1
/venv/bin/python -c "import jsonschema" 2>/dev/null || /venv/bin/pip install -q --no-index --find-links $W jsonschema || true
if [ ! -d .deps/atheris ]; then
  /venv/bin/pip install -q --no-index --find-links $W --target .deps atheris >/dev/null 2>&1 || echo "atheris not installable for /venv python: fuzz tiers will be skipped"
fi
mkdir -p evidence replays
exit 0

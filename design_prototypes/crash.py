import sys, os, io, builtins, tempfile, warnings, contextlib, hashlib, pathlib, shutil, json, time, traceback, collections
sys.modules['zarr'] = None
sys.path.insert(0, '/repo')
warnings.filterwarnings("ignore")
from pipefunc import Pipeline, pipefunc

STORAGE = os.environ.get("ST", "file_array")
def build(logpath):
    def log(*a):
        fd = os.open(logpath, os.O_WRONLY | os.O_APPEND | os.O_CREAT); os.write(fd, (json.dumps(a) + "\n").encode()); os.close(fd)
    @pipefunc("y", mapspec="x[i] -> y[i]")
    def f(x): log("f", x); return f"f({x})"
    @pipefunc("z", mapspec="y[i] -> z[i]")
    def g(y): log("g", y); return f"g({y})"
    @pipefunc("s")
    def h(z): log("h"); return "h(" + ",".join(z) + ")"
    return Pipeline([f, g, h]), {"x": ["a", "b", "c"]}

def install(root, kill_at, side):
    state = {"n": 0, "closed": []}
    def ev(kind, path):
        p = os.fspath(path)
        if not str(p).startswith(root): return False
        if state["n"] == kill_at:
            with real_open(side, "w") as f: json.dump({"killed_at": kill_at, "event": [kind, os.path.relpath(p, root)], "closed": state["closed"]}, f)
            os._exit(137)
        state["n"] += 1
        return True
    real_open = io.open
    class W:
        def __init__(s, f, p): s._f = f; s._p = p
        def write(s, d): ev("write", s._p); return s._f.write(d)
        def close(s):
            ev("close", s._p); r = s._f.close(); state["closed"].append(os.path.relpath(s._p, root)); return r
        def __enter__(s): return s
        def __exit__(s, *a): s.close()
        def __getattr__(s, n): return getattr(s._f, n)
    def my_open(file, mode="r", *a, **k):
        if isinstance(file, (str, os.PathLike)) and any(c in mode for c in "wax+"):
            t = ev("open", file); f = real_open(file, mode, *a, **k)
            return W(f, os.fspath(file)) if t else f
        return real_open(file, mode, *a, **k)
    io.open = my_open; builtins.open = my_open
    for name in ["mkdir", "unlink", "rmdir", "replace", "rename", "remove"]:
        real = getattr(os, name)
        def mk(real, name):
            def fn(path, *a, **k): ev(name, path); return real(path, *a, **k)
            return fn
        setattr(os, name, mk(real, name))
    return state

def child(folder, logpath, side, kill_at, cleanup):
    pid = os.fork()
    if pid: 
        _, st = os.waitpid(pid, 0); return os.waitstatus_to_exitcode(st)
    try:
        devnull = os.open(os.devnull, os.O_WRONLY); os.dup2(devnull, 1)
        state = install(folder, kill_at, side)
        p, inputs = build(logpath)
        try:
            r = p.map(inputs, run_folder=folder, parallel=False, storage=STORAGE, cleanup=cleanup)
            out = {"ok": True, "res": {k: str(v.output.tolist() if hasattr(v.output, "tolist") else v.output) for k, v in r.items()}, "events": state["n"], "closed": state["closed"]}
        except Exception as e:
            out = {"ok": False, "exc": f"{type(e).__name__}: {str(e)[:120]}", "where": traceback.extract_tb(e.__traceback__)[-1].name}
        with io.open.__wrapped__(side, "w") if hasattr(io.open, "__wrapped__") else open(side + ".res", "w") as f:
            json.dump(out, f)
    finally:
        os._exit(0)

def digest(d):
    return hashlib.sha1(json.dumps({str(p.relative_to(d)): hashlib.sha1(p.read_bytes()).hexdigest() for p in sorted(pathlib.Path(d).rglob("*")) if p.is_file()}, sort_keys=True).encode()).hexdigest()
def readlog(p):
    return [tuple(json.loads(l)) for l in open(p)] if os.path.exists(p) else []

base = tempfile.mkdtemp(prefix="crash_")
t0 = time.time()
f0 = os.path.join(base, "ref"); child(f0, os.path.join(base, "ref.log"), os.path.join(base, "ref.side"), -1, True)
ref = json.load(open(os.path.join(base, "ref.side.res")))
N = ref["events"]; print("events", N, "ref", ref["res"])
seen = {}; outcomes = collections.Counter(); examples = {}
for n in range(N):
    fol = os.path.join(base, f"k{n}"); lg = os.path.join(base, f"k{n}.log"); side = os.path.join(base, f"k{n}.side")
    rc = child(fol, lg, side, n, True)
    assert rc == 137, rc
    info = json.load(open(side))
    d = digest(fol) if os.path.exists(fol) else "nofolder"
    key = (d, tuple(readlog(lg)))
    if key in seen: continue
    seen[key] = n
    lg2 = os.path.join(base, f"k{n}.resume.log"); side2 = os.path.join(base, f"k{n}.rside")
    child(fol, lg2, side2, -1, False)
    out = json.load(open(side2 + ".res"))
    if out["ok"]:
        same = out["res"] == ref["res"]
        # recomputation check: elements whose file was closed before the kill
        closed = set(info["closed"]); calls2 = readlog(lg2)
        stored_y = {i for i in range(3) if f"outputs/y/__{i}__.pickle" in closed}
        recomputed = [c for c in calls2 if c[0] == "f" and "abc".index(c[1]) in stored_y]
        tag = ("OK" if same else "WRONG") + ("+RECOMP" if recomputed else "")
    else:
        tag = "RESUME-EXC " + out["exc"][:60]
    outcomes[tag] += 1; examples.setdefault(tag, (n, info["event"]))
print("distinct crash states", len(seen), "of", N, "in %.1fs" % (time.time() - t0))
for k, v in outcomes.items(): print(v, k, examples[k])
shutil.rmtree(base)

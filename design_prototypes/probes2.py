import sys, os, tempfile, warnings, contextlib, io
sys.modules['zarr'] = None
sys.path.insert(0, '/repo')
warnings.filterwarnings("ignore")
import numpy as np
from typing import Annotated, Optional, Union
from pipefunc import Pipeline, PipeFunc, pipefunc, NestedPipeFunc
from pipefunc.map import DictArray, FileArray, MapSpec
from pipefunc.sweep import Sweep
from pipefunc.resources import Resources
from pipefunc.typing import is_type_compatible
from pipefunc.cache import to_hashable, HybridCache, DiskCache

def probe(name, fn):
    try:
        with contextlib.redirect_stdout(io.StringIO()):
            r = fn()
        print(f"[{name}] ->", r)
    except Exception as e:
        print(f"[{name}] EXC {type(e).__name__}: {str(e)[:160]}")

probe("c07 dict missing w/ internal", lambda: repr(DictArray(None, (2,), (2,), (True, False))[0, 1]))
probe("c07 file missing w/ internal", lambda: repr(FileArray(tempfile.mkdtemp(), (2,), (2,), (True, False))[0, 1]))
def c07c():
    d = DictArray(None, (3,), (1,), (False, True)); d.dump((2,), [7]); return d.to_array().tolist()
probe("c07 dump int-first", c07c)
def c07d():
    d = DictArray(None, (2, 2)); d.dump((0, 1), "v"); return type(d[:, 1]).__name__, d[:, 1].tolist(), type(d[0, :]).__name__
probe("c07 dict slice type", c07d)
probe("c08 ':' in 2nd output", lambda: str(MapSpec.from_string("a[i] -> b[i], c[i, :]")))
probe("c08 'a-b[i]'", lambda: str(MapSpec.from_string("a-b[i] -> c[i]")))
probe("c08 'a [i]'", lambda: str(MapSpec.from_string("a [i], b[i] -> c[i]")))
probe("c17 len empty", lambda: (len(Sweep({})), Sweep({}).list()))
probe("c17 product zipped right", lambda: (Sweep({'a':[1,2]}).product(Sweep({'b':[1,2],'c':[3,4]}, dims=[('b','c')])).list()))
probe("c17 filtered dup", lambda: Sweep({'a':[1,1],'b':[2,3]}, dims=[('a','b')]).filtered_sweep(['a']).list())
probe("c20 time max", lambda: Resources.combine_max([Resources(time='2:00:00'), Resources(time='10:00:00')]).time)
def c20b():
    r = Resources(cpus=1, extra_args={"a": 1}); r2 = r.update(foo=3); return r.extra_args, r2.extra_args
probe("c20 update mutates", c20b)
probe("c20 gpus=0 slurm", lambda: Resources(gpus=0, cpus=2).to_slurm_options())
probe("c16 bool->Annotated[int]", lambda: is_type_compatible(bool, Annotated[int, "m"]))
probe("c16 int->Annotated[bool]", lambda: is_type_compatible(int, Annotated[bool, "m"]))
probe("c16 tuple arity", lambda: is_type_compatible(tuple[int], tuple[int, str]))
probe("c16 int->float", lambda: is_type_compatible(int, float))
def c10a():
    @pipefunc(("a", "b"))
    def f(x): return x, x + 1
    @pipefunc("c")
    def g(a, b): return a + b
    @pipefunc("d")
    def h(c, x): return c * x
    p = Pipeline([f, g, h])
    s = p.simplified_pipeline("d")
    return s("d", x=2), p("d", x=2)
probe("c10 simplified w/ tuple", c10a)
def c10b():
    @pipefunc(("a", "b"))
    def f(x): return x, x + 1
    @pipefunc("c")
    def g(a, b): return a + b
    p = Pipeline([f, g])
    p.nest_funcs({"a", "c"})
    return p("c", x=2)
probe("c10 nest w/ tuple", c10b)
probe("c15 mixed dict", lambda: to_hashable({1: [1], "a": [2]}))
probe("c15 obj array", lambda: hash(to_hashable(np.array([[1], [2, 3]], dtype=object))))
def c15df():
    import pandas as pd
    return to_hashable(pd.DataFrame({'a':[1,2]}, index=[0,1])) == to_hashable(pd.DataFrame({'a':[1,2]}, index=[5,6]))
probe("c15 df index", c15df)
def hyb():
    c = HybridCache(max_size=1, shared=False); c.put("a", 1, 0.0); c.put("b", 2, 0.0); return len(c)
probe("c14 hybrid zero dur", hyb)
def disk():
    d = tempfile.mkdtemp(); c = DiskCache(d, max_size=3, lru_shared=False)
    for k in "abc": c.put(k, 1)
    c2 = DiskCache(d, max_size=1, lru_shared=False); c2.put("d", 1); return len(c2)
probe("c14 disk shrink reopen", disk)

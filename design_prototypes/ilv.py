import sys, os, warnings, threading, random, collections, traceback
sys.modules['zarr'] = None
sys.path.insert(0, '/repo')
warnings.filterwarnings("ignore")
import pipefunc.cache as pc

class Sched:
    def __init__(self, choose):
        self.cv = threading.Condition(); self.turn = None; self.parked = {}; self.done = set(); self.choose = choose; self.trace = []
        self.lock_owner = {}
    def point(self, tid, label, blocked_on=None):
        with self.cv:
            self.parked[tid] = (label, blocked_on); self.turn = None; self.cv.notify_all()
            while self.turn != tid: self.cv.wait()
            del self.parked[tid]
    def run(self, threads):
        for t in threads: t.start()
        n = len(threads)
        while True:
            with self.cv:
                while self.turn is not None or len(self.parked) + len(self.done) < n: self.cv.wait()
                if len(self.done) == n: break
                ready = sorted(t for t, (lab, blk) in self.parked.items() if blk is None or self.lock_owner.get(blk) is None)
                if not ready: raise RuntimeError("deadlock")
                t = ready[self.choose(len(ready))]
                self.trace.append((t, self.parked[t][0])); self.turn = t; self.cv.notify_all()
        for t in threads: t.join()
    def finish(self, tid):
        with self.cv: self.done.add(tid); self.turn = None; self.cv.notify_all()

SCHED = None; TLS = threading.local()
def pt(label, blocked_on=None):
    if SCHED is not None and getattr(TLS, "tid", None) is not None: SCHED.point(TLS.tid, label, blocked_on)

def wrap(cls, methods):
    ns = {}
    for m in methods:
        def mk(m):
            def f(self, *a, **k):
                pt(f"{cls.__name__}.{m}")
                return getattr(self._o, m)(*a, **k)
            return f
        ns[m] = mk(m)
    ns["__init__"] = lambda self, *a: setattr(self, "_o", cls(*a))
    return type("P" + cls.__name__, (), ns)
PDict = wrap(dict, ["__getitem__", "__setitem__", "__delitem__", "__contains__", "__len__", "pop", "keys", "items", "values", "clear", "get"])
PList = wrap(list, ["append", "remove", "pop", "__len__", "__delitem__", "__contains__"])
class PLock:
    def acquire(self):
        while True:
            pt("lock.acquire", blocked_on=id(self))
            if SCHED.lock_owner.get(id(self)) is None:
                SCHED.lock_owner[id(self)] = TLS.tid; return True
    def release(self): SCHED.lock_owner[id(self)] = None
    def __enter__(self): self.acquire(); return self
    def __exit__(self, *a): self.release()
class FakeManager:
    def dict(self): return PDict()
    def list(self): return PList()
    def Lock(self): return PLock()

pc.Manager = FakeManager
buckets = collections.Counter(); ex = {}
for seed in range(300):
    rnd = random.Random(seed)
    SCHED = Sched(lambda n: rnd.randrange(n))
    c = pc.LRUCache(max_size=rnd.choice([1, 2]), shared=True)
    errs = []
    def worker(tid, ops):
        TLS.tid = tid
        try:
            for op, k in ops:
                try:
                    if op == "put": c.put(k, f"{tid}:{k}")
                    elif op == "get": c.get(k)
                    else: k in c
                except Exception as e:
                    errs.append((tid, op, k, type(e).__name__, traceback.extract_tb(e.__traceback__)[-2].name))
        finally:
            SCHED.finish(tid)
    plans = [[(rnd.choice(["put", "get", "put", "in"]), rnd.choice("ab")) for _ in range(3)] for _ in range(2)]
    ths = [threading.Thread(target=worker, args=(i, plans[i])) for i in range(2)]
    SCHED.run(ths)
    TLS.tid = None; s = SCHED; SCHED = None
    for e in errs:
        buckets[e[3:]] += 1; ex.setdefault(e[3:], (seed, plans, len(s.trace)))
print(buckets)
for k, v in ex.items(): print(k, v)

import sys, os, warnings, tempfile, contextlib, io
sys.modules['zarr'] = None
sys.path.insert(0, '/repo')
warnings.filterwarnings("ignore")
import numpy as np
from pipefunc import Pipeline, pipefunc
from pipefunc.map import load_xarray_dataset
from pipefunc.map.xarray import xarray_dataset_from_results
def probe(name, fn):
    try:
        with contextlib.redirect_stdout(io.StringIO()):
            r = fn()
        print(f"[{name}] ->", r)
    except Exception as e:
        import traceback
        print(f"[{name}] EXC {type(e).__name__}: {str(e)[:200]} @ {traceback.extract_tb(e.__traceback__)[-1].name}")
def run(pfs, inputs, internal=None, **kw):
    tmp = tempfile.mkdtemp()
    p = Pipeline(pfs)
    r = p.map(inputs, run_folder=tmp, internal_shapes=internal, parallel=False)
    ds1 = xarray_dataset_from_results(inputs, r, p, **kw)
    ds2 = load_xarray_dataset(run_folder=tmp, **kw)
    return ds1.identical(ds2), {k: (v.dims, v.values.tolist()) for k, v in ds1.data_vars.items()}, {k: (v.dims, list(map(str, v.values.tolist()))) for k, v in ds1.coords.items()}
def a():
    @pipefunc("z", mapspec="x[i], y[i] -> z[i]")
    def f(x, y): return f"f({x},{y})"
    return run([f], {"x": [1, 2, 3], "y": ["a", "b", "c"]})
probe("zip", a)
def b():
    @pipefunc("z", mapspec="x[i], y[j] -> z[i, j]")
    def f(x, y): return f"f({x},{y})"
    @pipefunc("s")
    def g(z): return "g"
    return run([f, g], {"x": [1, 2, 3], "y": ["a", "b"]})
probe("outer+single", b)
def c():
    @pipefunc("z", mapspec="x[i, j] -> z[i, j]")
    def f(x): return f"f({x})"
    @pipefunc("w", mapspec="z[i, :] -> w[i]")
    def g(z): return "g(" + ",".join(z) + ")"
    return run([f, g], {"x": np.array([[1, 2], [3, 4]])})
probe("2d+partial", c)
def d():
    @pipefunc("z", mapspec="x[i] -> z[i, k]")
    def f(x): return [f"f({x})0", f"f({x})1"]
    @pipefunc("w", mapspec="z[i, k], y[k] -> w[i, k]")
    def g(z, y): return f"g({z},{y})"
    return run([f, g], {"x": [1, 2], "y": [10, 20]}, {"z": (2,)})
probe("internal", d)
def e():
    @pipefunc("y", mapspec="x[i] -> y[i]")
    def f(x): return f"f({x})"
    @pipefunc("z", mapspec="y[i] -> z[i]")
    def g(y): return f"g({y})"
    r1 = run([f, g], {"x": [1, 2]}, load_intermediate=True); r2 = run([f, g], {"x": [1, 2]}, load_intermediate=False)
    return r1, r2
probe("intermediate", e)

import sys, os, warnings, contextlib, io, inspect, collections, traceback
sys.modules['zarr'] = None
sys.path.insert(0, '/repo')
warnings.filterwarnings("ignore")
from hypothesis import given, settings, strategies as st, seed, HealthCheck, Phase
from pipefunc import Pipeline, PipeFunc

LOG = []
def make_body(fname, pnames, defaults, outs, picker_kind):
    def body(**kw):
        LOG.append(fname)
        base = fname + "(" + ";".join(f"{p}={kw[p]}" for p in pnames) + ")"
        if len(outs) == 1: return base
        if picker_kind == "dict": return {o: f"{o}:{base}" for o in outs}
        return tuple(f"{o}:{base}" for o in outs)
    params = [inspect.Parameter(p, inspect.Parameter.POSITIONAL_OR_KEYWORD, default=defaults.get(p, inspect.Parameter.empty)) for p in pnames]
    # params with defaults must follow those without -> use KEYWORD_ONLY
    params = [inspect.Parameter(p, inspect.Parameter.KEYWORD_ONLY, default=defaults.get(p, inspect.Parameter.empty)) for p in pnames]
    body.__signature__ = inspect.Signature(params); body.__name__ = fname
    return body

@st.composite
def dags(draw):
    roots = [f"r{i}" for i in range(draw(st.integers(1, 3)))]
    names = list(roots); funcs = []
    root_defaults = {r: f"D{r}" for r in roots if draw(st.integers(0, 3)) == 0}
    for f in range(draw(st.integers(1, 5))):
        k = draw(st.integers(0, min(3, len(names))))
        pn = list(draw(st.permutations(names))[:k])
        n_out = draw(st.sampled_from([1, 1, 2]))
        outs = [f"o{f}" + ("ab"[q] if n_out > 1 else "") for q in range(n_out)]
        defaults = {p: root_defaults[p] for p in pn if p in root_defaults}
        bound = {}
        for p in pn:
            if p not in defaults and draw(st.integers(0, 5)) == 0: bound[p] = f"B{f}{p}"
        picker = draw(st.sampled_from(["tuple", "dict"])) if n_out > 1 else None
        funcs.append(dict(name=f"f{f}", params=pn, outs=outs, defaults=defaults, bound=bound, picker=picker))
        names += outs
    order = draw(st.permutations(range(len(funcs))))
    return dict(roots=roots, funcs=funcs, order=list(order))

def dict_picker(out, name): return out[name]
def build(prog):
    pfs = []
    for fn in prog["funcs"]:
        body = make_body(fn["name"], fn["params"], fn["defaults"], fn["outs"], fn["picker"])
        on = fn["outs"][0] if len(fn["outs"]) == 1 else tuple(fn["outs"])
        pfs.append(PipeFunc(body, on, bound=fn["bound"] or None, output_picker=dict_picker if fn["picker"] == "dict" else None))
    return Pipeline([pfs[i] for i in prog["order"]])

class Missing(Exception): pass
def dag_eval(prog, out, supplied):
    prod = {o: fn for fn in prog["funcs"] for o in fn["outs"]}
    memo = dict(supplied); executed = []; raw = {}
    def val(name):
        if name in memo: return memo[name]
        if name in prod:
            fn = prod[name]
            if fn["name"] not in raw:
                kw = {}
                for p in fn["params"]:
                    if p in fn["bound"]: kw[p] = fn["bound"][p]
                    elif p in supplied: kw[p] = supplied[p]
                    elif p in prod: kw[p] = val(p)
                    elif p in fn["defaults"]: kw[p] = fn["defaults"][p]
                    else: raise Missing(p)
                base = fn["name"] + "(" + ";".join(f"{p}={kw[p]}" for p in fn["params"]) + ")"
                executed.append(fn["name"]); raw[fn["name"]] = base
            base = raw[fn["name"]]
            for o in fn["outs"]:
                memo[o] = base if len(fn["outs"]) == 1 else f"{o}:{base}"
            return memo[name]
        raise Missing(name)
    return val(out), executed

stats = collections.Counter(); fails = collections.defaultdict(list)
def check(prog):
    with contextlib.redirect_stdout(io.StringIO()):
        p = build(prog)
    for fn in prog["funcs"]:
        for out in fn["outs"]:
            combos = p.arg_combinations(out)
            for combo in sorted(combos):
                supplied = {n: f"S:{n}" for n in combo}
                try:
                    exp, executed = dag_eval(prog, out, supplied)
                except Missing as m:
                    fails[("MODEL-MISSING",)].append((prog, out, combo, str(m))); continue
                LOG.clear()
                try:
                    with contextlib.redirect_stdout(io.StringIO()):
                        got = p(out, **supplied)
                except Exception as e:
                    tb = traceback.extract_tb(e.__traceback__); inner = [f for f in tb if "/repo/pipefunc" in f.filename]
                    fails[("EXC", type(e).__name__, inner[-1].name if inner else "?")].append((prog, out, combo, str(e)[:150])); continue
                stats["calls"] += 1
                if got != exp: fails[("VALUE",)].append((prog, out, combo, (got, exp)))
                elif sorted(LOG) != sorted(executed): fails[("CALLS",)].append((prog, out, combo, (list(LOG), executed)))
                else: stats["ok"] += 1

@seed(int(os.environ.get("VERIF_SEED", "1")))
@settings(max_examples=int(os.environ.get("N", "400")), deadline=None, database=None, suppress_health_check=list(HealthCheck), phases=[Phase.generate])
@given(dags())
def test(prog):
    stats["progs"] += 1
    try: check(prog)
    except Exception as e:
        tb = traceback.extract_tb(e.__traceback__); inner = [f for f in tb if "/repo/pipefunc" in f.filename]
        fails[("BUILD-EXC", type(e).__name__, inner[-1].name if inner else "harness:" + tb[-1].name)].append((prog, None, None, str(e)[:150]))
test()
print(stats)
for k, v in sorted(fails.items(), key=lambda kv: -len(kv[1])):
    print("=" * 60); print(len(v), k)
    prog, out, combo, info = min(v, key=lambda x: len(str(x[0])))
    print("  out", out, "combo", combo, "info", info); print("  order", prog["order"])
    for fn in prog["funcs"]: print("   ", fn)

import sys
sys.modules['zarr'] = None
sys.path.insert(0, '/repo')
import pipefunc.map._storage_array._base as B, pipefunc.map._storage_array._file as F, pipefunc.map._storage_array._dict as D
_orig = B.normalize_key
def normalize_key(key, shape, internal_shape, shape_mask, *, for_dump=False):
    if for_dump:
        return _orig(key, shape, (), (True,) * len(shape), for_dump=True)
    return _orig(key, shape, internal_shape, shape_mask, for_dump=False)
B.normalize_key = F.normalize_key = D.normalize_key = normalize_key
_orig_si = F.FileArray._slice_indices
def _slice_indices(self, key, *, for_dump=False):
    if for_dump:
        nk = self._normalize_key(key, for_dump=True)
        return [range(*k.indices(s)) if isinstance(k, slice) else range(k, k + 1) for k, s in zip(nk, self.shape)]
    return _orig_si(self, key, for_dump=False)
F.FileArray._slice_indices = _slice_indices
exec(open(__import__('os').path.join(__import__('os').path.dirname(__import__('os').path.abspath(__file__)), 'c07.py')).read())

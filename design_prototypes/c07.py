import sys, os, warnings, itertools, tempfile, shutil, random, collections, traceback
sys.modules['zarr'] = None
sys.path.insert(0, '/repo')
warnings.filterwarnings("ignore")
import numpy as np
from pipefunc.map import storage_registry

def is_masked(x): return x is np.ma.masked
def norm(v):
    """-> nested structure with 'M' for masked"""
    if isinstance(v, np.ma.MaskedArray):
        data = v.data; mask = np.ma.getmaskarray(v)
        out = np.empty(v.shape, dtype=object)
        for idx in np.ndindex(v.shape):
            out[idx] = "M" if mask[idx] or is_masked(data[idx]) else data[idx]
        return ("arr", v.shape, out.tolist())
    if isinstance(v, np.ndarray):
        out = np.empty(v.shape, dtype=object)
        for idx in np.ndindex(v.shape):
            out[idx] = "M" if is_masked(v[idx]) else v[idx]
        return ("arr", v.shape, out.tolist())
    if is_masked(v): return "M"
    return v

rnd = random.Random(int(os.environ.get("VERIF_SEED", "1")))
buckets = collections.Counter(); ex = {}
def rec(b, info):
    buckets[b] += 1; ex.setdefault(b, info)
SL = [slice(None), slice(0, 1), slice(1, None), slice(None, None, -1), slice(None, None, 2)]
for it in range(int(os.environ.get("N", "400"))):
    rank = rnd.randint(1, 3); mask = tuple(rnd.random() < 0.6 for _ in range(rank))
    if not any(mask): mask = (True,) + mask[1:]
    full = tuple(rnd.randint(1, 3) for _ in range(rank))
    ext = tuple(s for s, m in zip(full, mask) if m); inte = tuple(s for s, m in zip(full, mask) if not m)
    ref = np.empty(full, dtype=object); written = np.zeros(ext, dtype=bool)
    base = tempfile.mkdtemp(prefix="c07_")
    arrs = {}
    for name, cls in storage_registry.items():
        if name == "shared_memory_dict" and rnd.random() < 0.8: continue
        arrs[name] = cls(os.path.join(base, name), ext, inte, mask)
    geo = (full, mask)
    try:
        for step in range(rnd.randint(1, 6)):
            # dump at int key
            key = tuple(rnd.randrange(-s, s) for s in ext)
            tok = np.empty(inte, dtype=object)
            for idx in np.ndindex(inte): tok[idx] = f"v{step}@{idx}"
            val = tok if inte else f"v{step}"
            nkey = tuple(k % s for k, s in zip(key, ext))
            it_int = iter(np.ndindex(inte)) 
            for iidx in np.ndindex(inte):
                ii = iter(iidx); ee = iter(nkey)
                fullidx = tuple(next(ee) if m else next(ii) for m in mask)
                ref[fullidx] = tok[iidx] if inte else val
            written[nkey] = True
            for name, a in arrs.items():
                try: a.dump(key, val.tolist() if (inte and rnd.random() < 0.5) else val)
                except Exception as e: rec(("dump", name, type(e).__name__, traceback.extract_tb(e.__traceback__)[-1].name, "int_before_ext" if any((not m) and any(mask[i+1:]) for i, m in enumerate(mask)) else "trailing"), (geo, key))
        # reads
        for _ in range(6):
            key = tuple(rnd.choice(SL) if rnd.random() < 0.4 else rnd.randrange(-s, s) for s in full)
            # expected
            wfull = np.zeros(full, dtype=bool)
            for idx in np.ndindex(full):
                e = tuple(i for i, m in zip(idx, mask) if m); wfull[idx] = written[e]
            expv = np.ma.MaskedArray(ref, mask=~wfull)[key]
            exp = norm(expv)
            for name, a in arrs.items():
                try: got = norm(a[key])
                except Exception as e:
                    rec(("getitem-exc", name, type(e).__name__), (geo, key)); continue
                if got != exp: rec(("getitem", name, "slice" if any(isinstance(k, slice) for k in key) else "int", "has_internal" if inte else "no_internal"), (geo, key, got, exp))
        exp = norm(np.ma.MaskedArray(ref, mask=~np.array([[written[tuple(i for i, m in zip(idx, mask) if m)]] for idx in np.ndindex(full)]).reshape(full)))
        for name, a in arrs.items():
            try: got = norm(a.to_array())
            except Exception as e: rec(("to_array-exc", name, type(e).__name__), geo); continue
            if got != exp: rec(("to_array", name), (geo, got, exp))
            ml = a.mask_linear(); 
            if list(ml) != list((~written).ravel()): rec(("mask_linear", name), geo)
    finally:
        shutil.rmtree(base, ignore_errors=True)
print(sum(buckets.values()), "disagreements")
for k, v in buckets.most_common(): print(v, k, "\n     e.g.", str(ex[k])[:300])

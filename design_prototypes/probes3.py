import sys, os, tempfile, warnings, contextlib, io, hashlib, pathlib
sys.modules['zarr'] = None
sys.path.insert(0, '/repo')
warnings.filterwarnings("ignore")
from typing import Annotated
from pipefunc import Pipeline, PipeFunc, pipefunc
from pipefunc.sweep import Sweep
from pipefunc.typing import is_type_compatible
from pipefunc.map import MapSpec
from pipefunc.map._mapspec import ArraySpec
def probe(name, fn):
    try:
        with contextlib.redirect_stdout(io.StringIO()):
            r = fn()
        print(f"[{name}] ->", r)
    except Exception as e:
        print(f"[{name}] EXC {type(e).__name__}: {str(e)[:160]}")
probe("c16 bool->Annotated[int,5]", lambda: is_type_compatible(bool, Annotated[int, 5]))
probe("c16 int->Annotated[bool,5]", lambda: is_type_compatible(int, Annotated[bool, 5]))
probe("c16 Annotated[bool,5]->int", lambda: is_type_compatible(Annotated[bool, 5], int))
def digest(d):
    return {str(p.relative_to(d)): hashlib.sha256(p.read_bytes()).hexdigest()[:8] for p in sorted(pathlib.Path(d).rglob("*")) if p.is_file()}
def c12():
    tmp = tempfile.mkdtemp()
    calls = []
    @pipefunc("y", mapspec="x[i] -> y[i]")
    def f(x): calls.append(x); return x
    p = Pipeline([f])
    p.map({"x": [1, 2]}, run_folder=tmp, parallel=False)
    before = digest(tmp); calls.clear()
    try:
        p.map({"x": [1, 2]}, run_folder=tmp, parallel=False, cleanup=False, storage="bogus")
    except Exception as e:
        err = type(e).__name__
    after = digest(tmp)
    return err, calls, {k: (before.get(k), after.get(k)) for k in set(before) | set(after) if before.get(k) != after.get(k)}
probe("c12 unknown storage", c12)
def c17():
    a = Sweep({'a': [1, 2]}, exclude=lambda d: d['a'] == 1)
    b = Sweep({'b': [1, 2]}, exclude=lambda d: d['b'] == 1)
    c = Sweep({'c': [1, 2]})
    return a.product(b, c).list()
probe("c17 product3 excludes", c17)
probe("c08 ctor non-ident", lambda: ArraySpec("a-b", ("i",)))
probe("c08 MapSpec empty outputs", lambda: MapSpec((), ()))

import sys, os, tempfile, shutil, warnings, subprocess, contextlib, io
sys.modules['zarr'] = None
sys.path.insert(0, '/repo')
warnings.filterwarnings("ignore")
import numpy as np
from pipefunc import Pipeline, PipeFunc, pipefunc
from pipefunc.map import load_outputs
from pipefunc.cache import LRUCache, HybridCache, DiskCache

def probe(name, fn):
    try:
        with contextlib.redirect_stdout(io.StringIO()):
            r = fn()
        print(f"[{name}] ->", r)
    except Exception as e:
        print(f"[{name}] EXC {type(e).__name__}: {str(e)[:200]}")

# LRU re-put
def lru():
    c = LRUCache(max_size=2, shared=False)
    c.put("a", 1); c.put("b", 2); c.put("a", 3)
    return ("a" in c, c.get("a"), len(c), list(c._cache_queue))
probe("lru reput-oldest-when-full", lru)
def lru2():
    c = LRUCache(max_size=3, shared=False)
    c.put("a", 1); c.put("a", 2); c.put("b", 1); c.put("c", 1); c.put("d", 1)
    return (len(c), list(c._cache_queue), dict(c._cache_dict))
probe("lru reput-dup", lru2)

# C09 stale via intermediate
def c09():
    @pipefunc("b")
    def fb(a): return ("b", a)
    @pipefunc("c", cache=True)
    def fc(a, b): return ("c", a, b)
    p = Pipeline([fb, fc], cache_type="simple")
    r1 = p("c", a=1, b="SUPPLIED")
    r2 = p("c", a=1)
    return r1, r2
probe("c09 intermediate then root", c09)
def c09b():
    @pipefunc("b", bound={"k": 1})
    def fb(a, k): return ("b", a, k)
    @pipefunc("c", cache=True)
    def fc(b): return ("c", b)
    p = Pipeline([fb, fc], cache_type="simple")
    r1 = p("c", a=1)
    p["b"].update_bound({"k": 2})
    r2 = p("c", a=1)
    return r1, r2
probe("c09 update_bound upstream", c09b)

# C11
def c11():
    @pipefunc("k")
    def const(): return 5
    @pipefunc("y", mapspec="x[i] -> y[i]")
    def f(x, k): return x + k
    p = Pipeline([const, f])
    return p.map({"x": [1, 2]}, output_names={"y"}, parallel=False, storage="dict")["y"].output.tolist()
probe("c11 nullary dep with output_names", c11)
def c11b():
    @pipefunc("k")
    def const(d=3): return d
    @pipefunc("y")
    def f(x, k): return x + k
    p = Pipeline([const, f])
    return p.map({"x": 1}, output_names={"y"}, parallel=False, storage="dict")["y"].output
probe("c11 defaulted dep with output_names", c11b)

# C04 shared memory reload in fresh process
def c04():
    tmp = tempfile.mkdtemp()
    @pipefunc("y", mapspec="x[i] -> y[i]")
    def f(x): return x * 2
    p = Pipeline([f])
    p.map({"x": [1, 2, 3]}, run_folder=tmp, storage="shared_memory_dict", parallel=False)
    code = f"import sys; sys.modules['zarr']=None; sys.path.insert(0,'/repo'); from pipefunc.map import load_outputs; print(load_outputs('y', run_folder={tmp!r}))"
    r = subprocess.run([sys.executable, "-c", code], capture_output=True, text=True)
    same = load_outputs("y", run_folder=tmp)
    return (r.returncode, r.stdout[-200:], r.stderr[-300:], same)
probe("c04 shm fresh process", c04)
def c04b():
    tmp = tempfile.mkdtemp()
    @pipefunc("y", mapspec="x[i] -> y[i]")
    def f(x): return x * 2
    p = Pipeline([f])
    p.map({"x": [1, 2, 3]}, run_folder=tmp, storage="dict", parallel=False)
    code = f"import sys; sys.modules['zarr']=None; sys.path.insert(0,'/repo'); from pipefunc.map import load_outputs; print(load_outputs('y', run_folder={tmp!r}))"
    r = subprocess.run([sys.executable, "-c", code], capture_output=True, text=True)
    return (r.returncode, r.stdout[-200:], r.stderr[-300:])
probe("c04 dict fresh process", c04b)

# C05 empty file resume
def c05():
    tmp = tempfile.mkdtemp()
    calls = []
    @pipefunc("y", mapspec="x[i] -> y[i]")
    def f(x):
        calls.append(x); return x * 2
    p = Pipeline([f])
    p.map({"x": [1, 2, 3]}, run_folder=tmp, parallel=False)
    # simulate crash: element 1 file created but empty
    fn = os.path.join(tmp, "outputs", "y", "__1__.pickle")
    open(fn, "wb").close()
    calls.clear()
    r = p.map({"x": [1, 2, 3]}, run_folder=tmp, parallel=False, cleanup=False)
    return r["y"].output.tolist(), calls
probe("c05 empty element file resume", c05)

# adaptive learners with internal shape
def c06():
    from pipefunc.map.adaptive import create_learners
    tmp = tempfile.mkdtemp()
    calls = []
    @pipefunc("y", mapspec="x[i] -> y[i, j]", internal_shape=(2,))
    def f(x):
        calls.append(x); return [x, x]
    p = Pipeline([f])
    l = create_learners(p, {"x": [1, 2, 3]}, tmp)
    l.simple_run()
    return calls, load_outputs("y", run_folder=tmp).tolist()
probe("c06 learners with internal shape", c06)

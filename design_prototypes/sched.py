import sys, os, tempfile, warnings, contextlib, io, asyncio, itertools, random
sys.modules['zarr'] = None
sys.path.insert(0, '/repo')
warnings.filterwarnings("ignore")
from concurrent.futures import Executor, Future
from pipefunc import Pipeline, pipefunc

class SFuture(Future):
    def __init__(self, ex): super().__init__(); self._ex = ex
    def result(self, timeout=None):
        if not self.done():
            self._ex._drain_until(self)
        return super().result(timeout)

class ScheduledExecutor(Executor):
    """Deterministic single-threaded executor; order of task execution given by `choose(n)->index`."""
    def __init__(self, choose, eager=lambda: 0):
        self.q = []; self.choose = choose; self.eager = eager; self.order = []; self.n = 0; self._loop_sched = False
    def submit(self, fn, *a, **k):
        f = SFuture(self); self.q.append((self.n, f, fn, a, k)); self.n += 1
        for _ in range(min(self.eager(), len(self.q))):
            self._run_one()
        try:
            loop = asyncio.get_running_loop()
        except RuntimeError:
            loop = None
        if loop is not None:
            loop.call_soon(self._drain_async)
        return f
    def _run_one(self):
        i = self.choose(len(self.q))
        tid, f, fn, a, k = self.q.pop(i)
        self.order.append(tid)
        if not f.set_running_or_notify_cancel(): return
        try: f.set_result(fn(*a, **k))
        except BaseException as e: f.set_exception(e)
    def _drain_until(self, fut):
        while not fut.done(): self._run_one()
    def _drain_async(self):
        if self.q: self._run_one()
    def shutdown(self, wait=True, **k): 
        while self.q: self._run_one()

calls = []
@pipefunc("y", mapspec="x[i] -> y[i]")
def f(x): calls.append(("f", x)); return x * 2
@pipefunc("z", mapspec="x[i] -> z[i]")
def g(x): calls.append(("g", x)); return x + 100
@pipefunc("s")
def h(y, z): calls.append(("h",)); return list(y) + list(z)
p = Pipeline([f, g, h])
for seed in range(4):
    rnd = random.Random(seed)
    ex = ScheduledExecutor(lambda n: rnd.randrange(n), eager=lambda: rnd.randrange(2))
    calls.clear()
    with contextlib.redirect_stdout(io.StringIO()):
        r = p.map({"x": [1, 2, 3]}, executor=ex, storage="dict", parallel=True)
    print("sync", seed, ex.order, r["s"].output, calls[:3])
async def amain(seed):
    rnd = random.Random(seed)
    ex = ScheduledExecutor(lambda n: rnd.randrange(n))
    calls.clear()
    with contextlib.redirect_stdout(io.StringIO()):
        am = p.map_async({"x": [1, 2, 3]}, executor=ex, storage="dict")
        r = await am.task
    print("async", seed, ex.order, r["s"].output)
for seed in range(3):
    asyncio.run(amain(seed))

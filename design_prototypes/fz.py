import sys
sys.modules['zarr'] = None; sys.path.insert(0, '/repo')
import atheris
with atheris.instrument_imports(include=["pipefunc"]):
    from pipefunc.map._mapspec import MapSpec
n = 0
def one(data):
    global n; n += 1
    fdp = atheris.FuzzedDataProvider(data)
    s = fdp.ConsumeUnicodeNoSurrogates(64)
    try:
        m = MapSpec.from_string(s)
    except ValueError:
        return
    except IndexError:
        return
    assert MapSpec.from_string(str(m)) == m, (s, str(m))
atheris.Setup(sys.argv, one)
atheris.Fuzz()

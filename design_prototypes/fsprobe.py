import sys, os, io, builtins, tempfile, warnings, contextlib
sys.modules['zarr'] = None
sys.path.insert(0, '/repo')
warnings.filterwarnings("ignore")
from pipefunc import Pipeline, pipefunc
import pathlib, shutil

EVENTS = []
KILL_AT = int(os.environ.get("KILL_AT", "-1"))
ROOT = None
def ev(kind, path, extra=""):
    p = str(path)
    if ROOT is None or not p.startswith(ROOT):
        return False
    EVENTS.append((kind, os.path.relpath(p, ROOT), extra))
    if len(EVENTS) - 1 == KILL_AT:
        os.write(2, f"KILL at {EVENTS[-1]}\n".encode())
        os._exit(137)
    return True

real_open = io.open
class W:
    def __init__(self, f, path): self._f = f; self._p = path
    def write(self, data):
        ev("write", self._p, len(data)); return self._f.write(data)
    def close(self):
        ev("close", self._p); return self._f.close()
    def __enter__(self): return self
    def __exit__(self, *a): self.close()
    def __getattr__(self, n): return getattr(self._f, n)
def my_open(file, mode="r", *a, **k):
    if isinstance(file, (str, os.PathLike)) and any(c in mode for c in "wax+"):
        tracked = ev("open:" + mode, os.fspath(file))
        f = real_open(file, mode, *a, **k)
        return W(f, os.fspath(file)) if tracked else f
    return real_open(file, mode, *a, **k)
io.open = my_open; builtins.open = my_open
for name in ["mkdir", "unlink", "rmdir", "replace", "rename", "remove"]:
    real = getattr(os, name)
    def mk(real, name):
        def f(path, *a, **k):
            ev(name, path); return real(path, *a, **k)
        return f
    setattr(os, name, mk(real, name))

tmp = tempfile.mkdtemp(); ROOT = tmp
@pipefunc("y", mapspec="x[i] -> y[i]")
def f(x): return x * 2
@pipefunc("s")
def g(y): return sum(y)
p = Pipeline([f, g])
with contextlib.redirect_stdout(io.StringIO()):
    p.map({"x": [1, 2]}, run_folder=tmp, parallel=False, storage=os.environ.get("ST", "file_array"))
for i, e in enumerate(EVENTS): print(i, e)

import sys, os, itertools, tempfile, shutil, traceback, collections, warnings
sys.modules['zarr'] = None
sys.path.insert(0, '/repo')
warnings.filterwarnings("ignore")
import numpy as np
from hypothesis import given, settings, strategies as st, seed, HealthCheck, Phase
import hypothesis
from pipefunc import Pipeline, PipeFunc
from pipefunc.map import load_outputs
import contextlib, io

# ---------- program AST ----------
# array: name, axes(tuple of index names), produced by root or func
# func: name, outs [names], params: list of (pname, spec) spec = None (unlisted) or tuple(axis|None)
#       out_axes tuple of names; internal axes = those not in any param spec
#       mapspec: bool (False => no mapspec => called once)

def canon(v):
    if isinstance(v, np.ma.MaskedArray):
        if np.ma.is_masked(v):
            return "<MASKED>"
        v = v.data
    if v is np.ma.masked:
        return "<MASKED>"
    if isinstance(v, np.ndarray):
        return canon(v.tolist())
    if isinstance(v, (list, tuple)):
        return "[" + ",".join(canon(x) for x in v) + "]"
    return str(v)

def make_body(fname, pnames, outs, int_shape, ret_kind):
    def body(**kw):
        base = fname + "(" + ";".join(f"{p}={canon(kw[p])}" for p in pnames) + ")"
        def one(o):
            if not int_shape:
                return f"{o}:{base}"
            arr = np.empty(int_shape, dtype=object)
            for idx in itertools.product(*map(range, int_shape)):
                arr[idx] = f"{o}:{base}@{','.join(map(str, idx))}"
            return arr.tolist() if ret_kind == "list" else arr
        if len(outs) == 1:
            return one(outs[0])
        return tuple(one(o) for o in outs)
    # build real signature
    import inspect
    params = [inspect.Parameter(p, inspect.Parameter.POSITIONAL_OR_KEYWORD) for p in pnames]
    body.__signature__ = inspect.Signature(params)
    body.__name__ = fname
    return body

@st.composite
def programs(draw):
    sizes = {}  # index name -> size
    idx_names = ["i", "j", "k", "l"]
    arrays = {}  # name -> axes tuple (index names) ; () for scalars / whole values
    roots = {}
    n_roots = draw(st.integers(1, 3))
    for r in range(n_roots):
        rank = draw(st.integers(0, 2))
        axes = tuple(draw(st.permutations(idx_names))[:rank])
        name = f"r{r}"
        arrays[name] = axes
        roots[name] = axes
        for a in axes:
            sizes.setdefault(a, draw(st.integers(1, 3)))
    funcs = []
    n_funcs = draw(st.integers(1, 4))
    for f in range(n_funcs):
        avail = list(arrays)
        k = draw(st.integers(1, min(3, len(avail))))
        pnames = draw(st.permutations(avail))[:k]
        use_mapspec = draw(st.booleans())
        params = []
        in_indices = []
        for p in pnames:
            axes = arrays[p]
            if not use_mapspec or not axes or draw(st.integers(0, 3)) == 0:
                params.append((p, None))
            else:
                spec = tuple(a if draw(st.integers(0, 3)) else None for a in axes)
                params.append((p, spec))
                for a in spec:
                    if a is not None and a not in in_indices:
                        in_indices.append(a)
        n_out = draw(st.integers(1, 2))
        outs = [f"o{f}" + ("ab"[q] if n_out > 1 else "") for q in range(n_out)]
        int_axes = []
        if use_mapspec:
            n_int = draw(st.integers(0, 1)) if in_indices else 0
            free = [a for a in idx_names + ["m", "n"] if a not in in_indices]
            int_axes = free[:n_int] if not n_int else [draw(st.sampled_from(free))]
            if not any(spec is not None and any(a is not None for a in spec) for _, spec in params) and not int_axes:
                # a mapspec with no indices at all is not expressible; -> generator form or drop mapspec
                if draw(st.booleans()):
                    int_axes = [draw(st.sampled_from(free))]
                else:
                    use_mapspec = False
                    params = [(p, None) for p, _ in params]
        out_axes = ()
        int_shape = ()
        if use_mapspec:
            out_axes = tuple(draw(st.permutations(in_indices + int_axes)))
            for a in int_axes:
                sizes.setdefault(a, draw(st.integers(1, 3)))
            int_shape = tuple(sizes[a] for a in out_axes if a in int_axes)
        ret_kind = draw(st.sampled_from(["list", "ndarray"]))
        funcs.append(dict(name=f"f{f}", outs=outs, params=params, mapspec=use_mapspec,
                          out_axes=out_axes, int_axes=int_axes, int_shape=int_shape, ret_kind=ret_kind))
        for o in outs:
            arrays[o] = out_axes
    list_inputs = draw(st.booleans())
    storage = draw(st.sampled_from(["file_array", "dict", "shared_memory_dict"]))
    return dict(sizes=sizes, roots=roots, funcs=funcs, list_inputs=list_inputs, storage=storage, arrays=arrays)

def mapspec_str(fn):
    if not fn["mapspec"]:
        return None
    ins = [f"{p}[{', '.join(':' if a is None else a for a in spec)}]" for p, spec in fn["params"] if spec is not None and any(a is not None for a in spec)]
    # params with spec all None are treated as unlisted
    outs = [f"{o}[{', '.join(fn['out_axes'])}]" for o in fn["outs"]]
    return (", ".join(ins) if ins else "...") + " -> " + ", ".join(outs)

def root_value(name, axes, sizes, as_list):
    if not axes:
        return f"{name}"
    shape = tuple(sizes[a] for a in axes)
    arr = np.empty(shape, dtype=object)
    for idx in itertools.product(*map(range, shape)):
        arr[idx] = f"{name}<{','.join(map(str, idx))}>"
    if as_list and len(axes) == 1:
        return arr.tolist()
    return arr

def reference(prog, inputs):
    sizes = prog["sizes"]
    env = dict(inputs)
    for fn in prog["funcs"]:
        pn = [p for p, _ in fn["params"]]
        body = make_body(fn["name"], pn, fn["outs"], fn["int_shape"], "ndarray")
        if not fn["mapspec"]:
            r = body(**{p: env[p] for p in pn})
            rs = (r,) if len(fn["outs"]) == 1 else r
            for o, v in zip(fn["outs"], rs):
                env[o] = v
            continue
        full_shape = tuple(sizes[a] for a in fn["out_axes"])
        ext_axes = [a for a in fn["out_axes"] if a not in fn["int_axes"]]
        res = [np.empty(full_shape, dtype=object) for _ in fn["outs"]]
        for ext in itertools.product(*[range(sizes[a]) for a in ext_axes]):
            ids = dict(zip(ext_axes, ext))
            kw = {}
            for p, spec in fn["params"]:
                v = env[p]
                if spec is None or all(a is None for a in spec):
                    kw[p] = v
                else:
                    key = tuple(slice(None) if a is None else ids[a] for a in spec)
                    kw[p] = np.asarray(v, dtype=object)[key]
            r = body(**kw)
            rs = (r,) if len(fn["outs"]) == 1 else r
            for q, v in enumerate(rs):
                if fn["int_axes"]:
                    for iidx in itertools.product(*map(range, fn["int_shape"])):
                        it = iter(iidx)
                        full = tuple(ids[a] if a in ids else next(it) for a in fn["out_axes"])
                        res[q][full] = v[iidx]
                else:
                    full = tuple(ids[a] for a in fn["out_axes"])
                    res[q][full] = v
        for o, v in zip(fn["outs"], res):
            env[o] = v
    return env

stats = collections.Counter()
fails = collections.defaultdict(list)

def run_one(prog):
    sizes = prog["sizes"]
    inputs = {n: root_value(n, ax, sizes, prog["list_inputs"]) for n, ax in prog["roots"].items()}
    used = {p for fn in prog["funcs"] for p, _ in fn["params"]}
    inputs = {k: v for k, v in inputs.items() if k in used}
    pfs = []
    internal_shapes = {}
    for fn in prog["funcs"]:
        pn = [p for p, _ in fn["params"]]
        body = make_body(fn["name"], pn, fn["outs"], fn["int_shape"], fn["ret_kind"])
        on = fn["outs"][0] if len(fn["outs"]) == 1 else tuple(fn["outs"])
        pfs.append(PipeFunc(body, on, mapspec=mapspec_str(fn)))
        if fn["int_axes"]:
            for o in fn["outs"]:
                internal_shapes[o] = fn["int_shape"]
    tmp = tempfile.mkdtemp(prefix="c01_")
    try:
        with contextlib.redirect_stdout(io.StringIO()):
            pipe = Pipeline(pfs)
            res = pipe.map(inputs, run_folder=tmp, internal_shapes=internal_shapes or None, parallel=False, storage=prog["storage"])
        ref = reference(prog, {k: v for k, v in inputs.items()})
        for fn in prog["funcs"]:
            for o in fn["outs"]:
                got = res[o].output
                exp = ref[o]
                if canon(got) != canon(exp):
                    return ("MISMATCH", o, canon(got)[:200], canon(exp)[:200])
                if fn["mapspec"] and np.shape(got) != np.shape(exp):
                    return ("SHAPE", o, np.shape(got), np.shape(exp))
                with contextlib.redirect_stdout(io.StringIO()):
                    lo = load_outputs(o, run_folder=tmp)
                if canon(lo) != canon(exp):
                    return ("LOADMISMATCH", o, canon(lo)[:200], canon(exp)[:200])
        return None
    except Exception as e:
        tb = traceback.extract_tb(e.__traceback__)
        inner = [f for f in tb if "/repo/pipefunc" in f.filename]
        loc = f"{os.path.basename(inner[-1].filename)}:{inner[-1].name}" if inner else "harness"
        return ("EXC", type(e).__name__, loc, str(e)[:150])
    finally:
        shutil.rmtree(tmp, ignore_errors=True)

@seed(int(os.environ.get("VERIF_SEED", "1")))
@settings(max_examples=int(os.environ.get("N", "300")), deadline=None, database=None,
          suppress_health_check=list(HealthCheck), phases=[Phase.generate])
@given(programs())
def test(prog):
    r = run_one(prog)
    stats["total"] += 1
    if r is not None:
        key = r[:3] if r[0] == "EXC" else r[:1]
        fails[key].append((prog, r))
    else:
        stats["ok"] += 1

test()
print(stats)
for k, v in sorted(fails.items(), key=lambda kv: -len(kv[1])):
    print("=" * 80)
    print(len(v), k)
    prog, r = min(v, key=lambda pr: len(str(pr[0])))
    print("  ", r)
    print("   roots", prog["roots"], "sizes", prog["sizes"], "storage", prog["storage"], "list", prog["list_inputs"])
    for fn in prog["funcs"]:
        print("   ", fn["name"], fn["outs"], "params", fn["params"], "ms:", mapspec_str(fn), "int", fn["int_shape"], fn["ret_kind"])

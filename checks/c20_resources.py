"""C20 -- Resources combine monotonically and without side effects (DESIGN.md section 4, C20)."""

from __future__ import annotations

import copy
import os
import re
from fractions import Fraction

from hypothesis import strategies as st

from vlib import boot  # noqa: F401
from vlib.core import Campaign, Outcome, exc_bucket, exc_detail

from pipefunc.resources import Resources

PID = "C20"
LEVEL = "exploration"
RULE = (
    "Hypothesis-generated valid Resources (cpus | nodes+cpus_per_node, gpus, memory strings over all units/"
    "case/fractions, wall-time strings in all documented layouts with 1-3 digit leading field, partition, "
    "extra_args) and operand lists of 1-4; oracles: independent byte/second arithmetic for combine_max, "
    "field-wise model for with_defaults/update, deep before/after snapshots, from_dict(dict()) round trip, "
    "slurm option tokens; plus single-fault invalid inputs that must be rejected. Non-trivial = operand list "
    "of >= 2 whose set times differ in field count or leading-digit count, or whose memories use different "
    "units (combine), or receiver and defaults both setting some field (with_defaults), or a rejected input; "
    "distinct by sha1 of the generated case."
)
ASSUMPTIONS = [
    "gpus=0 is treated as 'no GPU requested': to_slurm_options need not mention it (DESIGN.md section 7)",
    "memory/time strings are generated over printable ASCII; trailing-newline and non-ASCII digit strings are outside the domain",
    "with_defaults may raise ValueError only when the merged fields are one of the documented exclusive combinations",
]

UNITS = {"B": 1, "KB": 10**3, "MB": 10**6, "GB": 10**9, "TB": 10**12, "PB": 10**15}


# ---- independent reference arithmetic ---------------------------------------------------------
def ref_bytes(s: str) -> Fraction | None:
    m = re.fullmatch(r"([0-9]+(?:\.[0-9]+)?)([KkMmGgTtPp]?[Bb])", s)
    if not m:
        return None
    return Fraction(m.group(1)) * UNITS[m.group(2).upper()]


def ref_seconds(s: str) -> int | None:
    if not re.fullmatch(r"[0-9:]+", s):
        return None
    parts = s.split(":")
    if not 2 <= len(parts) <= 4 or any(p == "" for p in parts):
        return None
    if any(len(p) != 2 for p in parts[1:]):
        return None
    if len(parts) == 2 and len(parts[0]) != 2:
        return None
    weights = [1, 60, 3600, 86400]
    return sum(int(p) * w for p, w in zip(reversed(parts), weights))


# ---- strategies -------------------------------------------------------------------------------
def _mem():
    num = st.one_of(
        st.integers(0, 2000).map(str),
        st.tuples(st.integers(0, 999), st.integers(0, 999), st.integers(1, 3)).map(
            lambda t: f"{t[0]}.{str(t[1]).zfill(3)[: t[2]]}"
        ),
    )
    unit = st.sampled_from(list(UNITS)).flatmap(
        lambda u: st.sampled_from(sorted({u, u.lower(), u.capitalize(), u[0].lower() + u[1:].upper()}))
    )
    return st.tuples(num, unit).map(lambda t: t[0] + t[1])


def _two():
    return st.integers(0, 99).map(lambda v: f"{v:02d}")


def _time():
    lead = st.one_of(st.integers(0, 9), st.integers(10, 99), st.integers(100, 400)).map(str)
    return st.one_of(
        st.tuples(_two(), _two()).map(":".join),
        st.tuples(lead, _two(), _two()).map(":".join),
        st.tuples(lead, _two(), _two(), _two()).map(":".join),
    )


def _extra():
    # keys include the flag names to_slurm_options uses for the quantities themselves (a user passing e.g. an extra
    # --gres besides gpus): the quantity must still be mentioned
    keys = ["qos", "account", "constraint", "foo", "qos", "account", "gres", "mem", "time", "partition", "cpus-per-task", "nodes"]
    return st.dictionaries(st.sampled_from(keys), st.sampled_from(["a", "b", 1, 2]), max_size=2)


@st.composite
def resources_spec(draw, rich=False):
    d = {}
    p = 0.7 if rich else 0.5
    kind = draw(st.sampled_from(["none", "cpus", "cpus", "nodes", "nodes+cpn"]))
    if kind == "cpus":
        d["cpus"] = draw(st.integers(1, 64))
    elif kind == "nodes":
        d["nodes"] = draw(st.integers(1, 8))
    elif kind == "nodes+cpn":
        d["nodes"] = draw(st.integers(1, 8))
        d["cpus_per_node"] = draw(st.integers(1, 32))
    if draw(st.floats(0, 1)) < p:
        d["gpus"] = draw(st.integers(0, 8))
    if draw(st.floats(0, 1)) < p:
        d["memory"] = draw(_mem())
    if draw(st.floats(0, 1)) < p:
        d["time"] = draw(_time())
    if draw(st.floats(0, 1)) < 0.3:
        d["partition"] = draw(st.sampled_from(["cpu", "gpu", "long"]))
    if draw(st.floats(0, 1)) < 0.3:
        d["extra_args"] = draw(_extra())
    if draw(st.floats(0, 1)) < 0.2:
        d["parallelization_mode"] = draw(st.sampled_from(["internal", "external"]))
    return d


FIELDS = ["cpus", "cpus_per_node", "nodes", "memory", "gpus", "time", "partition", "extra_args", "parallelization_mode"]


def snap(r: Resources) -> dict:
    return copy.deepcopy({f: getattr(r, f) for f in FIELDS})


def valid_combo(d: dict) -> bool:
    if d.get("nodes") and d.get("cpus"):
        return False
    if d.get("cpus_per_node") and not d.get("nodes"):
        return False
    return True


# ---- bodies -----------------------------------------------------------------------------------
def body_combine(data) -> Outcome:
    out = Outcome()
    specs = data["operands"]
    try:
        rs = [Resources(**copy.deepcopy(s)) for s in specs]
    except Exception as e:
        out.fail(exc_bucket(e, "valid-refused"), exc_detail(e))
        return out
    before = [snap(r) for r in rs]
    times = [s["time"] for s in specs if "time" in s]
    mems = [s["memory"] for s in specs if "memory" in s]
    shapes = {(t.count(":"), len(t.split(":")[0])) for t in times}
    units = {re.sub(r"[0-9.]", "", m).upper() for m in mems}
    out.nontrivial = len(specs) >= 2 and (len(shapes) >= 2 or len(units) >= 2)
    out.labels += [f"n{len(specs)}"]
    if len(shapes) >= 2:
        out.labels.append("mixed-time-layout")
    if len(units) >= 2:
        out.labels.append("mixed-mem-units")
    try:
        c = Resources.combine_max(rs)
    except Exception as e:
        out.fail(exc_bucket(e, "combine_max-raised"), exc_detail(e))
        return out
    if any(c is r for r in rs) and len(rs) > 0:
        out.fail("combine_max-returns-operand", specs)
    for name in ("cpus", "gpus"):
        vals = [s[name] for s in specs if name in s]
        got = getattr(c, name)
        if vals:
            if got is None or got < max(vals):
                out.fail(f"combine_max-{name}-too-small", f"got {got} operands {vals}")
            elif got != max(vals):
                out.fail(f"combine_max-{name}-not-max", f"got {got} operands {vals}")
        elif got is not None:
            out.fail(f"combine_max-{name}-invented", f"got {got}")
    if mems:
        want = max(ref_bytes(m) for m in mems)
        got = ref_bytes(c.memory) if isinstance(c.memory, str) else None
        if want == 0 and c.memory is None:
            pass  # a zero-byte request and "no memory requested" denote the same quantity
        elif got is None or got < want * (1 - Fraction(1, 10**12)):
            out.fail("combine_max-memory-too-small", f"got {c.memory} operands {mems}")
        elif got > want * (1 + Fraction(1, 10**12)):
            out.fail("combine_max-memory-not-max", f"got {c.memory} operands {mems}")
    elif c.memory is not None:
        out.fail("combine_max-memory-invented", c.memory)
    if times:
        want = max(ref_seconds(t) for t in times)
        got = ref_seconds(c.time) if isinstance(c.time, str) else None
        if got is None or got < want:
            out.fail("combine_max-time-too-small", f"got {c.time} operands {times}")
        elif got > want:
            out.fail("combine_max-time-not-max", f"got {c.time} operands {times}")
    elif c.time is not None:
        out.fail("combine_max-time-invented", c.time)
    for r, b, s in zip(rs, before, specs):
        if snap(r) != b:
            out.fail("combine_max-mutated-operand", f"{b} -> {snap(r)}")
    return out


def body_defaults(data) -> Outcome:
    out = Outcome()
    a_spec, d_spec = data["receiver"], data["defaults"]
    a, d = Resources(**copy.deepcopy(a_spec)), Resources(**copy.deepcopy(d_spec))
    sa, sd = snap(a), snap(d)
    scalar = ["cpus", "cpus_per_node", "nodes", "memory", "gpus", "time", "partition"]
    merged = {f: (a_spec[f] if f in a_spec else d_spec.get(f)) for f in scalar}
    merged = {k: v for k, v in merged.items() if v is not None}
    both = [f for f in scalar if f in a_spec and f in d_spec]
    fill = [f for f in scalar if f not in a_spec and f in d_spec]
    out.nontrivial = bool(both) and bool(fill)
    out.labels.append("exclusive-merge" if not valid_combo(merged) else "mergeable")
    via = data.get("via", "with_defaults")
    try:
        if via == "with_defaults":
            r = a.with_defaults(d)
        else:
            r = Resources.maybe_with_defaults(a, d)
    except ValueError as e:
        if valid_combo(merged):
            out.fail(exc_bucket(e, "with_defaults-raised"), exc_detail(e))
        return out
    except Exception as e:
        out.fail(exc_bucket(e, "with_defaults-raised"), exc_detail(e))
        return out
    if not valid_combo(merged):
        # an exclusive combination slipped through: the result cannot be a valid Resources
        out.fail("with_defaults-accepted-exclusive", f"{a_spec} {d_spec} -> {snap(r)}")
        return out
    for f in scalar:
        if f in a_spec:
            if getattr(r, f) != a_spec[f]:
                out.fail(f"with_defaults-lost-receiver-{f}", f"{a_spec} {d_spec} -> {snap(r)}")
        elif getattr(r, f) != d_spec.get(f):
            out.fail(f"with_defaults-wrong-fill-{f}", f"{a_spec} {d_spec} -> {snap(r)}")
    if "parallelization_mode" in a_spec and r.parallelization_mode != a_spec["parallelization_mode"]:
        out.fail("with_defaults-lost-receiver-parallelization_mode", f"{a_spec} {d_spec}")
    if r is a or r is d:
        out.fail("with_defaults-returns-operand", "")
    if snap(a) != sa or snap(d) != sd:
        out.fail("with_defaults-mutated-operand", f"{sa}->{snap(a)} ; {sd}->{snap(d)}")
    return out


def body_update(data) -> Outcome:
    out = Outcome()
    spec, upd = data["receiver"], data["update"]
    r = Resources(**copy.deepcopy(spec))
    s0 = snap(r)
    upd_copy = copy.deepcopy(upd)
    want = copy.deepcopy(s0)
    for k, v in upd.items():
        if k == "extra_args":
            want["extra_args"] = {**want["extra_args"], **v}
        elif k in FIELDS:
            want[k] = v
        else:
            want["extra_args"] = {**want["extra_args"], k: v}
    unknown = [k for k in upd if k not in FIELDS]
    out.nontrivial = bool(upd) and (bool(unknown) or "extra_args" in upd or len(upd) >= 2)
    out.labels.append("unknown-key" if unknown else "known-keys")
    try:
        u = r.update(**upd)
    except ValueError as e:
        if valid_combo({k: v for k, v in want.items() if v is not None}):
            out.fail(exc_bucket(e, "update-raised"), exc_detail(e))
        if snap(r) != s0:
            out.fail("update-mutated-receiver", f"{s0} -> {snap(r)} by {upd}")
        return out
    except Exception as e:
        out.fail(exc_bucket(e, "update-raised"), exc_detail(e))
        return out
    if snap(u) != want:
        out.fail("update-wrong-result", f"{s0} + {upd} -> {snap(u)} want {want}")
    if u is r:
        out.fail("update-returns-receiver", "")
    if snap(r) != s0:
        out.fail("update-mutated-receiver", f"{s0} -> {snap(r)} by {upd}")
    if upd != upd_copy:
        out.fail("update-mutated-argument", f"{upd_copy} -> {upd}")
    return out


SLURM_KEYS = {
    "cpus": "cpus-per-task",
    "gpus": "gpu",
    "nodes": "nodes",
    "cpus_per_node": "cpus-per-node",
    "memory": "mem",
    "time": "time",
    "partition": "partition",
}


def body_roundtrip(data) -> Outcome:
    out = Outcome()
    spec = data["spec"]
    try:
        r = Resources(**copy.deepcopy(spec))
    except Exception as e:
        out.fail(exc_bucket(e, "valid-refused"), exc_detail(e))
        return out
    s0 = snap(r)
    out.nontrivial = len(spec) >= 3
    try:
        dd = r.dict()
        r2 = Resources.from_dict(dd)
    except Exception as e:
        out.fail(exc_bucket(e, "roundtrip-raised"), exc_detail(e))
        return out
    if r2 != r or snap(r2) != s0:
        out.fail("from_dict-dict-roundtrip", f"{s0} -> {snap(r2)}")
    for f in FIELDS:
        if f in spec and f not in dd:
            out.fail("dict-drops-set-field", f)
    if any(v is None for v in dd.values()):
        out.fail("dict-keeps-None", dd)
    if snap(r) != s0:
        out.fail("dict-mutated-receiver", f"{s0} -> {snap(r)}")
    if Resources.maybe_from_dict(copy.deepcopy(spec)) != r:
        out.fail("maybe_from_dict-differs", spec)
    # slurm options
    try:
        opts = r.to_slurm_options()
    except Exception as e:
        out.fail(exc_bucket(e, "slurm-raised"), exc_detail(e))
        return out
    tokens = opts.split(" ") if opts else []
    for f in SLURM_KEYS:
        if f not in spec:
            continue
        if f == "gpus" and spec[f] == 0:
            continue
        v = str(spec[f])
        if f == "gpus":
            ok = any(t.startswith("--gres=") and t.endswith("gpu:" + v) or t in (f"--gpus={v}", f"--gpus-per-node={v}") for t in tokens)
        elif f == "cpus_per_node":
            ok = any(("cpus-per-node" in t or "tasks-per-node" in t) and t.endswith("=" + v) for t in tokens)
        else:
            ok = f"--{SLURM_KEYS[f]}={v}" in tokens
        if not ok:
            out.fail(f"slurm-omits-{f}", f"{spec} -> {opts!r}")
    for k, v in spec.get("extra_args", {}).items():
        if f"--{k}={v}" not in tokens:
            out.fail("slurm-omits-extra_arg", f"{spec} -> {opts!r}")
    if snap(r) != s0:
        out.fail("to_slurm_options-mutated", "")
    return out


def body_invalid(data) -> Outcome:
    out = Outcome()
    spec, why = data["spec"], data["why"]
    out.nontrivial = True
    out.labels.append(why)
    try:
        r = Resources(**copy.deepcopy(spec))
    except Exception:
        return out
    out.fail(f"invalid-accepted-{why}", f"{spec} -> {snap(r)}")
    try:
        Resources.from_dict(copy.deepcopy(spec))
        out.fail(f"invalid-accepted-from_dict-{why}", spec)
    except Exception:
        pass
    return out


@st.composite
def invalid_spec(draw):
    base = draw(resources_spec())
    ops = [
        "cpus<=0", "gpus<0", "nodes<=0", "cpn<=0", "cpus+nodes", "cpn-without-nodes",
        "mem-no-unit", "mem-unknown-unit", "mem-space", "mem-negative", "mem-two-dots", "mem-empty", "mem-unit-only", "mem-not-str",
        "time-letters", "time-no-colon", "time-1digit-min", "time-1digit-sec", "time-empty", "time-5-fields", "time-trailing-colon", "time-3digit-min",
    ]  # fmt: skip
    why = draw(st.sampled_from(ops))
    d = dict(base)
    num = str(draw(st.integers(1, 500)))
    if why == "cpus<=0":
        d.pop("nodes", None), d.pop("cpus_per_node", None)
        d["cpus"] = draw(st.integers(-3, 0))
    elif why == "gpus<0":
        d["gpus"] = draw(st.integers(-3, -1))
    elif why == "nodes<=0":
        d.pop("cpus", None)
        d["nodes"] = draw(st.integers(-3, 0))
        if d["nodes"] == 0:  # nodes=0 with cpus_per_node is also invalid, keep either way
            d.pop("cpus_per_node", None)
    elif why == "cpn<=0":
        d.pop("cpus", None)
        d["nodes"] = draw(st.integers(1, 4))
        d["cpus_per_node"] = draw(st.integers(-3, -1))
    elif why == "cpus+nodes":
        d["cpus"] = draw(st.integers(1, 8))
        d["nodes"] = draw(st.integers(1, 8))
    elif why == "cpn-without-nodes":
        d.pop("nodes", None)
        d["cpus_per_node"] = draw(st.integers(1, 8))
    elif why == "mem-no-unit":
        d["memory"] = num
    elif why == "mem-unknown-unit":
        d["memory"] = num + draw(st.sampled_from(["XB", "EB", "G", "M", "GiB", "BB", "KBB", "bytes"]))
    elif why == "mem-space":
        d["memory"] = draw(st.sampled_from([num + " GB", " " + num + "GB", num + "GB ", num + "G B"]))
    elif why == "mem-negative":
        d["memory"] = "-" + num + "GB"
    elif why == "mem-two-dots":
        d["memory"] = draw(st.sampled_from([num + ".5.5GB", num + "..5GB", "." + num + "GB", num + ".GB"]))
    elif why == "mem-empty":
        d["memory"] = ""
    elif why == "mem-unit-only":
        d["memory"] = draw(st.sampled_from(["GB", "B", ".GB"]))
    elif why == "mem-not-str":
        d["memory"] = draw(st.sampled_from([16, 1.5]))
    elif why == "time-letters":
        d["time"] = draw(st.sampled_from(["1h", "aa:bb", "1:00:0x", "01:00:00s", "1-00:00:00", "one"]))
    elif why == "time-no-colon":
        d["time"] = draw(st.sampled_from(["1200", "12", "120000"]))
    elif why == "time-1digit-min":
        d["time"] = draw(st.sampled_from(["1:2:03", "1:02", "1:1:02:03", "01:1:02"]))
    elif why == "time-1digit-sec":
        d["time"] = draw(st.sampled_from(["1:02:3", "10:5", "1:01:02:3"]))
    elif why == "time-empty":
        d["time"] = ""
    elif why == "time-5-fields":
        d["time"] = "1:01:01:01:01"
    elif why == "time-trailing-colon":
        d["time"] = draw(st.sampled_from(["10:00:", ":10:00", "10::00"]))
    elif why == "time-3digit-min":
        d["time"] = draw(st.sampled_from(["1:100:00", "1:00:100", "100:00"]))
    return {"spec": d, "why": why}


FUZZ_SCRIPT = os.path.join(boot.VERIF, "fuzz", "resources_fuzz.py")
FUZZ_SEEDS = ["2GB|500MB", "1.5tb|10Kb", "2:00:00|10:00:00", "30:00|1:00:00:00", "0B|00:00"]
FUZZ_DICT = ['"GB"', '"MB"', '"KB"', '"TB"', '"PB"', '"B"', '":"', '"|"', '"."', '"00"', '"59"']


def body_fuzz(data) -> Outcome:
    """thorough tier: one atheris run (coverage-guided) of fuzz/resources_fuzz.py"""
    import importlib.util
    import json
    import subprocess
    import sys

    out = Outcome()
    out.labels.append("corpus-" + data["corpus"])
    if importlib.util.find_spec("atheris") is None:
        out.labels.append("atheris-missing")
        return out
    work = boot.fresh_dir("rfuzz")
    corpus = os.path.join(work, "corpus")
    os.makedirs(corpus)
    if data["corpus"] == "seeded":
        for i, s in enumerate(FUZZ_SEEDS):
            with open(os.path.join(corpus, f"seed{i}"), "w") as f:
                f.write(s)
    dict_path = os.path.join(work, "dict")
    with open(dict_path, "w") as f:
        f.write("\n".join(FUZZ_DICT) + "\n")
    report = os.path.join(work, "report.json")
    env = dict(os.environ, VERIF_REPO=boot.REPO, RESOURCES_FUZZ_REPORT=report, PYTHONHASHSEED="0")
    cmd = [sys.executable, FUZZ_SCRIPT, f"-runs={int(data['runs'])}", f"-seed={int(data['seed'])}", "-max_len=40",
           f"-dict={dict_path}", f"-artifact_prefix={work}/", corpus]  # fmt: skip
    try:
        p = subprocess.run(cmd, env=env, cwd=work, stdout=subprocess.PIPE, stderr=subprocess.STDOUT, text=True, timeout=900)
        rc, log = p.returncode, p.stdout
    except subprocess.TimeoutExpired:
        rc, log = -9, ""
        out.fail("fuzz-timeout", str(cmd))
    rep = {}
    if os.path.exists(report):
        try:
            with open(report) as f:
                rep = json.load(f)
        except ValueError:
            rep = {}
    boot.rm(work)
    if rc == 4 or rep.get("atheris_missing"):
        out.labels.append("atheris-missing")
        return out
    out.units = max(1, int(rep.get("execs", 0)))
    out.nontrivial = rep.get("accepted_mem", 0) + rep.get("accepted_time", 0) >= 100
    out.labels.append(f"accepted-mem-pairs>={min(int(rep.get('accepted_mem', 0)) // 1000 * 1000, 10000)}")
    out.labels.append(f"accepted-time-pairs>={min(int(rep.get('accepted_time', 0)) // 1000 * 1000, 10000)}")
    for bucket, info in sorted(rep.get("failures", {}).items()):
        out.fail("fuzz-" + bucket, f"input {info.get('input')!r}: {info.get('detail')}")
    if rc not in (0, 3) and not out.failures:
        out.fail("fuzz-target-crashed", f"rc={rc} log tail: {log[-400:]}")
    return out


def campaigns(tier):
    ops = st.lists(resources_spec(rich=True), min_size=1, max_size=4)
    upd = st.dictionaries(
        st.sampled_from(["cpus", "gpus", "memory", "time", "partition", "extra_args", "foo", "qos", "nodes"]),
        st.just(None),
        max_size=3,
    ).flatmap(
        lambda d: st.fixed_dictionaries(
            {
                k: {
                    "cpus": st.integers(1, 8),
                    "gpus": st.integers(0, 4),
                    "nodes": st.integers(1, 4),
                    "memory": _mem(),
                    "time": _time(),
                    "partition": st.sampled_from(["cpu", "gpu"]),
                    "extra_args": _extra(),
                    "foo": st.sampled_from(["x", 3]),
                    "qos": st.sampled_from(["hi", "lo"]),
                }[k]
                for k in d
            }
        )
    )
    return [
        Campaign("combine", body_combine, st.fixed_dictionaries({"operands": ops}), quick=3000, thorough=120000,
                 describe="combine_max over 1-4 operands"),
        Campaign("defaults", body_defaults,
                 st.fixed_dictionaries({"receiver": resources_spec(), "defaults": resources_spec(rich=True),
                                        "via": st.sampled_from(["with_defaults", "maybe_with_defaults"])}),
                 quick=2000, thorough=60000, describe="with_defaults / maybe_with_defaults"),
        Campaign("update", body_update, st.fixed_dictionaries({"receiver": resources_spec(), "update": upd}),
                 quick=2000, thorough=60000, describe="update(**kwargs)"),
        Campaign("roundtrip", body_roundtrip, st.fixed_dictionaries({"spec": resources_spec(rich=True)}),
                 quick=2000, thorough=60000, describe="dict/from_dict round trip, to_slurm_options"),
        Campaign("invalid", body_invalid, invalid_spec(), quick=1500, thorough=40000,
                 describe="single-fault invalid constructions"),
    ] + ([
        Campaign("fuzz", body_fuzz, st.fixed_dictionaries({"corpus": st.sampled_from(["empty", "seeded"]), "seed": st.integers(1, 2**31 - 1),
                                                           "runs": st.just(150000)}),
                 quick=0, thorough=8, shards_thorough=8, describe="atheris coverage-guided fuzzing of the memory/time validators (150k execs per run)"),
    ] if tier == "thorough" else [])  # fmt: skip


PREDICATES = {}

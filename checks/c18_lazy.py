"""C18 -- lazy pipelines evaluate to the eager result, at most once per node (DESIGN.md section 4, C18)."""

from __future__ import annotations

import json

import networkx as nx
from hypothesis import strategies as st

from vlib import boot  # noqa: F401
from vlib.core import Campaign, Outcome, exc_bucket, exc_detail
from vlib.dag import SharedLog, DagModel, build_pipeline, dag_programs, labels

from pipefunc._pipefunc import PipeFunc
from pipefunc.lazy import _LazyFunction, construct_dag

PID = "C18"
LEVEL = "exploration"
RULE = (
    "Hypothesis-generated DAG programs (as C02: diamonds, tuple outputs with tuple/dict pickers, shared parameters, "
    "defaults, bound, renames, nullary) built with lazy=True, cache_type in {None, 'lru'} with a drawn subset of "
    "cache=True functions; for every output (single and tuple names): pipeline(...) and run(full_output=True), with "
    "and without an enclosing construct_dag(). Oracle: empty call log before evaluate(); evaluate() equals the eager "
    "reference DAG evaluator; after evaluating every returned deferred object 1-3 times the call log equals exactly "
    "the model's executed calls, each once, in dependency order; under construct_dag() the recorded graph is acyclic, "
    "has exactly one node per executed function, and after contracting picker nodes its edge set equals the model's "
    "producer->consumer set. Non-trivial = DAG with a node consumed by >= 2 others or a tuple output with both names "
    "consumed; distinct by sha1 of the program."
)
ASSUMPTIONS = [
    "fault clause: a deferred object whose evaluation raised is expected to behave like the eager call when evaluated again (raise again while the node still fails, return the eager value once it succeeds)",
    "picker nodes that pipefunc inserts for tuple outputs are contracted; picker nodes nobody consumes are ignored",
    "HybridCache is not combined with lazy=True (pipefunc warns that durations are meaningless there)",
]


def _is_lazy(x) -> bool:
    return isinstance(x, _LazyFunction)


def _check_log(out: Outcome, tag: str, log, calls, m: DagModel):
    if sorted(log) != sorted(calls):
        out.fail(f"{tag}-calls", f"got {log!r} want {calls!r}")
        return
    executed = {c[0] for c in calls}
    seen = set()
    for name, _ in log:
        if not (m.deps(name) & executed) <= seen:
            out.fail(f"{tag}-order", f"{name} ran before its dependencies: {log!r}")
            return
        seen.add(name)


def _graph_check(out: Outcome, tag: str, tg, m: DagModel, calls):
    g = tg.graph
    if not nx.is_directed_acyclic_graph(g):
        out.fail(f"{tag}-graph-cyclic", str(list(g.edges)))
        return
    executed = [c[0] for c in calls]
    fnode: dict[int, str] = {}
    picker: dict[int, int] = {}  # picker node id -> producer node id
    for nid, lf in tg.mapping.items():
        if isinstance(lf.func, PipeFunc):
            fnode[nid] = lf.func.__name__
        else:
            src = [a for a in lf.args if _is_lazy(a)]
            if len(src) != 1:
                out.fail(f"{tag}-graph-unknown-node", repr(lf)[:200])
                return
            picker[nid] = src[0]._id
    names = sorted(fnode.values())
    if names != sorted(executed):
        out.fail(f"{tag}-graph-nodes", f"function nodes {names} want {sorted(executed)}")
        return
    inv = {v: k for k, v in fnode.items()}
    edges = set()
    for a, b in g.edges:
        if b in picker:
            if picker[b] != a:
                out.fail(f"{tag}-graph-picker-edge", f"{a}->{b}")
            continue
        src = picker.get(a, a)
        if src in picker:
            out.fail(f"{tag}-graph-picker-chain", f"{a}->{b}")
            continue
        if src not in fnode or b not in fnode:
            out.fail(f"{tag}-graph-unknown-edge", f"{a}->{b}")
            continue
        edges.add((fnode[src], fnode[b]))
    for nid in picker:
        if picker[nid] not in fnode:
            out.fail(f"{tag}-graph-picker-source", str(nid))
    want = {(d, f) for f in executed for d in m.deps(f) if d in executed}
    if edges != want:
        out.fail(f"{tag}-graph-edges", f"got {sorted(edges)} want {sorted(want)} missing {sorted(want - edges)} extra {sorted(edges - want)}")
    del inv


def body(data) -> Outcome:
    out = Outcome()
    prog, pick, cache_type = data["prog"], data["pick"], data["cache_type"]
    labs = labels(prog)
    out.labels = labs + [f"cache:{cache_type}"]
    out.nontrivial = "diamond" in labs or "multi_output_both_consumed" in labs
    from vlib import dag as _dag

    _dag._LOGS.clear()
    log: list = SharedLog()
    try:
        p = build_pipeline(prog, log, lazy=True, cache_type=cache_type)
    except Exception as e:
        # construction problems are C02's business (same generator); only count them
        out.labels.append("build-refused")
        del e
        return out
    m = DagModel(prog)
    targets: list = []
    for fn in prog["funcs"]:
        targets += list(fn["outs"])
        if len(fn["outs"]) > 1:
            targets.append(tuple(fn["outs"]))
    units = 0
    for ti, t in enumerate(targets):
        roots = m.needed_roots(t)
        kw = {}
        for i, r in enumerate(roots):
            if r in m.defaults and (pick >> ((ti + i) % 16)) & 1:
                continue
            kw[r] = f"V{r}#{ti}" if cache_type else f"V{r}"
        want, _, memo, raw, calls, _ = m.evaluate(t, kw)
        for mode in ("plain", "dag"):
            for style in ("call", "full_output"):
                units += 1
                tag = f"{mode}-{style}"
                del log[:]
                if cache_type:
                    # distinct root values per (target, mode, style) so that cached entries of earlier calls
                    # cannot satisfy this call (cross-call caching is C09's subject)
                    kw2 = {k: f"{v}/{mode}/{style}" for k, v in kw.items()}
                    want2, _, memo2, raw2, calls2, _ = m.evaluate(t, kw2)
                else:
                    kw2, want2, memo2, raw2, calls2 = kw, want, memo, raw, calls
                tg = None
                try:
                    # a fresh pipeline per call: entries cached by an earlier call must not satisfy this one
                    # (cross-call caching is C09's subject)
                    p = build_pipeline(prog, log, lazy=True, cache_type=cache_type)
                    if mode == "dag":
                        with construct_dag() as tg:
                            r = p(t, **kw2) if style == "call" else p.run(t, full_output=True, kwargs=dict(kw2))
                    else:
                        r = p(t, **kw2) if style == "call" else p.run(t, full_output=True, kwargs=dict(kw2))
                except Exception as e:
                    out.fail(exc_bucket(e, f"{tag}-raised"), exc_detail(e))
                    continue
                if log:
                    out.fail(f"{tag}-ran-before-evaluate", repr(log))
                    continue
                n_eval = 1 + (pick + ti) % 3
                try:
                    if style == "call":
                        if not _is_lazy(r):
                            out.fail(f"{tag}-not-deferred", type(r).__name__)
                            continue
                        vals = [r.evaluate() for _ in range(n_eval)]
                        if any(v != want2 for v in vals):
                            out.fail(f"{tag}-value", f"got {vals!r} want {want2!r}")
                    else:
                        if not isinstance(r, dict):
                            out.fail(f"{tag}-not-dict", type(r).__name__)
                            continue
                        for _ in range(n_eval):
                            for name, v in list(r.items()):
                                if name in kw2:
                                    continue
                                got = v.evaluate() if _is_lazy(v) else v
                                if isinstance(name, tuple):
                                    exp = raw2[m.producer[name[0]]["name"]]
                                else:
                                    exp = memo2.get(name, "<not computed by model>")
                                if got != exp:
                                    out.fail(f"{tag}-value", f"{name}: got {got!r} want {exp!r}")
                        for name in memo2:
                            tkey = tuple(m.producer[name]["outs"])
                            if name not in r and tkey not in r:
                                out.fail(f"{tag}-missing-intermediate", name)
                except Exception as e:
                    out.fail(exc_bucket(e, f"{tag}-evaluate-raised"), exc_detail(e))
                    continue
                _check_log(out, tag, list(log), calls2, m)
                if tg is not None:
                    _graph_check(out, tag, tg, m, calls2)
    # ---- several requests inside ONE construct_dag(): equal roots, one of them overriding an intermediate ----------
    for ti, t in enumerate(targets):
        if isinstance(t, tuple) or (pick + ti) % 3:
            continue
        cone = m.cone(t)
        inter = [o for f in cone for o in m.funcs[f]["outs"] if o != t and m.funcs[f]["name"] != m.producer[t]["name"]]
        if not inter:
            continue
        o = inter[(pick >> 3) % len(inter)]
        roots = m.needed_roots(t)
        kw = {r: f"V{r}" for r in roots}
        kw_cut = {k: v for k, v in kw.items() if k in m.touched(t, (o,))}
        kw_cut[o] = f"S:{o}"
        try:
            want_a, _, _, _, calls_a, _ = m.evaluate(t, kw)
            want_b, _, _, _, calls_b, used_b = m.evaluate(t, kw_cut)
        except Exception:
            continue
        if o not in used_b:
            continue
        units += 1
        del log[:]
        try:
            p = build_pipeline(prog, log, lazy=True, cache_type=cache_type)
            order = [(kw, want_a), (kw_cut, want_b), (kw, want_a)] if pick % 2 else [(kw_cut, want_b), (kw, want_a)]
            with construct_dag():
                lazies = [p(t, **k) for k, _ in order]
            vals = [lz.evaluate() for lz in lazies]
        except Exception as e:
            out.fail(exc_bucket(e, "dag-multi-raised"), exc_detail(e))
            continue
        for (k, want_v), got in zip(order, vals):
            if got != want_v:
                out.fail("dag-multi-request-value", f"{t} {sorted(k)}: got {got!r} want {want_v!r} (requests in one construct_dag: {[sorted(x) for x, _ in order]})")
                break
        out.labels.append("dag-multi")

    # ---- histories on ONE lazy pipeline object (its own cache, explicit or implied by a cache=True function) ----------
    # (a) the same request twice, evaluated after both were made: right value, no function more than once per history
    # (b) the same request in two construct_dag() blocks (optionally after a plain call): each block records the full graph
    # (c) a deferred value made before a block and supplied to a request inside it: the graph stays acyclic
    implied = cache_type is None and any(fn.get("cache") for fn in prog["funcs"])
    if cache_type == "lru" or implied:
        ti = (pick >> 2) % len(targets)
        t = targets[ti]
        kw = {r: f"V{r}~h" for r in m.needed_roots(t)}
        want, _, _, _, calls, _ = m.evaluate(t, kw)
        variant = (pick >> 6) % 3
        units += 1
        del log[:]
        try:
            p = build_pipeline(prog, log, lazy=True, cache_type=cache_type)
            if variant == 2 and cache_type == "lru":
                # the lazy pipeline is derived from an eager one: Pipeline.copy(lazy=True) of a pipeline with explicit cache options
                p = build_pipeline(prog, log, lazy=False, cache_type="lru", cache_kwargs={"max_size": 64}).copy(lazy=True)
                out.labels.append("history:lazy-copy-of-an-eager-cached-pipeline")
                variant = 0
            if variant == 0:
                out.labels.append("history:same-request-twice" + ("-implied-cache" if implied else ""))
                first, second = p(t, **kw), p(t, **kw)
                order = [second, first] if pick % 2 else [first, second]
                for x in order:
                    del log[:]
                    v = x.evaluate()
                    if v != want:
                        out.fail("history-repeat-value", f"got {v!r} want {want!r}")
                    names = [c[0] for c in log]  # one evaluate(): every function at most once (cached ones maybe not at all)
                    twice = sorted({n for n in names if names.count(n) > 1})
                    if twice:
                        out.fail("history-repeat-function-invoked-more-than-once-by-one-evaluate", f"{twice}: {names}",
                                 {"twice": twice, "target": t if isinstance(t, str) else list(t)})
                    elif not set(names) <= {c[0] for c in calls}:
                        out.fail("history-repeat-calls", f"got {names} want a subset of {[c[0] for c in calls]}")
            elif variant == 1:
                out.labels.append("history:two-dag-blocks" + ("-implied-cache" if implied else ""))
                if pick % 2:
                    p(t, **kw)  # a plain (deferred, never evaluated) request first
                for blk in (1, 2):
                    with construct_dag() as tg:
                        r = p(t, **kw)
                    if blk == 2:
                        del log[:]
                        v = r.evaluate()
                        if v != want:
                            out.fail("history-two-blocks-value", f"got {v!r} want {want!r}")
                    _graph_check(out, f"history-block{blk}", tg, m, calls)
        except Exception as e:
            out.fail(exc_bucket(e, "history-raised"), exc_detail(e))
    if not isinstance(targets[(pick >> 2) % len(targets)], tuple):
        t = targets[(pick >> 2) % len(targets)]
        cone = m.cone(t)
        inter = [o for f in cone for o in m.funcs[f]["outs"] if m.funcs[f]["name"] != m.producer[t]["name"] and len(m.funcs[f]["outs"]) == 1]
        if inter and (pick >> 8) % 2:
            o = inter[(pick >> 9) % len(inter)]
            kw_o = {r: f"V{r}~o" for r in m.needed_roots(o)}
            kw_t = {r: f"V{r}~o" for r in m.needed_roots(t, (o,))}
            try:
                want_o = m.evaluate(o, kw_o)[0]
                want_t, _, _, _, calls_t, used_t = m.evaluate(t, {**kw_t, o: want_o})
            except Exception:
                used_t = set()
            if o in used_t:
                units += 1
                del log[:]
                try:
                    p = build_pipeline(prog, log, lazy=True, cache_type=None)
                    # as in a fresh interpreter: node ids start at 0 (the outcome must not depend on how much lazy
                    # work this worker process has done before)
                    if hasattr(_LazyFunction, "_counter"):
                        _LazyFunction._counter = 0
                    outside = p(o, **kw_o)
                    with construct_dag() as tg:
                        r = p(t, **{**kw_t, o: outside})
                    g = tg.graph
                    out.labels.append("history:deferred-value-from-outside-the-block")
                    if not nx.is_directed_acyclic_graph(g):
                        out.fail("history-outside-value-graph-cyclic", str(list(g.edges)))
                    inside = {c[0] for c in calls_t}
                    fnodes = {nid: lf.func.__name__ for nid, lf in tg.mapping.items() if isinstance(lf.func, PipeFunc)}
                    if sorted(fnodes.values()) != sorted(inside):
                        out.fail("history-outside-value-graph-nodes", f"function nodes {sorted(fnodes.values())} want {sorted(inside)}")
                    v = r.evaluate()
                    if v != want_t:
                        out.fail("history-outside-value-value", f"got {v!r} want {want_t!r}")
                except Exception as e:
                    out.fail(exc_bucket(e, "history-outside-value-raised"), exc_detail(e))

    # ---- (d) inside ONE open block: request, evaluate, then a second request that differs in one root value: the
    # nodes that do not depend on that root are memoised (and already evaluated); every function node of the graph
    # must still have an in-edge from each of its producers
    t = targets[(pick >> 2) % len(targets)]
    roots_t = m.needed_roots(t)
    if roots_t and (pick >> 10) % 2:
        r_var = roots_t[(pick >> 11) % len(roots_t)]
        kw1 = {r: f"V{r}~d" for r in roots_t}
        kw2 = dict(kw1, **{r_var: f"V{r_var}~d2"})
        units += 1
        del log[:]
        try:
            want1, _, _, _, calls1, _ = m.evaluate(t, kw1)
            want2, _, _, _, calls2, _ = m.evaluate(t, kw2)
            p = build_pipeline(prog, log, lazy=True, cache_type=None)
            with construct_dag() as tg:
                a = p(t, **kw1)
                va = a.evaluate()
                b = p(t, **kw2)
            vb = b.evaluate()
            out.labels.append("history:evaluate-inside-an-open-block")
            if va != want1 or vb != want2:
                out.fail("history-open-block-value", f"got {va!r}, {vb!r} want {want1!r}, {want2!r}")
            g = tg.graph
            fname = {nid: lf.func.__name__ for nid, lf in tg.mapping.items() if isinstance(lf.func, PipeFunc)}
            pick_src = {nid: [x._id for x in lf.args if _is_lazy(x)] for nid, lf in tg.mapping.items() if not isinstance(lf.func, PipeFunc)}
            executed = {c[0] for c in calls1} | {c[0] for c in calls2}
            for nid, f in fname.items():
                srcs = set()
                for pred in g.predecessors(nid):
                    for x in (pick_src.get(pred) or [pred]):
                        if x in fname:
                            srcs.add(fname[x])
                missing = (m.deps(f) & executed) - srcs
                if missing:
                    out.fail("history-open-block-graph-edge-missing", f"node {f} has no edge from {sorted(missing)}; edges {sorted(g.edges)}")
                    break
        except Exception as e:
            out.fail(exc_bucket(e, "history-open-block-raised"), exc_detail(e))

    # ---- (f) inside ONE block: a request relying on a default, update_defaults, the same request again ------------------
    dflt_roots = [r for r in roots_t if r in m.defaults]
    if dflt_roots and (pick >> 13) % 2 and not isinstance(t, tuple):
        r_d = dflt_roots[(pick >> 14) % len(dflt_roots)]
        kw = {r: f"V{r}~f" for r in roots_t if r != r_d}
        prog2 = json.loads(json.dumps(prog))
        for fn_ in prog2["funcs"]:
            if r_d in fn_["params"] and r_d not in fn_["bound"]:
                fn_["pf_defaults"][r_d] = "Dnew"
        units += 1
        try:
            want_old = m.evaluate(t, kw)[0]
            want_new = DagModel(prog2).evaluate(t, kw)[0]
            p = build_pipeline(prog, log, lazy=True, cache_type=None)
            with construct_dag():
                a = p(t, **kw)
                p.update_defaults({r_d: "Dnew"})
                b = p(t, **kw)
            va, vb = a.evaluate(), b.evaluate()
            out.labels.append("history:update_defaults-inside-a-block")
            if vb != want_new:
                out.fail("history-update_defaults-in-block-stale" if vb == want_old else "history-update_defaults-in-block-value",
                         f"second request got {vb!r} want {want_new!r} (before the update: {want_old!r})")
            elif va != want_old:
                out.fail("history-update_defaults-in-block-first-request-value", f"got {va!r} want {want_old!r}")
        except Exception as e:
            out.fail(exc_bucket(e, "history-update_defaults-in-block-raised"), exc_detail(e))

    # ---- (e) a block whose body raises: afterwards no task graph is active and nothing of the block is reused --------
    if (pick >> 12) % 2 and not isinstance(t, tuple):
        from pipefunc.lazy import task_graph

        kw = {r: f"V{r}~e" for r in roots_t}
        units += 1
        try:
            p = build_pipeline(prog, log, lazy=True, cache_type=None)
            try:
                with construct_dag():
                    p(t, **kw)
                    raise KeyboardInterrupt  # anything the body of the block may raise
            except KeyboardInterrupt:
                pass
            out.labels.append("history:block-left-by-an-exception")
            if task_graph() is not None:
                out.fail("history-block-exception-task-graph-still-active", "")
            m2 = DagModel(prog, version="v2")
            want_v2 = m2.evaluate(t, kw)[0]
            del log[:]
            p2 = build_pipeline(prog, log, version="v2", lazy=True, cache_type=None)
            got = p2(t, **kw).evaluate()
            if got != want_v2:
                out.fail("history-block-exception-later-pipeline-gets-nodes-of-the-dead-block", f"got {got!r} want {want_v2!r}")
        except Exception as e:
            out.fail(exc_bucket(e, "history-block-exception-raised"), exc_detail(e))
        finally:
            import pipefunc.lazy as _lz

            _lz._TASK_GRAPH = None  # keep a leaked graph from spoiling the rest of this process

    # ---- a failing node: evaluate() must behave like the eager call, also when evaluated again ---------------------
    ti = pick % len(targets)
    t = targets[ti]
    if not isinstance(t, tuple):
        roots = m.needed_roots(t)
        kw = {r: f"V{r}" for r in roots}
        want, executed, _, _, calls, _ = m.evaluate(t, kw)
        victim = executed[(pick >> 5) % len(executed)]
        transient = bool((pick // 3) % 2)
        state = {"n": 0}

        def fail(fname, a):
            if fname == victim:
                state["n"] += 1
                if not transient or state["n"] == 1:
                    raise RuntimeError(f"injected failure in {fname}")

        units += 1
        del log[:]
        try:
            p = build_pipeline(prog, log, fail=fail, lazy=True, cache_type=None)
            lz = p(t, **kw)
        except Exception as e:
            out.fail(exc_bucket(e, "fault-call-raised"), exc_detail(e))
            lz = None
        if lz is not None:
            out.labels.append("fault-transient" if transient else "fault-permanent")
            try:
                r1 = lz.evaluate()
                out.fail("fault-first-evaluate-did-not-raise", repr(r1)[:200])
            except RuntimeError:
                pass
            except Exception as e:
                out.fail(exc_bucket(e, "fault-wrong-exception"), exc_detail(e))
            try:
                r2 = lz.evaluate()
                if not transient:
                    out.fail("fault-second-evaluate-returned-although-node-still-fails", repr(r2)[:200])
                elif r2 != want:
                    out.fail("fault-retry-value", f"got {r2!r} want {want!r}")
            except RuntimeError:
                if transient:
                    out.fail("fault-retry-raised-although-failure-was-transient", "")
            except Exception as e:
                out.fail(exc_bucket(e, "fault-retry-wrong-exception"), exc_detail(e))
    out.units = units
    return out


def _base_campaigns(tier):
    strat = st.fixed_dictionaries(
        {
            "prog": dag_programs(max_funcs=6, min_funcs=2, cache=True, allow_none=True),
            "pick": st.integers(0, 2**16 - 1),
            "cache_type": st.sampled_from([None, None, "lru", "simple"]),
        }
    )
    return [Campaign("lazy", body, strat, quick=2500, thorough=40000, describe="lazy DAG programs x outputs x {plain, construct_dag} x {call, full_output}")]


def _pred_shared_by_cached_and_uncached(case, failure) -> bool:
    """C18 finding: the pipeline cache of a lazy pipeline memoises *deferred objects*. When the same request is made
    again, a cached function hands back the deferred object of the first request (whose upstream nodes belong to the
    first request) while an uncached consumer of the same upstream function gets a new deferred object with new
    upstream nodes: a function that is reachable from the target both through a cached function and along a path
    of uncached functions is then invoked once per path by a single evaluate()."""
    info = failure.info or {}
    if "more-than-once-by-one-evaluate" not in failure.bucket or not info.get("twice"):
        return False
    prog = case["data"]["prog"]
    m = DagModel(prog)
    cached = {fn["name"] for fn in prog["funcs"] if fn.get("cache")}
    t = info["target"]
    top = m.producer[t if isinstance(t, str) else t[0]]["name"]

    def reach(start, through_uncached_only):
        seen, stack = set(), [start]
        while stack:
            f = stack.pop()
            for d in m.deps(f):
                if d not in seen:
                    seen.add(d)
                    if not (through_uncached_only and d in cached):
                        stack.append(d)
        return seen

    for u in info["twice"]:
        if u in cached:
            return False
        fresh_path = top not in cached and u in reach(top, True)
        via_cached = any(u in reach(c, False) for c in cached if c == top or c in reach(top, False))
        if not (fresh_path and via_cached):
            return False
    return True


PREDICATES = {"shared_by_cached_and_uncached": _pred_shared_by_cached_and_uncached}


def campaigns(tier):
    camps = list(_base_campaigns(tier))
    if tier == "thorough":  # coverage-guided search over the same structured cases (fuzz/hyp_fuzz.py)
        from vlib.core import cov_fuzz_campaign

        camps.append(cov_fuzz_campaign(PID, [('lazy', 6000)]))
    return camps

"""C11 -- selecting outputs / supplying intermediates keeps values and runs only needed work (DESIGN.md C11)."""

from __future__ import annotations

import json

import numpy as np
from hypothesis import strategies as st

from vlib import boot  # noqa: F401
from vlib import mapprog as mp
from vlib.core import Campaign, Outcome, exc_bucket, exc_detail
from vlib.dag import DagModel, Missing, build_pipeline, dag_programs, labels

PID = "C11"
LEVEL = "exploration"
RULE = (
    "Hypothesis-generated DAG programs (nullary, defaults-only and bound-only functions included) x a drawn non-empty "
    "set S of requested outputs x a drawn cut (set of functions whose used outputs are supplied) giving the provided "
    "names I = supplied intermediates + the roots still needed (roots with defaults optionally omitted); oracle = "
    "reference DAG evaluator with I substituted and its executed-call set. subpipeline(inputs=I, output_names=S) "
    "(called and mapped), map(I, output_names=S) (root-only I) and map(I, auto_subpipeline=True, output_names=S) must "
    "succeed, give the model's values for S and call exactly the model's functions once each; with one required name "
    "removed from I each entry point must raise an error whose message names a missing name. Second campaign: "
    "MapPrograms with map(output_names=S) against the MapSpec denotation restricted to the dependency cone. "
    "Non-trivial = S a strict subset of the outputs or I containing an intermediate; distinct by sha1 of (program, S, cut)."
)
ASSUMPTIONS = [
    "I never contains names irrelevant to S (surplus inputs are C12's subject)",
    "a tuple-output function is cut as a whole: all of its used outputs are supplied, or none",
    "in the not-computable case the missing name is a root argument without default that S still needs",
]


def _bits(n: int, k: int) -> list[int]:
    return [i for i in range(k) if n >> i & 1]


def body_dag(data) -> Outcome:
    out = Outcome()
    prog = data["prog"]
    labs = labels(prog)
    m = DagModel(prog)
    outs = m.all_outputs()
    S = [outs[i] for i in _bits(data["s_bits"], len(outs))] or [outs[data["s_bits"] % len(outs)]]
    # candidate functions to cut: in the cone of S, not producing anything in S
    cone = m.cone(tuple(S))
    cand = [f for f in cone if not (set(m.funcs[f]["outs"]) & set(S))]
    cut = [cand[i] for i in _bits(data["cut_bits"], len(cand))]
    cut_outs = [o for f in cut for o in m.funcs[f]["outs"]]
    supplied_all = {o: f"S:{o}" for o in cut_outs}
    roots_needed = m.needed_roots(tuple(S), tuple(cut_outs))
    vals = dict(supplied_all)
    cone_after_cut = m.cone(tuple(S), tuple(cut_outs))
    declared_in_cone = {
        p
        for f in cone_after_cut
        for p in list(m.funcs[f]["sig_defaults"]) + list(m.funcs[f]["pf_defaults"])
        if p not in m.funcs[f]["bound"]
    }
    default_outside = False
    for i, r in enumerate(roots_needed):
        if r in m.defaults and (data["pick"] >> (i % 16)) & 1:
            if r in declared_in_cone:
                continue  # rely on the default
            if (data["pick"] >> 12) % 8 == 0:
                default_outside = True  # rely on a default declared only by a function outside the cone
                continue
        vals[r] = f"V{r}"
    # which supplied names are really used
    used_names: set[str] = set()
    want: dict[str, str] = {}
    calls: list = []
    try:
        for s in S:
            v, _, _, _, c, used = m.evaluate(s, vals)
            want[s] = v
            used_names |= used
            for x in c:
                if x not in calls:
                    calls.append(x)
    except Missing as e:
        raise AssertionError(f"model: {e}") from e
    I = {k: v for k, v in vals.items() if k in used_names or (k in roots_needed)}
    I = {k: v for k, v in I.items() if k not in supplied_all or k in used_names}
    inter = [k for k in I if k in supplied_all]
    out.labels = labs + (["cut"] if inter else ["root-only"]) + (["strict-subset"] if len(S) < len(outs) else ["all-outputs"])
    special = [f for f in (c[0] for c in calls) if not [p for p in m.funcs[f]["params"] if p not in m.funcs[f]["bound"] and p not in m.defaults]]
    if special:
        out.labels.append("cone-has-inputless-function")
    if default_outside:
        out.labels.append("default-declared-outside-cone")
    out.nontrivial = bool(inter) or len(S) < len(outs)
    log: list = []
    try:
        p = build_pipeline(prog, log)
    except Exception:
        out.labels.append("build-refused")
        return out
    want_calls = sorted(calls)
    units = 0

    def check_map(tag, fn):
        nonlocal units
        units += 1
        del log[:]
        try:
            res = fn()
        except Exception as e:
            out.fail(exc_bucket(e, f"{tag}-refused"), f"S={S} I={sorted(I)}: {exc_detail(e)}",
                     {"S": S, "I": sorted(I), "default_outside": default_outside})
            return
        for s in S:
            if s not in res:
                out.fail(f"{tag}-missing-output", s)
            elif res[s].output != want[s]:
                out.fail(f"{tag}-value", f"{s}: got {res[s].output!r} want {want[s]!r}")
        if sorted(log) != want_calls:
            out.fail(f"{tag}-calls", f"S={S} I={sorted(I)} got {sorted(log)} want {want_calls}")

    kw = dict(parallel=False, storage="dict")
    sub = None
    try:
        units += 1
        sub = p.subpipeline(inputs=set(I), output_names=set(S))
    except Exception as e:
        out.fail(exc_bucket(e, "subpipeline-refused"), f"S={S} I={sorted(I)}: {exc_detail(e)}",
                 {"S": S, "I": sorted(I), "default_outside": default_outside})
    if sub is not None:
        check_map("subpipeline-map", lambda: sub.map(dict(I), **kw))
        for s in S:
            units += 1
            del log[:]
            needed_here = m.touched(s, tuple(inter))
            kws = {k: v for k, v in I.items() if k in needed_here}
            try:
                got = sub(s, **kws)
                if got != want[s]:
                    out.fail("subpipeline-call-value", f"{s}: got {got!r} want {want[s]!r}")
            except Exception as e:
                out.fail(exc_bucket(e, "subpipeline-call-raised"), exc_detail(e))
    if not inter:
        check_map("map-output_names", lambda: p.map(dict(I), output_names=set(S), **kw))
    check_map("map-auto_subpipeline", lambda: p.map(dict(I), output_names=set(S), auto_subpipeline=True, **kw))
    if not inter and len(S) == len(outs):
        check_map("map-plain", lambda: p.map(dict(I), **kw))

    # ---- map(auto_subpipeline=True) without output_names: the requested outputs are the leaves -----------
    consumed = {q for f in m.funcs.values() for q in f["params"] if q not in f["bound"]}
    # pipefunc's notion of a leaf is a *function* none of whose outputs is consumed: an unconsumed component of a
    # tuple output whose sibling is consumed is not selected by default
    leaves = [o for f in m.funcs.values() if not (set(f["outs"]) & consumed) for o in f["outs"]]
    cand2 = [f for f in m.cone(tuple(leaves)) if not (set(m.funcs[f]["outs"]) & set(leaves))]
    cut2 = [cand2[i] for i in _bits(data["cut_bits"], len(cand2))]
    sup2 = {o: f"S:{o}" for f in cut2 for o in m.funcs[f]["outs"]}
    vals2 = dict(sup2)
    vals2.update({r: f"V{r}" for r in m.needed_roots(tuple(leaves), tuple(sup2))})
    want2: dict = {}
    calls2: list = []
    used2: set = set()
    for s in leaves:
        v, _, _, _, c, used = m.evaluate(s, vals2)
        want2[s] = v
        used2 |= used
        calls2 += [x for x in c if x not in calls2]
    I3 = {k: v for k, v in vals2.items() if k in used2}
    # every leaf must be downstream of something supplied (otherwise the leaf is not part of the selection)
    def fed_by(s):
        return {q for f in m.cone(s, tuple(sup2)) for q in m.funcs[f]["params"] if q not in m.funcs[f]["bound"]}

    if leaves and I3 and all(fed_by(s) & set(I3) for s in leaves):
        units += 1
        del log[:]
        try:
            res = p.map(dict(I3), auto_subpipeline=True, **kw)
            for s in leaves:
                if s not in res:
                    out.fail("map-auto_subpipeline-no-names-missing-output", s)
                elif res[s].output != want2[s]:
                    out.fail("map-auto_subpipeline-no-names-value", f"{s}: got {res[s].output!r} want {want2[s]!r}")
            if sorted(log) != sorted(calls2):
                out.fail("map-auto_subpipeline-no-names-calls", f"I={sorted(I3)} got {sorted(log)} want {sorted(calls2)}")
        except Exception as e:
            out.fail(exc_bucket(e, "map-auto_subpipeline-no-names-refused"), f"I={sorted(I3)}: {exc_detail(e)}", {"I": sorted(I3)})
        out.labels.append("auto_subpipeline-without-output_names" + ("-cut" if any(k in sup2 for k in I3) else "-roots"))

    # ---- two selections into ONE run folder (cleanup=False): a first run from the roots, then the same outputs from
    # the cut.  The second call may refuse (the folder holds a run with other inputs) but must never return what the
    # first run stored
    if inter and not out.failures and (data["pick"] >> 9) % 2:
        roots_all = {r: f"V{r}" for r in m.needed_roots(tuple(S))}
        folder = boot.fresh_path("c11rf")
        try:
            want_root = {s_: m.evaluate(s_, roots_all)[0] for s_ in S}
            p.map(dict(roots_all), output_names=set(S), run_folder=folder, parallel=False)
        except Exception:
            want_root = None
        if want_root is not None and any(want_root[s_] != want[s_] for s_ in S):
            units += 1
            out.labels.append("second-selection-into-the-same-run-folder")
            try:
                res = p.map(dict(I), output_names=set(S), auto_subpipeline=True, run_folder=folder, cleanup=False, parallel=False)
                for s_ in S:
                    if s_ in res and res[s_].output != want[s_]:
                        stale = res[s_].output == want_root[s_]
                        out.fail("run-folder-reuse-" + ("returned-the-previous-run's-value" if stale else "value"),
                                 f"{s_}: got {res[s_].output!r} want {want[s_]!r} (first run from the roots: {want_root[s_]!r})")
                        break
            except ValueError:
                out.labels.append("second-selection-refused")
            except Exception as e:
                out.fail(exc_bucket(e, "run-folder-reuse-raised"), exc_detail(e))
        boot.rm(folder)

    # ---- the same request again after the pipeline was changed in place (a bound value set through a function handle)
    if not out.failures and (data["pick"] >> 10) % 2:
        # (a root without any default: binding a defaulted root would move the request into the domain of the recorded
        # finding "default declared outside the cone")
        def free_roots(f):
            return [q for q in m.funcs[f]["params"] if q not in m.funcs[f]["bound"] and q not in m.producer and q not in m.defaults]

        cone_fs = [f for f in cone_after_cut if free_roots(f)]
        if cone_fs:
            f = cone_fs[(data["pick"] >> 11) % len(cone_fs)]
            cands = free_roots(f)
            q = cands[(data["pick"] >> 13) % len(cands)]
            prog2 = json.loads(json.dumps(prog))
            for fn in prog2["funcs"]:
                if fn["name"] == f:
                    fn["bound"][q] = "Bnew"
            m2 = DagModel(prog2)
            try:
                p[m.funcs[f]["outs"][0]].update_bound({q: "Bnew"})
                need2 = set(m2.needed_roots(tuple(S), tuple(cut_outs)))
                I4 = {k: v for k, v in I.items() if k in need2 or k in supplied_all}
                want4 = {s_: m2.evaluate(s_, I4)[0] for s_ in S}
            except Exception:
                want4 = None
            if want4 is not None:
                units += 1
                out.labels.append("same-request-after-update_bound")
                try:
                    res = p.map(dict(I4), output_names=set(S), auto_subpipeline=True, **kw)
                    for s_ in S:
                        if s_ not in res or res[s_].output != want4[s_]:
                            out.fail("request-after-update_bound-value", f"{s_}: got {res[s_].output if s_ in res else None!r} want {want4[s_]!r}")
                            break
                except Exception as e:
                    out.fail(exc_bucket(e, "request-after-update_bound-refused"), f"S={S} I={sorted(I4)} bound {q} of {f}: {exc_detail(e)}")
            return_after_mutation = True
        else:
            return_after_mutation = False
        if return_after_mutation:
            out.units = units
            return out  # `p` is no longer the pipeline of `prog`

    # ---- not computable: remove one required root -----------------------------------------------------
    required = [r for r in roots_needed if r in I and r not in m.defaults]
    if required:
        x = required[data["pick"] % len(required)]
        I2 = {k: v for k, v in I.items() if k != x}
        entry = [
            ("subpipeline", lambda: p.subpipeline(inputs=set(I2), output_names=set(S))),  # the construction itself refuses
            ("map-auto_subpipeline", lambda: p.map(dict(I2), output_names=set(S), auto_subpipeline=True, **kw)),
        ]
        if not inter:
            entry.append(("map-output_names", lambda: p.map(dict(I2), output_names=set(S), **kw)))
        if not inter and len(S) == len(outs):
            entry.append(("map-plain", lambda: p.map(dict(I2), **kw)))
        for tag, fn in entry:
            units += 1
            del log[:]
            try:
                fn()
            except Exception as e:
                if x not in str(e):
                    out.fail(f"{tag}-error-does-not-name-missing", f"missing {x}: {exc_detail(e)}")
                if log:
                    out.fail(f"{tag}-ran-user-code-before-rejecting", repr(log))
                continue
            out.fail(f"{tag}-accepted-incomputable", f"S={S} I={sorted(I2)} missing {x}")
    out.units = units
    return out


def body_map(data) -> Outcome:
    out = Outcome()
    prog = data["prog"]
    names = mp.output_names(prog)
    S = [names[i] for i in _bits(data["s_bits"], len(names))] or [names[data["s_bits"] % len(names)]]
    prod = mp.func_of_output(prog)
    cone: list[str] = []

    def visit(name):
        if name in prod and prod[name]["name"] not in cone:
            cone.append(prod[name]["name"])
            for p_ in prod[name]["params"]:
                visit(p_["name"])

    for s in S:
        visit(s)
    cone_outs = {o for fn in prog["funcs"] if fn["name"] in cone for o in fn["outs"]}
    roots = [r for r in prog["roots"] if any(p_["name"] == r for fn in prog["funcs"] if fn["name"] in cone for p_ in fn["params"])]
    inputs = {r: mp.root_value(r, prog["roots"][r], prog["sizes"]) for r in roots}
    out.labels = mp.labels(prog) + (["strict-subset"] if len(cone) < len(prog["funcs"]) else ["whole"])
    out.nontrivial = len(cone) < len(prog["funcs"]) and any(fn["mapspec"] for fn in prog["funcs"] if fn["name"] in cone)
    log: list = []

    class L:
        def append(self, e):
            if e[0] == "start":
                log.append(e[1])

    try:
        p = mp.build_pipeline(prog, L())
    except Exception:
        out.labels.append("build-refused")
        return out
    ish = mp.internal_shapes_arg(prog)
    if ish:
        ish = {k: v for k, v in ish.items() if k in cone_outs} or None
    try:
        res = p.map(inputs, output_names=set(S), internal_shapes=ish, parallel=False, storage=mp.storage_arg(prog) if isinstance(prog["storage"], str) else "dict")
    except Exception as e:
        out.fail(exc_bucket(e, "map-output_names-refused"), f"S={S}: {exc_detail(e)}")
        return out
    ref = mp.denotation(prog, only=cone_outs)
    for s in S:
        if s not in res:
            out.fail("map-output_names-missing-output", s)
        elif mp.canon(res[s].output) != mp.canon(ref[s]):
            out.fail("map-output_names-value", f"{s}: got {str(mp.canon(res[s].output))[:200]} want {str(mp.canon(ref[s]))[:200]}")
    counts = mp.expected_call_counts(prog)
    want = {f: counts[f] for f in cone}
    got = {f: log.count(f) for f in set(log)}
    if got != want:
        out.fail("map-output_names-calls", f"S={S}: got {got} want {want}")
    # ---- selection + fixed_indices: an axis that only functions *outside* the selection reduce can be fixed ----------
    from checks.c06_partial import independent_axes, never_named_axis

    sub_prog = dict(prog, funcs=[fn for fn in prog["funcs"] if fn["name"] in cone])
    ind_sub = independent_axes(sub_prog)
    if ind_sub and never_named_axis(sub_prog):
        # C06's recorded finding (mapspec_axes has no name for an axis that is ':' everywhere; every fixed_indices
        # request on such a pipeline raises KeyError) is excluded by construction here and counted
        out.labels.append("excluded:C06-axis-never-named")
    elif ind_sub and not out.failures:
        a = ind_sub[data["s_bits"] % len(ind_sub)]
        k = (data["s_bits"] // 3) % prog["sizes"][a]
        if a not in independent_axes(prog):
            out.labels.append("fixed-axis-reduced-outside-the-selection")
        del log[:]
        try:
            res = p.map(inputs, output_names=set(S), fixed_indices={a: k}, internal_shapes=ish, parallel=False,
                        storage=mp.storage_arg(prog) if isinstance(prog["storage"], str) else "dict")  # fmt: skip
        except Exception as e:
            out.fail(exc_bucket(e, "map-output_names-fixed_indices-refused"), f"S={S} fixed {a}={k}: {exc_detail(e)}")
            return out
        for s_ in S:
            fn = prod[s_]
            if not fn["mapspec"] or a not in fn["out_axes"] or s_ not in res:
                continue
            key = tuple(k if ax == a else slice(None) for ax in fn["out_axes"])
            try:
                g = mp.canon(np.ma.getdata(res[s_].output)[key])
                w = mp.canon(np.asarray(ref[s_], dtype=object)[key])
            except Exception as e:
                out.fail(f"map-output_names-fixed_indices-unreadable:{type(e).__name__}", f"{s_}: {exc_detail(e)}")
                continue
            if g != w:
                out.fail("map-output_names-fixed_indices-value", f"{s_}[{a}={k}]: got {str(g)[:200]} want {str(w)[:200]}")
        out.labels.append("selection-with-fixed_indices")
    return out


def campaigns(tier):
    dag = st.fixed_dictionaries(
        {
            "prog": dag_programs(max_funcs=6, min_funcs=2, allow_renames=False, consistent_ignored_defaults=True),
            "s_bits": st.integers(0, 2**10 - 1),
            "cut_bits": st.integers(0, 2**6 - 1),
            "pick": st.integers(0, 2**16 - 1),
        }
    )
    mpc = st.fixed_dictionaries(
        {"prog": mp.map_programs(storages=("dict", "file_array"), min_funcs=2), "s_bits": st.integers(0, 2**8 - 1)}
    )
    return [
        Campaign("dag", body_dag, dag, quick=2500, thorough=40000, describe="DAG programs x S x cut"),
        Campaign("map", body_map, mpc, quick=600, thorough=10000, describe="MapPrograms x S via map(output_names=S)"),
    ]


def _pred_default_outside(case, failure) -> bool:
    """C11 finding: a root argument's default is declared only by functions that the sub-pipeline drops; the
    sub-pipeline then has no default for it and refuses ('would require' / 'Missing inputs') although the full
    pipeline computes S with that default."""
    info = failure.info or {}
    if not info.get("default_outside"):
        return False
    if "-refused" not in failure.bucket:
        return False
    prog = case["data"]["prog"]
    m = DagModel(prog)
    import re

    named = set(re.findall(r"'([A-Za-z0-9_]+)'", failure.detail.split(": ", 1)[-1])) | set(
        re.findall(r"`([A-Za-z0-9_, ]+)`", failure.detail)
    )
    flat = {n.strip() for x in named for n in x.split(",")}
    missing = {r for r in flat if r in m.defaults and r not in info.get("I", [])}
    return bool(missing)


PREDICATES = {"default_declared_outside_cone": _pred_default_outside}

"""C01 -- map results equal the MapSpec denotation (DESIGN.md section 4, C01)."""

from __future__ import annotations

import gc

import numpy as np
from hypothesis import strategies as st

from vlib import boot
from vlib import mapprog as mp
from vlib.core import Campaign, Outcome, exc_bucket, exc_detail

PID = "C01"
LEVEL = "exploration"
RULE = (
    "Hypothesis-generated MapPrograms: 1-3 root inputs of rank 0-3 (sizes 1-3 per index name, 1-D as list or "
    "ndarray), 1-4 tracer functions with or without MapSpec; parameters indexed / partially ':'-sliced / fully "
    "sliced / unlisted; output axes a drawn permutation of the input indices plus 0-2 internal axes at any "
    "position; generator functions '... -> v[j]'; auto-generated MapSpecs for producers consumed through an index; "
    "tuple outputs (tuple/dict pickers); storage uniform or per output over every registered backend. Each is run "
    "with Pipeline.map(parallel=False, run_folder=...) and every output's Result.output and load_outputs(...) are "
    "compared by value and shape with an independent denotation evaluator; any exception on a generator-valid "
    "program is a failure. Non-trivial = at least one MapSpec function and one of {>=2 index names, ':', internal "
    "axis, tuple output, reduction, autogen, rank>=2, zip, outer}; distinct by sha1 of the program."
)
ASSUMPTIONS = [
    "container type of delivered slices/results (list, ndarray, MaskedArray) is not compared, only values, maskedness and shape",
    "rank >= 2 inputs and rank >= 2 internal blocks are ndarrays (pipefunc documents that nested lists are not accepted for >1-D inputs)",
    "zarr backends are not registered in this environment",
]


def run_program(prog: dict, out: Outcome, run_folder: str, **map_kwargs):
    """Build + map; returns (pipeline, results) or None after recording a failure."""
    try:
        pipe = mp.build_pipeline(prog)
    except Exception as e:
        out.fail(exc_bucket(e, "build-refused"), exc_detail(e))
        return None
    kw = dict(parallel=False, storage=mp.storage_arg(prog), run_folder=run_folder)
    kw.update(map_kwargs)
    try:
        res = pipe.map(mp.make_inputs(prog), internal_shapes=mp.internal_shapes_arg(prog), **kw)
    except Exception as e:
        out.fail(exc_bucket(e, "map-refused"), exc_detail(e))
        return None
    return pipe, res


def compare_outputs(prog: dict, out: Outcome, ref: dict, getter, tag: str) -> None:
    prod = mp.func_of_output(prog)
    for o in mp.output_names(prog):
        try:
            got = getter(o)
        except Exception as e:
            out.fail(exc_bucket(e, f"{tag}-raised"), f"{o}: {exc_detail(e)}")
            continue
        exp = ref[o]
        cg, ce = mp.canon(got), mp.canon(exp)
        if cg != ce:
            kind = "shape" if mp.shape_of(got) != mp.shape_of(exp) else ("masked" if mp.MASKED in str(cg) else "value")
            out.fail(f"{tag}-{kind}", f"{o}: got {str(cg)[:250]} want {str(ce)[:250]}")
        elif prod[o]["out_axes"] and np.shape(got) != np.shape(exp) and np.ndim(got) != 0:
            out.fail(f"{tag}-npshape", f"{o}: got {np.shape(got)} want {np.shape(exp)}")


def body(data) -> Outcome:
    out = Outcome()
    prog = data
    labs = mp.labels(prog)
    out.labels = labs
    out.nontrivial = any(fn["mapspec"] for fn in prog["funcs"]) and mp.nontrivial(labs)
    folder = boot.fresh_path("c01")
    try:
        r = run_program(prog, out, folder)
        if r is None:
            return out
        _, res = r
        ref = mp.denotation(prog)
        compare_outputs(prog, out, ref, lambda o: res[o].output, "result")
        from pipefunc.map import load_outputs

        compare_outputs(prog, out, ref, lambda o: load_outputs(o, run_folder=folder), "load_outputs")
        missing = [o for o in mp.output_names(prog) if o not in res]
        if missing:
            out.fail("result-missing-output", missing)
    finally:
        gc.collect()
        boot.rm(folder)
    return out


def campaigns(tier):
    return [
        Campaign("map", body, mp.map_programs(allow_root_defaults=True), quick=3200, thorough=36000, describe="MapPrograms, sequential map into a run folder"),
    ]


def _pred_autogen_order(case, failure) -> bool:
    """C01 finding: the MapSpec auto-generated for a producer without MapSpec is fixed when the *first* consumer
    is added; if that consumer uses ':' on an axis that a later-listed consumer names, the invented 'unnamed_k'
    axis collides with the name and the pipeline is refused (listing the consumers in the other order works)."""
    import re

    prog = case["data"]
    m = re.search(r"MapSpec axes for `([^`]*)` are inconsistent", failure.detail)
    if not m or "unnamed_" not in failure.detail:
        return False
    arr = m.group(1)
    prod = mp.func_of_output(prog).get(arr)
    if prod is None or prod["mapspec"]:
        return False
    specs = [p["spec"] for fn in prog["funcs"] for p in fn["params"] if p["name"] in prod["outs"] and p["spec"] is not None]
    for a in range(len(specs)):
        for b in range(a + 1, len(specs)):
            if any(x is None and y is not None for x, y in zip(specs[a], specs[b])):
                return True
    return False


PREDICATES = {"autogen_mapspec_fixed_by_first_consumer": _pred_autogen_order}

"""C15 -- cache keys identify argument values: equal key iff equal value (DESIGN.md section 4, C15).

Everything is driven by JSON *recipes* (see ``build``) so that the very same value can be rebuilt in this
process, in a replay, and in two worker interpreters that run with other hash seeds.  The reference is
``canon`` -- an independent structural normal form of the *built Python values* (it never looks at pipefunc):

    canon(a, strict) == canon(b, strict)          -> the values are equal and of the same type     ("equal")
    canon(a, loose)  != canon(b, loose)           -> they differ in container type / structure /
                                                     significant order / content                   ("differ")
    otherwise (1 vs 1.0 vs True, deque maxlen, defaultdict factory, array typecode,
               pandas dtype, Counter zero entries)                                                 ("neither")
"""

from __future__ import annotations

import array
import atexit
import collections
import copy
import itertools
import json
import os
import pickle
import select
import subprocess
import sys

import numpy as np
import pandas as pd
from hypothesis import strategies as st

from vlib import boot
from vlib.core import Campaign, Outcome, exc_bucket, exc_detail

from pipefunc.cache import DiskCache, HybridCache, LRUCache, SimpleCache, memoize, to_hashable

PID = "C15"
LEVEL = "exploration"
RULE = (
    "Values are built from JSON recipes (ints, bools, floats, complex, str, bytes, None, tuple, list, set, frozenset, "
    "dict, OrderedDict, defaultdict, Counter, deque, bytearray, array.array, ndarray over 14 dtypes incl. object / "
    "0-d / empty / non-contiguous buffers, pandas Series/DataFrame with drawn index labels and order, plain picklable "
    "objects with __eq__ and no __hash__; depth <= 3, sets/dict keys drawn from one orderable family). Pair campaigns "
    "draw a base value and one structural edit that is applicable to it (same / insertion-order permutation / other "
    "buffer layout => intended equal; container retype, one leaf, length, order in an order-significant container, "
    "dtype, shape, pandas index label / row order / column order / name => intended different; numeric-tower sibling "
    "=> intended neither) or two independent values; the verdict comes from an independent normal form canon() of the "
    "*built* values: strict-equal => keys must be equal with equal hash, loose-different => keys must be unequal, "
    "numeric-tower-only differences are in neither class; to_hashable must return and hash(key) must succeed for "
    "every value. 'hard' campaign: un-orderable / partially ordered keys, object arrays with unhashable elements, "
    "duplicate index labels. 'cross': batches of 14-15 recipes are rebuilt by two worker interpreters "
    "(PYTHONHASHSEED=1 and 4242, started once per shard, closed by an exit finalizer); the unpickled keys of natively "
    "handled values must equal each other and the harness key (PYTHONHASHSEED=0). 'memo': a memoize-d tracer returning "
    "canon(loose) of its own arguments, over Simple/LRU/Hybrid/Disk(with and without LRU) caches, must return for "
    "each call of a 3-7 call sequence (look-alike arguments, positional and keyword) a value equal to the tracer value "
    "of that call. Non-trivial = pair (batch element / call sequence of >= 3 calls) of depth >= 2 or involving "
    "ndarray/pandas; distinct by sha1 of the case; look-alike pairs are ~55 % of all pair cases (>= 40 % required)."
)
ASSUMPTIONS = [
    "no NaN, no -0.0, no values containing the private marker string '__CONVERTED__'",
    "pairs differing only within the numeric tower (1 / 1.0 / True / 1+0j), in deque.maxlen, defaultdict.default_factory, "
    "array.array typecode, Counter zero entries or a pandas dtype are in neither class (no expectation)",
    "row order and column order of a Series/DataFrame are treated as significant (pandas .equals is order-sensitive, "
    "positional access / .values / iteration differ); each has its own bucket so the judgement can be revisited",
    "pandas values are None-free (None becomes NaN); DataFrame column labels are unique",
    "cross-interpreter equality is required for natively handled types only; values containing a plain object "
    "(cloudpickle fallback) are only labelled",
    "cross-interpreter comparison is on the unpickled keys (==), not on the pickle bytes; byte-level differences are labelled",
    "memoize: only soundness is checked (a returned result belongs to a call with equal arguments, where 1 / 1.0 / True "
    "count as equal); hits on repeated equal calls are labelled, not required",
    "plain objects define __eq__ on (type, __dict__) and are importable as checks.c15_to_hashable.PlainA/PlainB; equal "
    "variants *inside* a plain object (attribute/dict insertion order, array buffer layout) are only labelled, not judged: "
    "a pickle-based key can only promise 'same construction => same key'",
]

MARKER = "__CONVERTED__"


# =================================================================================================
# plain picklable objects (module level, __eq__ without __hash__  ->  unhashable, pickle fallback)


class _Plain:
    def __init__(self, **kw):
        for k, v in kw.items():
            setattr(self, k, v)

    def __eq__(self, other):
        return type(other) is type(self) and _canon_attrs(self, True) == _canon_attrs(other, True)

    __hash__ = None  # type: ignore[assignment]

    def __repr__(self):
        return f"{type(self).__name__}({_all_attrs(self)!r})"


class PlainA(_Plain):
    pass


class PlainB(_Plain):
    pass


class _SlotBase:
    __slots__ = ("z",)


class SlotMix(_SlotBase, _Plain):
    """Instance state partly outside the instance dict: attribute 'z' lives in a slot inherited from the base."""


def _all_attrs(o) -> dict:
    d = dict(o.__dict__)
    for klass in type(o).__mro__:
        for n in getattr(klass, "__slots__", ()):
            if hasattr(o, n):
                d[n] = getattr(o, n)
    return d


CLASSES = {"PlainA": PlainA, "PlainB": PlainB, "SlotMix": SlotMix}
FACTORIES = {"none": None, "int": int, "list": list, "dict": dict, "set": set}


# =================================================================================================
# recipe -> value


def is_leaf(r) -> bool:
    return not isinstance(r, dict) or r["k"] in ("bytes", "complex")


def _layout(arr: np.ndarray, layout: str) -> np.ndarray:
    """The same array value from a different buffer."""
    if layout == "f":
        return np.array(arr, order="F")  # (asfortranarray would turn a 0-d array into 1-d)
    if layout == "view":
        big = np.empty((2, *arr.shape), dtype=arr.dtype)
        big[0, ...] = arr  # (element-wise; "big[0] = arr" would store a 0-d object array as one element)
        big[1, ...] = arr
        return big[1, ...]
    if layout == "strided" and arr.ndim >= 1:
        big = np.empty((*arr.shape[:-1], arr.shape[-1] * 2), dtype=arr.dtype)
        big[..., ::2] = arr
        big[..., 1::2] = arr
        return big[..., ::2]
    if layout == "rev" and arr.ndim >= 1:
        return arr[::-1].copy()[::-1]
    return arr


def _as_index(labels: list):
    """Integer labels in arithmetic progression are given as a pandas RangeIndex (start/step/length instead of the
    labels themselves): an equal value with another in-memory representation of its index."""
    if labels and all(type(x) is int for x in labels):
        step = labels[1] - labels[0] if len(labels) > 1 else 1
        if step != 0 and all(b - a == step for a, b in zip(labels, labels[1:])):
            return pd.RangeIndex(labels[0], labels[0] + step * len(labels), step)
    return labels


def build(r):
    if not isinstance(r, dict):
        return r
    k = r["k"]
    if k == "bytes":
        return bytes.fromhex(r["hex"])
    if k == "complex":
        return complex(r["re"], r["im"])
    if k == "tuple":
        return tuple(build(x) for x in r["items"])
    if k == "list":
        return [build(x) for x in r["items"]]
    if k == "set":
        s = set()
        for x in r["items"]:
            s.add(build(x))
        return s
    if k == "frozenset":
        return frozenset([build(x) for x in r["items"]])
    if k == "dict":
        return {build(a): build(b) for a, b in r["items"]}
    if k == "odict":
        return collections.OrderedDict((build(a), build(b)) for a, b in r["items"])
    if k == "ddict":
        d = collections.defaultdict(FACTORIES[r["factory"]])
        for a, b in r["items"]:
            d[build(a)] = build(b)
        return d
    if k == "counter":
        c = collections.Counter()
        for a, n in r["items"]:
            c[build(a)] = n
        return c
    if k == "deque":
        return collections.deque([build(x) for x in r["items"]], maxlen=r["maxlen"])
    if k == "bytearray":
        return bytearray.fromhex(r["hex"])
    if k == "array":
        return array.array(r["typecode"], list(r["data"]))
    if k == "nd":
        vals = [build(x) for x in r["data"]]
        if r["dtype"] == "O":
            flat = np.empty(len(vals), dtype=object)
            for i, v in enumerate(vals):
                flat[i] = v
        else:
            flat = np.array(vals, dtype=r["dtype"])
        return _layout(flat.reshape(tuple(r["shape"])), r.get("layout", "c"))
    if k == "series":
        idx = None if r["index"] is None else _as_index([build(x) for x in r["index"]])
        return pd.Series([build(x) for x in r["values"]], index=idx, name=build(r["name"]), dtype=r["dtype"])
    if k == "df":
        idx = list(range(r["nrows"])) if r["index"] is None else _as_index([build(x) for x in r["index"]])
        cols = collections.OrderedDict()
        for c in r["cols"]:
            cols[build(c["name"])] = pd.Series([build(x) for x in c["values"]], index=idx, dtype=c["dtype"])
        if not cols:
            return pd.DataFrame(index=idx)
        return pd.DataFrame(cols, index=idx)
    if k == "obj":
        return CLASSES[r["cls"]](**{name: build(v) for name, v in r["attrs"]})
    raise ValueError(f"unknown recipe kind {k!r}")


# =================================================================================================
# the reference: structural normal form of built values (independent of pipefunc)


def _canon_attrs(o, strict):
    return frozenset((n, canon(v, strict)) for n, v in _all_attrs(o).items())


def canon(v, strict: bool):
    t = type(v)
    if v is None:
        return ("None",)
    if t in (bool, int, float, complex):
        return ("num", t.__name__, v) if strict else ("num", v)
    if t is str:
        return ("str", v)
    if t is bytes:
        return ("bytes", v)
    if t is tuple:
        return ("tuple", tuple(canon(x, strict) for x in v))
    if t is list:
        return ("list", tuple(canon(x, strict) for x in v))
    if t is collections.deque:
        return ("deque", v.maxlen if strict else None, tuple(canon(x, strict) for x in v))
    if t is set:
        return ("set", frozenset(canon(x, strict) for x in v))
    if t is frozenset:
        return ("frozenset", frozenset(canon(x, strict) for x in v))
    if t is collections.OrderedDict:
        return ("OrderedDict", tuple((canon(a, strict), canon(b, strict)) for a, b in v.items()))
    if t is collections.defaultdict:
        fac = getattr(v.default_factory, "__name__", None) if strict else None
        return ("defaultdict", fac, frozenset((canon(a, strict), canon(b, strict)) for a, b in v.items()))
    if t is collections.Counter:
        return ("Counter", frozenset((canon(a, strict), canon(b, strict)) for a, b in v.items() if strict or b != 0))
    if t is dict:
        return ("dict", frozenset((canon(a, strict), canon(b, strict)) for a, b in v.items()))
    if t is bytearray:
        return ("bytearray", bytes(v))
    if t is array.array:
        return ("array", v.typecode if strict else None, tuple(canon(x, strict) for x in v.tolist()))
    if t is np.ndarray:
        flat = [v[idx] for idx in np.ndindex(*v.shape)] if v.dtype == object else np.ascontiguousarray(v).ravel().tolist()
        return ("ndarray", tuple(v.shape), v.dtype.str, tuple(canon(x, strict) for x in flat))
    if t is pd.Series:
        return (
            "Series",
            canon(v.name, strict),
            str(v.dtype) if strict else None,
            tuple(canon(x, strict) for x in v.index.tolist()),
            tuple(canon(x, strict) for x in v.tolist()),
        )
    if t is pd.DataFrame:
        return (
            "DataFrame",
            tuple(canon(x, strict) for x in v.index.tolist()),
            tuple(
                (canon(name, strict), str(v.iloc[:, j].dtype) if strict else None,
                 tuple(canon(x, strict) for x in v.iloc[:, j].tolist()))
                for j, name in enumerate(v.columns.tolist())
            ),
        )  # fmt: skip
    if isinstance(v, _Plain):
        return ("obj", t.__name__, _canon_attrs(v, strict))
    raise TypeError(f"canon: unsupported {t}")


def relate(va, vb) -> str:
    if canon(va, True) == canon(vb, True):
        return "equal"
    if canon(va, False) == canon(vb, False):
        return "neither"
    return "differ"


def _ne(r1, r2) -> bool:
    return canon(build(r1), False) != canon(build(r2), False)


# ---- independent feature detectors used only to name root causes --------------------------------
def _sortable(keys) -> bool:
    try:
        sorted(keys)
    except TypeError:
        return False
    return True


def _totally_ordered(keys) -> bool:
    ks = list(keys)
    try:
        return all((a < b) or (b < a) for a, b in itertools.combinations(ks, 2))
    except TypeError:
        return False


def features(v, acc=None) -> set:
    """Structural features of a built value: which key sets are un-orderable / only partially ordered, ..."""
    acc = set() if acc is None else acc
    t = type(v)
    if t in (dict, collections.defaultdict, collections.Counter):
        if not _sortable(v.keys()):
            acc.add("unorderable:" + t.__name__)
        elif not _totally_ordered(v.keys()):
            acc.add("partial-order:" + t.__name__)
        for x in v.values():
            features(x, acc)
    elif t is collections.OrderedDict:
        for x in v.values():
            features(x, acc)
    elif t is set:
        if not _sortable(v):
            acc.add("unorderable:set")
        elif not _totally_ordered(v):
            acc.add("partial-order:set")
    elif t in (list, tuple, collections.deque):
        for x in v:
            features(x, acc)
    elif t is np.ndarray:
        if v.dtype == object:
            for idx in np.ndindex(*v.shape):
                try:
                    hash(v[idx])
                except TypeError:
                    acc.add("object-ndarray-unhashable-element")
    elif t is pd.Series:
        acc.add("pandas")
        if not _sortable(v.index.tolist()):
            acc.add("unorderable:Series-index")
        if not v.index.is_unique:
            acc.add("duplicate-index:Series")
    elif t is pd.DataFrame:
        acc.add("pandas")
        if not _sortable(v.columns.tolist()):
            acc.add("unorderable:DataFrame-columns")
    elif isinstance(v, _Plain):
        acc.add("plain-object")
        for x in _all_attrs(v).values():
            features(x, acc)
    return acc


def _first(feats: set, prefix: str):
    got = sorted(f for f in feats if f.startswith(prefix))
    return got[0] if got else None


# =================================================================================================
# recipe tree utilities


def depth(r) -> int:
    if is_leaf(r):
        return 0
    return 1 + max((depth(c) for _, c, _ in _children(r)), default=0)


def kinds(r, acc=None) -> set:
    acc = set() if acc is None else acc
    if isinstance(r, dict):
        acc.add(r["k"])
        for _, c, _ in _children(r):
            kinds(c, acc)
    return acc


def _children(r):
    """(path suffix, child recipe, {"pos": "v"|"h", "pool": name|None}) for the recipe-valued children of r."""
    if is_leaf(r):
        return
    k = r["k"]
    if k in ("tuple", "list", "deque"):
        for i, c in enumerate(r["items"]):
            yield ("items", i), c, {"pos": None, "pool": None}  # pos inherited
    elif k in ("set", "frozenset"):
        for i, c in enumerate(r["items"]):
            yield ("items", i), c, {"pos": "h", "pool": None}
    elif k in ("dict", "odict", "ddict"):
        for i, (a, b) in enumerate(r["items"]):
            yield ("items", i, 0), a, {"pos": "h", "pool": None}
            yield ("items", i, 1), b, {"pos": "v", "pool": None}
    elif k == "counter":
        for i, (a, _n) in enumerate(r["items"]):
            yield ("items", i, 0), a, {"pos": "h", "pool": None}
    elif k == "nd":
        for i, c in enumerate(r["data"]):
            yield ("data", i), c, {"pos": "h", "pool": "dt:" + r["dtype"]}
    elif k == "series":
        yield ("name",), r["name"], {"pos": "h", "pool": "name"}
        for i, c in enumerate(r["values"]):
            yield ("values", i), c, {"pos": "h", "pool": "vk:" + r["vk"]}
        if r["index"] is not None:
            for i, c in enumerate(r["index"]):
                yield ("index", i), c, {"pos": "h", "pool": "label"}
    elif k == "df":
        for j, col in enumerate(r["cols"]):
            yield ("cols", j, "name"), col["name"], {"pos": "h", "pool": "label"}
            for i, c in enumerate(col["values"]):
                yield ("cols", j, "values", i), c, {"pos": "h", "pool": "vk:" + col["vk"]}
        if r["index"] is not None:
            for i, c in enumerate(r["index"]):
                yield ("index", i), c, {"pos": "h", "pool": "label"}
    elif k == "obj":
        for j, (_n, c) in enumerate(r["attrs"]):
            yield ("attrs", j, 1), c, {"pos": "v", "pool": None, "obj": True}


def walk(r, path=(), pos="v", pool=None, inobj=False):
    yield path, r, {"pos": pos, "pool": pool, "inobj": inobj}
    for suffix, c, info in _children(r):
        yield from walk(c, path + suffix, info["pos"] or pos, info["pool"], inobj or bool(info.get("obj")))


def pget(r, path):
    for p in path:
        r = r[p]
    return r


def pset(root, path, val):
    if not path:
        return val
    parent = pget(root, path[:-1])
    parent[path[-1]] = val
    return root


# =================================================================================================
# leaf pools and strategies

INTS = [-2, -1, 0, 1, 2, 3, 4, 7, 255, 2**40]
SMALL_INTS = [-2, -1, 0, 1, 2, 3, 4, 7]
FLOATS = [0.5, -1.5, 2.25, 1.0, 2.0, 0.0, 0.1, 1e10]
EXACT_FLOATS = [0.5, -1.5, 2.25, 1.0, 2.0, 0.0]
STRS = ["", "a", "b", "ab", "ba", "A", "é", "1", "x y"]
BYTES = [{"k": "bytes", "hex": h} for h in ["", "61", "62", "6162", "00", "ff01"]]
SBYTES = [{"k": "bytes", "hex": h} for h in ["", "61", "62", "6162", "ff01"]]
COMPLEX = [{"k": "complex", "re": 0.5, "im": 1.0}, {"k": "complex", "re": 1.0, "im": -2.0}]
QUARTERS = [0, 1, 2, 3, 0.25, 0.5, 1.5, 2.75]

POOLS = {
    "num": INTS + [True, False] + FLOATS,
    "str": STRS,
    "bytes": BYTES,
    "any": INTS + [True, False] + FLOATS + STRS + BYTES + [None] + COMPLEX,
    "label": SMALL_INTS + STRS,
    "name": [None, "s", "t", 0, 1],
    "vk:int": SMALL_INTS,
    "vk:float": EXACT_FLOATS,
    "vk:bool": [True, False],
    "vk:str": STRS,
    "vk:mixed": SMALL_INTS + STRS + [True, 0.5],
    "dt:?": [True, False],
    "dt:<c16": QUARTERS + COMPLEX,
    "dt:U": STRS,
    "dt:<U5": STRS,
    "dt:S": SBYTES,
    "dt:S4": SBYTES,
    "dt:O": INTS + [True, 0.5] + STRS + [None] + BYTES,
}
INT_DTYPES = ["i1", "<i4", "<i8", ">i4", "u1"]
FLOAT_DTYPES = ["<f4", "<f8"]
for _dt in INT_DTYPES:
    POOLS["dt:" + _dt] = [0, 1, 2, 3]
for _dt in FLOAT_DTYPES:
    POOLS["dt:" + _dt] = QUARTERS
DTYPES = ["?", *INT_DTYPES, *FLOAT_DTYPES, "<c16", "U", "<U5", "S", "S4", "O"]
NUMERIC_DTYPES = ["?", *INT_DTYPES, *FLOAT_DTYPES, "<c16"]
SHAPES_BY_SIZE = {
    0: [[0], [0, 2], [2, 0], [0, 0], [1, 0]],
    1: [[], [1], [1, 1]],
    2: [[2], [1, 2], [2, 1]],
    3: [[3], [1, 3], [3, 1]],
    4: [[4], [2, 2], [1, 4], [4, 1], [2, 1, 2]],
}
SHAPES = [s for v in SHAPES_BY_SIZE.values() for s in v]
SHAPES.sort(key=lambda sh: (sh != [], len(sh) == 3, 0 in sh))  # Hypothesis favours the ends: 0-d first, 3-d / empty last
LAYOUTS = ["c", "c", "f", "view", "strided", "rev"]
TYPECODES = {"b": [0, 1, 2, 3], "B": [0, 1, 2, 3], "h": [0, 1, 2, 3], "i": [0, 1, 2, 3], "q": [0, 1, 2, 3, 2**40],
             "f": QUARTERS, "d": QUARTERS}  # fmt: skip
VK_DTYPES = {"int": ["int64", "int64", "int8"], "float": ["float64", "float64", "float32"], "bool": ["bool"],
             "str": [None, "object"], "mixed": ["object"]}  # fmt: skip


def _leaf_pool(node, info) -> list:
    if info["pool"] == "label":  # index / column labels stay within their own (orderable) family
        return STRS if isinstance(node, str) else [*SMALL_INTS, 10, 11]
    if info["pool"]:
        return POOLS[info["pool"]]
    if info["pos"] == "h":
        if node is None:
            return []
        if isinstance(node, str):
            return POOLS["str"]
        if isinstance(node, dict) and node["k"] == "bytes":
            return POOLS["bytes"]
        return POOLS["num"]
    return POOLS["any"]


def _hkey(r):
    return build(r)


S_NUM = st.one_of(st.sampled_from(INTS), st.booleans(), st.sampled_from(FLOATS))
S_STR = st.sampled_from(STRS)
S_BYTES = st.sampled_from(BYTES)
S_LEAF = st.one_of(S_NUM, S_NUM, S_STR, S_STR, S_BYTES, st.none(), st.sampled_from(COMPLEX))
S_TUPKEY = st.tuples(S_NUM, S_STR).map(lambda t: {"k": "tuple", "items": list(t)})
KEYFAM = {"num": S_NUM, "str": S_STR, "bytes": S_BYTES, "tup": S_TUPKEY, "none": st.none()}
_FAMS = ["num", "num", "str", "str", "bytes", "tup", "none"]


def s_keys(max_size=3, min_size=0):
    fams = _FAMS if min_size < 2 else _FAMS[:-1]
    return st.sampled_from(fams).flatmap(
        lambda f: st.lists(KEYFAM[f], min_size=min_size, max_size=max_size, unique_by=_hkey)
    )


def s_items(sub, max_size=3, min_size=0):
    fams = _FAMS if min_size < 2 else _FAMS[:-1]
    return st.sampled_from(fams).flatmap(
        lambda f: st.lists(st.tuples(KEYFAM[f], sub).map(list), min_size=min_size, max_size=max_size,
                           unique_by=lambda kv: _hkey(kv[0]))  # fmt: skip
    )


def _node(kind, **fixed):
    return lambda items: {"k": kind, **fixed, "items": items}


@st.composite
def s_deque(draw, sub):
    items = draw(st.lists(sub, max_size=3))
    maxlen = draw(st.sampled_from([None, None, len(items), len(items) + 2]))
    return {"k": "deque", "items": items, "maxlen": maxlen}


@st.composite
def s_array(draw):
    tc = draw(st.sampled_from(sorted(TYPECODES)))
    return {"k": "array", "typecode": tc, "data": draw(st.lists(st.sampled_from(TYPECODES[tc]), max_size=4))}


S_OBJ_ELEM = st.one_of(
    st.sampled_from(POOLS["dt:O"]),
    st.lists(st.sampled_from(SMALL_INTS + STRS), max_size=2).map(lambda it: {"k": "tuple", "items": it}),
)


@st.composite
def s_nd(draw):
    dt = draw(st.sampled_from(DTYPES))
    shape = draw(st.sampled_from(SHAPES))
    n = int(np.prod(shape)) if shape else 1
    elem = S_OBJ_ELEM if dt == "O" else st.sampled_from(POOLS["dt:" + dt])
    return {"k": "nd", "dtype": dt, "shape": list(shape), "data": draw(st.lists(elem, min_size=n, max_size=n)),
            "layout": draw(st.sampled_from(LAYOUTS))}  # fmt: skip


def s_labels(n):
    return st.one_of(
        st.none(),
        st.lists(st.sampled_from(SMALL_INTS), min_size=n, max_size=n, unique_by=_hkey),
        st.lists(st.sampled_from(STRS), min_size=n, max_size=n, unique_by=_hkey),
    )


@st.composite
def s_series(draw, min_rows=0):
    n = draw(st.integers(min_rows, 3))
    vk = draw(st.sampled_from(sorted(VK_DTYPES)))
    dtype = draw(st.sampled_from(VK_DTYPES[vk]))
    if n == 0 and dtype is None:
        dtype = "object"
    return {"k": "series", "name": draw(st.sampled_from(POOLS["name"])), "vk": vk, "dtype": dtype,
            "values": draw(st.lists(st.sampled_from(POOLS["vk:" + vk]), min_size=n, max_size=n)),
            "index": draw(s_labels(n))}  # fmt: skip


@st.composite
def s_df(draw, min_rows=0, min_cols=0):
    n = draw(st.integers(min_rows, 3))
    names = draw(st.one_of(st.lists(st.sampled_from(["a", "b", "c", "A"]), min_size=min_cols, max_size=3, unique=True),
                           st.lists(st.sampled_from([0, 1, 2, 5]), min_size=min_cols, max_size=3, unique=True)))  # fmt: skip
    cols = []
    for name in names:
        vk = draw(st.sampled_from(sorted(VK_DTYPES)))
        dtype = draw(st.sampled_from(VK_DTYPES[vk]))
        if n == 0 and dtype is None:
            dtype = "object"
        cols.append({"name": name, "vk": vk, "dtype": dtype,
                     "values": draw(st.lists(st.sampled_from(POOLS["vk:" + vk]), min_size=n, max_size=n))})  # fmt: skip
    return {"k": "df", "nrows": n, "cols": cols, "index": draw(s_labels(n))}


@st.composite
def s_obj(draw, sub):
    names = draw(st.lists(st.sampled_from(["x", "y", "z"]), max_size=3, unique=True))
    return {"k": "obj", "cls": draw(st.sampled_from(sorted(CLASSES))), "attrs": [[n, draw(sub)] for n in names]}


_VALUE_CACHE: dict = {}


def s_value(d: int, top: bool = False, objects: bool = True):
    key = (d, top, objects)
    if key in _VALUE_CACHE:
        return _VALUE_CACHE[key]
    if d == 0:
        s = S_LEAF
    else:
        sub = s_value(d - 1, objects=objects)
        seq = st.lists(sub, max_size=3)
        homog = st.one_of(st.lists(st.sampled_from(SMALL_INTS), max_size=4), st.lists(S_STR, max_size=3))
        conts = [
            seq.map(_node("tuple")),
            seq.map(_node("list")),
            homog.map(_node("list")),
            homog.map(_node("tuple")),
            s_keys().map(_node("set")),
            s_keys().map(_node("frozenset")),
            s_items(sub).map(_node("dict")),
            s_items(sub).map(_node("odict")),
            st.tuples(st.sampled_from(sorted(FACTORIES)), s_items(sub)).map(lambda t: {"k": "ddict", "factory": t[0], "items": t[1]}),
            s_items(st.integers(1, 3)).map(_node("counter")),
            s_deque(sub),
            st.sampled_from(["", "00", "6162", "0102ff", "0201"]).map(lambda h: {"k": "bytearray", "hex": h}),
            s_array(),
            s_nd(),
            s_nd(),
            s_series(),
            s_df(),
            *([s_obj(sub)] if objects else []),
        ]  # fmt: skip
        s = st.one_of(*conts, S_LEAF) if top else st.one_of(S_LEAF, S_LEAF, S_LEAF, S_LEAF, *conts)
    _VALUE_CACHE[key] = s
    return s


def s_wrapped(focus):
    """``focus`` at the top or embedded under one or two wrapper layers with small siblings."""
    sib = s_value(1)

    def layer(inner):
        seq = st.tuples(st.lists(sib, max_size=2), inner, st.lists(sib, max_size=1)).map(lambda t: [*t[0], t[1], *t[2]])
        others = st.lists(st.tuples(st.sampled_from(["j", "l"]), sib).map(list), max_size=2, unique_by=lambda kv: kv[0])
        mp = st.tuples(others, inner).map(lambda t: [*t[0][:1], ["k", t[1]], *t[0][1:]])
        return st.one_of(
            seq.map(_node("list")),
            seq.map(_node("tuple")),
            seq.map(lambda it: {"k": "deque", "items": it, "maxlen": None}),
            mp.map(_node("dict")),
            mp.map(_node("odict")),
        )

    return st.one_of(focus, layer(focus), layer(focus), layer(layer(focus)))


def s_reorderable():
    sub = s_value(1)
    return st.one_of(
        s_keys(3, 2).map(_node("set")),
        s_keys(3, 2).map(_node("frozenset")),
        s_items(sub, 3, 2).map(_node("dict")),
        s_items(sub, 3, 2).map(_node("dict")),
        st.tuples(st.sampled_from(sorted(FACTORIES)), s_items(sub, 3, 2)).map(lambda t: {"k": "ddict", "factory": t[0], "items": t[1]}),
        s_items(st.integers(1, 3), 3, 2).map(_node("counter")),
    )  # fmt: skip


# =================================================================================================
# edits (drawn inside a composite strategy; the result is stored explicitly in the case)

EQUAL_OPS = ["reorder", "same", "rebuffer"]
# Hypothesis favours the first/last alternative: the generic edits sit in the middle
DIFFER_OPS = ["columns_order", "index_order", "shape", "retype", "leaf", "length", "dtype", "index", "order", "name"]
TOWER_OPS = ["tower"]  # intended "neither": 1 <-> 1.0 <-> True
SEQ = ("tuple", "list", "deque")
MAPS = ("dict", "odict", "ddict")


def _hex_bytes(h):
    return [h[i : i + 2] for i in range(0, len(h), 2)]


def _retype_alts(r) -> list:
    if not isinstance(r, dict):
        return []
    k = r["k"]
    it = r.get("items")
    if k == "tuple":
        return [{"k": "list", "items": it}, {"k": "deque", "items": it, "maxlen": None}]
    if k == "list":
        return [{"k": "tuple", "items": it}, {"k": "deque", "items": it, "maxlen": None}]
    if k == "deque":
        return [{"k": "list", "items": it}, {"k": "tuple", "items": it}]
    if k == "set":
        return [{"k": "frozenset", "items": it}, {"k": "list", "items": it}, {"k": "tuple", "items": it}]
    if k == "frozenset":
        return [{"k": "set", "items": it}, {"k": "list", "items": it}, {"k": "tuple", "items": it}]
    if k == "dict":
        alts = [{"k": "odict", "items": it}, {"k": "ddict", "factory": "none", "items": it}]
        if all(isinstance(b, int) and not isinstance(b, bool) for _, b in it):
            alts.append({"k": "counter", "items": it})
        return alts
    if k == "odict":
        return [{"k": "dict", "items": it}, {"k": "ddict", "factory": "none", "items": it}]
    if k == "ddict":
        return [{"k": "dict", "items": it}, {"k": "odict", "items": it}]
    if k == "counter":
        return [{"k": "dict", "items": it}]
    if k == "bytes":
        return [{"k": "bytearray", "hex": r["hex"]}, {"k": "tuple", "items": [int(b, 16) for b in _hex_bytes(r["hex"])]}]
    if k == "bytearray":
        ints = [int(b, 16) for b in _hex_bytes(r["hex"])]
        return [{"k": "bytes", "hex": r["hex"]}, {"k": "list", "items": ints}, {"k": "tuple", "items": ints}]
    if k == "array":
        return [{"k": "list", "items": list(r["data"])}, {"k": "tuple", "items": list(r["data"])}]
    if k == "nd" and len(r["shape"]) == 1 and r["dtype"] != "O":
        return [{"k": "list", "items": list(r["data"])}]
    if k == "series" and r["index"] is None:
        return [{"k": "list", "items": list(r["values"])}]
    if k == "obj":
        return [{**r, "cls": c} for c in sorted(CLASSES) if c != r["cls"]]
    return []


def _dtype_alts(r) -> list:
    dt = r["dtype"]
    if dt in NUMERIC_DTYPES:
        data = [build(x) for x in r["data"]]
        if any(isinstance(x, complex) for x in data):
            alts = ["O"]
        elif all(x in (0, 1) for x in data):
            alts = [*NUMERIC_DTYPES, "O"]
        elif all(float(x).is_integer() for x in data):
            alts = [*INT_DTYPES, *FLOAT_DTYPES, "<c16", "O"]
        else:
            alts = [*FLOAT_DTYPES, "<c16", "O"]
    elif dt in ("U", "<U5"):
        alts = ["U", "<U5", "O"]
    elif dt in ("S", "S4"):
        alts = ["S", "S4"]
    else:
        alts = []
    return [a for a in alts if a != dt]


def _order_pairs(items) -> list:
    return [(i, j) for i, j in itertools.combinations(range(len(items)), 2) if _ne(items[i], items[j])]


def _rows(r) -> int:
    return len(r["values"]) if r["k"] == "series" else r["nrows"]


def _drop_row(r, i):
    if r["k"] == "series":
        r["values"].pop(i)
    else:
        for c in r["cols"]:
            c["values"].pop(i)
        r["nrows"] -= 1
    if r["index"] is not None:
        r["index"].pop(i)


def _perm_rows(r, perm):
    n = _rows(r)
    if r["index"] is None:
        r["index"] = list(range(n))
    r["index"] = [r["index"][p] for p in perm]
    if r["k"] == "series":
        r["values"] = [r["values"][p] for p in perm]
    else:
        for c in r["cols"]:
            c["values"] = [c["values"][p] for p in perm]


def _nonid_perm(draw, n):
    perms = [p for p in itertools.permutations(range(n)) if list(p) != list(range(n))]
    return list(_c_from(draw, perms))


def _c_int(draw, lo, hi):
    return lo if draw is None else draw(st.integers(lo, hi))


def _c_bool(draw):
    return False if draw is None else draw(st.booleans())


def _c_from(draw, seq):
    seq = list(seq)
    return seq[0] if draw is None else draw(st.sampled_from(seq))


def applicable_ops(a, ops) -> list:
    """The edits among ``ops`` that have an eligible node in ``a`` (dry run with first choices)."""
    return [op for op in ops if mutate(None, a, op)[1] is not None]


def mutate(draw, a, op):
    """Return (b, target) -- a deep-copied edited recipe and 'kind[/in-obj]' of the edited node, or (copy, None)."""
    b = json.loads(json.dumps(a))  # no shared sub-objects
    nodes = list(walk(b))

    def pick(elig):
        if not elig:
            return None
        return elig[_c_int(draw, 0, len(elig) - 1)]

    def tgt(node, info):
        k = node["k"] if isinstance(node, dict) else "leaf"
        return k + ("/in-obj" if info["inobj"] or k == "obj" else "")

    def is_k(node, *ks):
        return isinstance(node, dict) and node["k"] in ks

    if op == "same":
        return b, "-"

    if op == "reorder":
        got = pick([(p, n, i) for p, n, i in nodes
                    if (is_k(n, "set", "frozenset", "dict", "ddict", "counter") and len(n["items"]) >= 2)
                    or (is_k(n, "obj") and len(n["attrs"]) >= 2)])  # fmt: skip
        if not got:
            return b, None
        _, n, info = got
        fld = "attrs" if n["k"] == "obj" else "items"
        perm = _nonid_perm(draw, len(n[fld]))
        n[fld] = [n[fld][p] for p in perm]
        return b, tgt(n, info)

    if op == "rebuffer":
        got = pick([(p, n, i) for p, n, i in nodes if is_k(n, "nd")])
        if not got:
            return b, None
        _, n, info = got
        n["layout"] = _c_from(draw, ([x for x in ["c", "f", "view", "strided", "rev"] if x != n["layout"]]))
        return b, tgt(n, info)

    if op == "retype":
        got = pick([(p, n, i) for p, n, i in nodes if i["pos"] == "v" and _retype_alts(n)])
        if not got:
            return b, None
        p, n, info = got
        new = copy.deepcopy(_c_from(draw, (_retype_alts(n))))
        return pset(b, p, new), tgt(n, info)

    if op == "leaf":
        elig = []
        for p, n, i in nodes:
            if is_leaf(n) and p:
                cands = [c for c in _leaf_pool(n, i) if _ne(c, n)]
                if cands:
                    elig.append(("leaf", p, n, i, cands))
            elif is_k(n, "array") and n["data"]:
                elig.append(("array", p, n, i, None))
            elif is_k(n, "bytearray") and n["hex"]:
                elig.append(("bytearray", p, n, i, None))
        got = pick(elig)
        if not got:
            if is_leaf(b):  # top-level leaf
                cands = [c for c in POOLS["any"] if _ne(c, b)]
                return copy.deepcopy(_c_from(draw, (cands))), "leaf"
            return b, None
        how, p, n, info, cands = got
        if how == "array":
            j = _c_int(draw, 0, len(n["data"]) - 1)
            n["data"][j] = _c_from(draw, ([c for c in TYPECODES[n["typecode"]] if c != n["data"][j]]))
            return b, tgt(n, info)
        if how == "bytearray":
            hx = _hex_bytes(n["hex"])
            j = _c_int(draw, 0, len(hx) - 1)
            hx[j] = _c_from(draw, ([c for c in ["00", "01", "61", "ff"] if c != hx[j]]))
            n["hex"] = "".join(hx)
            return b, tgt(n, info)
        parent_kind = _parent_kind(b, p)
        new = copy.deepcopy(_c_from(draw, (cands)))
        return pset(b, p, new), parent_kind + ("/in-obj" if info["inobj"] else "")

    if op == "tower":
        def sibling(v):
            if isinstance(v, bool):
                return int(v)
            if isinstance(v, int) and abs(v) < 2**40:
                return float(v)
            if isinstance(v, float) and v.is_integer() and abs(v) < 2**40:
                return int(v)
            return None

        got = pick([(p, n, i) for p, n, i in nodes if p and i["pool"] is None and sibling(n) is not None])
        if not got:
            return b, None
        p, n, info = got
        return pset(b, p, sibling(n)), _parent_kind(b, p)

    if op == "length":
        got = pick([(p, n, i) for p, n, i in nodes
                    if (is_k(n, *SEQ, "set", "frozenset", *MAPS, "counter", "bytearray", "bytes", "array", "series", "obj")
                        and (i["pos"] == "v" or n["k"] == "bytes"))  # keys keep their shape (stay orderable)
                    or (is_k(n, "nd") and len(n["shape"]) == 1)
                    or (is_k(n, "df") and (n["nrows"] or n["cols"]))])  # fmt: skip
        if not got:
            return b, None
        p, n, info = got
        k = n["k"]
        if k in SEQ + ("set", "frozenset") + MAPS + ("counter",):
            if n["items"]:
                n["items"].pop(_c_int(draw, 0, len(n["items"]) - 1))
            else:
                n["items"].append({"counter": [0, 1]}.get(k, [0, 0] if k in MAPS else 0))
                if k == "deque" and n["maxlen"] is not None:
                    n["maxlen"] += 1
        elif k in ("bytearray", "bytes"):
            n["hex"] = n["hex"][:-2] if n["hex"] and _c_bool(draw) else n["hex"] + "00"
        elif k == "array":
            if n["data"]:
                n["data"].pop(_c_int(draw, 0, len(n["data"]) - 1))
            else:
                n["data"].append(1)
        elif k == "nd":
            if n["data"]:
                n["data"].pop(_c_int(draw, 0, len(n["data"]) - 1))
            else:
                n["data"].append(copy.deepcopy(POOLS["dt:" + n["dtype"]][0]))
            n["shape"] = [len(n["data"])]
        elif k == "series":
            if n["values"]:
                _drop_row(n, _c_int(draw, 0, len(n["values"]) - 1))
            else:
                n["values"].append(copy.deepcopy(POOLS["vk:" + n["vk"]][0]))
                if n["index"] is not None:
                    n["index"].append(0)
        elif k == "df":
            if n["nrows"] and (not n["cols"] or _c_bool(draw)):
                _drop_row(n, _c_int(draw, 0, n["nrows"] - 1))
            else:
                n["cols"].pop(_c_int(draw, 0, len(n["cols"]) - 1))
        elif k == "obj":
            if n["attrs"]:
                n["attrs"].pop(_c_int(draw, 0, len(n["attrs"]) - 1))
            else:
                n["attrs"].append(["w", 0])
        return b, tgt(n, info)

    if op == "order":
        elig = []
        for p, n, i in nodes:
            if is_k(n, *SEQ) and i["pos"] == "v" and _order_pairs(n["items"]):
                elig.append((n, i, "items", _order_pairs(n["items"])))
            elif is_k(n, "odict") and len(n["items"]) >= 2:
                elig.append((n, i, "items", list(itertools.combinations(range(len(n["items"])), 2))))
            elif is_k(n, "bytearray", "bytes"):
                hx = _hex_bytes(n["hex"])
                prs = [(x, y) for x, y in itertools.combinations(range(len(hx)), 2) if hx[x] != hx[y]]
                if prs:
                    elig.append((n, i, "hex", prs))
            elif is_k(n, "array", "nd") and _order_pairs(n["data"]):
                elig.append((n, i, "data", _order_pairs(n["data"])))
            elif is_k(n, "series") and _order_pairs(n["values"]):
                elig.append((n, i, "values", _order_pairs(n["values"])))
            elif is_k(n, "df"):
                for c in n["cols"]:
                    if _order_pairs(c["values"]):
                        elig.append((c, i, "values", _order_pairs(c["values"])))
                        break
        got = pick(elig)
        if not got:
            return b, None
        n, info, fld, prs = got
        x, y = _c_from(draw, (prs))
        if fld == "hex":
            hx = _hex_bytes(n["hex"])
            hx[x], hx[y] = hx[y], hx[x]
            n["hex"] = "".join(hx)
        else:
            n[fld][x], n[fld][y] = n[fld][y], n[fld][x]
        k = n.get("k", "df")
        return b, k + ("/in-obj" if info["inobj"] else "")

    if op == "dtype":
        got = pick([(p, n, i) for p, n, i in nodes if is_k(n, "nd") and _dtype_alts(n)])
        if not got:
            return b, None
        _, n, info = got
        n["dtype"] = _c_from(draw, (_dtype_alts(n)))
        return b, tgt(n, info)

    if op == "shape":
        got = pick([(p, n, i) for p, n, i in nodes if is_k(n, "nd")])
        if not got:
            return b, None
        _, n, info = got
        n["shape"] = list(_c_from(draw, ([s for s in SHAPES_BY_SIZE[len(n["data"])] if s != n["shape"]])))
        return b, tgt(n, info)

    if op in ("index", "index_order"):
        need = 1 if op == "index" else 2
        got = pick([(p, n, i) for p, n, i in nodes if is_k(n, "series", "df") and _rows(n) >= need])
        if not got:
            return b, None
        _, n, info = got
        rows = _rows(n)
        if op == "index_order":
            _perm_rows(n, _nonid_perm(draw, rows))
            return b, tgt(n, info)
        if n["index"] is None:
            n["index"] = list(range(rows))
        i = _c_int(draw, 0, rows - 1)
        fam = STRS if isinstance(n["index"][i], str) else [*SMALL_INTS, 10, 11, 12, 13]
        have = {build(x) for x in n["index"]}
        n["index"][i] = _c_from(draw, ([c for c in fam if c not in have]))
        return b, tgt(n, info)

    if op == "columns_order":
        got = pick([(p, n, i) for p, n, i in nodes if is_k(n, "df") and len(n["cols"]) >= 2])
        if not got:
            return b, None
        _, n, info = got
        perm = _nonid_perm(draw, len(n["cols"]))
        n["cols"] = [n["cols"][p] for p in perm]
        return b, tgt(n, info)

    if op == "name":
        got = pick([(p, n, i) for p, n, i in nodes if is_k(n, "series")])
        if not got:
            return b, None
        _, n, info = got
        n["name"] = _c_from(draw, ([c for c in POOLS["name"] if _ne(c, n["name"])]))
        return b, tgt(n, info)

    raise ValueError(op)


def _parent_kind(root, path) -> str:
    """Kind of the innermost recipe node that contains the node at ``path``."""
    best = "leaf"
    for i in range(len(path)):
        n = pget(root, path[:i])
        if isinstance(n, dict) and "k" in n:
            best = n["k"]
    return "leaf-in-" + best


@st.composite
def s_pair(draw, ops, base=None):
    a = draw(base if base is not None else s_value(3, top=True))
    app = applicable_ops(a, ops)
    real = [o for o in app if o != "same"]
    if real and "same" in app and draw(st.integers(0, 7)):  # "same" keeps a 1/8 share when a real edit exists
        app = real
    op = draw(st.sampled_from(app or ["same"]))
    b, target = mutate(draw, a, op)
    if target is None:
        op, target = "same", "-"
    return {"a": a, "b": b, "op": op, "target": target}


@st.composite
def s_independent(draw):
    # (no plain objects here: an accidental equal pair of objects could not be told from a pickle-fallback artefact)
    s = s_value(2, top=True, objects=False)
    return {"a": draw(s), "b": draw(s), "op": "independent", "target": "-"}


# ---- hard corner generators ---------------------------------------------------------------------
MIXED_KEYS = [1, "a", None, 2.5, {"k": "bytes", "hex": "61"}, {"k": "tuple", "items": [1, "a"]},
              {"k": "tuple", "items": ["b", 2]}, {"k": "tuple", "items": [1, 2]}]  # fmt: skip
FS_KEYS = [{"k": "frozenset", "items": it} for it in ([1], [2], [1, 2], ["a"], ["b"], ["a", "b"], ["ab", "ba"], [])]


@st.composite
def s_hard(draw):
    kind = draw(st.sampled_from(["mixed", "mixed", "partial", "partial", "objarr", "dupindex", "mixed-pandas"]))
    wrap = draw(st.sampled_from(["none", "list", "dict"]))
    if kind in ("mixed", "partial"):
        pool = MIXED_KEYS if kind == "mixed" else FS_KEYS
        keys = draw(st.lists(st.sampled_from(pool), min_size=2, max_size=3, unique_by=_hkey))
        cont = draw(st.sampled_from(["dict", "set", "counter", "ddict", "odict-of-set"]))
        if cont == "set":
            a = {"k": "set", "items": keys}
        elif cont == "counter":
            a = {"k": "counter", "items": [[k, draw(st.integers(1, 3))] for k in keys]}
        elif cont == "ddict":
            a = {"k": "ddict", "factory": "int", "items": [[k, draw(S_LEAF)] for k in keys]}
        elif cont == "odict-of-set":
            a = {"k": "odict", "items": [["k", {"k": "set", "items": keys}]]}
        else:
            a = {"k": "dict", "items": [[k, draw(s_value(1))] for k in keys]}
        ops = ["same", "reorder", "reorder", "leaf", "retype"]
    elif kind == "objarr":
        n = draw(st.integers(1, 3))
        unh = st.one_of(
            st.lists(st.sampled_from(SMALL_INTS), max_size=2).map(_node("list")),
            s_keys(2).map(_node("set")),
            st.just({"k": "dict", "items": [["a", 1]]}),
        )
        data = draw(st.lists(st.one_of(unh, st.sampled_from(SMALL_INTS)), min_size=n, max_size=n))
        if all(is_leaf(x) for x in data):
            data[0] = {"k": "list", "items": [1]}
        a = {"k": "nd", "dtype": "O", "shape": [n], "data": data, "layout": "c"}
        ops = ["same", "rebuffer", "length", "order"]
    elif kind == "dupindex":
        n = draw(st.integers(2, 3))
        lab = draw(st.sampled_from(["a", 0, 1]))
        index = [lab] * n
        if n == 3 and draw(st.booleans()):
            index[draw(st.integers(0, 2))] = "b" if isinstance(lab, str) else 5
        a = {"k": "series", "name": None, "vk": "int", "dtype": "int64", "index": index,
             "values": draw(st.lists(st.sampled_from(SMALL_INTS), min_size=n, max_size=n))}  # fmt: skip
        ops = ["same", "leaf", "leaf", "order", "length"]
    else:
        n = 2
        if draw(st.booleans()):
            a = {"k": "series", "name": None, "vk": "int", "dtype": "int64", "index": [1, "a"],
                 "values": draw(st.lists(st.sampled_from(SMALL_INTS), min_size=n, max_size=n))}  # fmt: skip
        else:
            a = {"k": "df", "nrows": 1, "index": None, "cols": [
                {"name": nm, "vk": "int", "dtype": "int64", "values": [draw(st.sampled_from(SMALL_INTS))]} for nm in (1, "a")]}  # fmt: skip
        ops = ["same", "leaf", "index_order", "columns_order"]
    if kind == "dupindex":
        # the edit of interest is on the *values* (labels stay duplicated)
        op = draw(st.sampled_from(ops))
        b = copy.deepcopy(a)
        target = "series"
        if op == "leaf":
            i = draw(st.integers(0, len(a["values"]) - 1))
            b["values"][i] = draw(st.sampled_from([c for c in SMALL_INTS if c != a["values"][i]]))
        elif op == "order":
            prs = _order_pairs(a["values"])
            if prs:
                x, y = draw(st.sampled_from(prs))
                b["values"][x], b["values"][y] = b["values"][y], b["values"][x]
            else:
                op = "same"
        elif op == "length":
            _drop_row(b, draw(st.integers(0, len(a["values"]) - 1)))
    else:
        op = draw(st.sampled_from(ops))
        b, target = mutate(draw, a, op)
        if target is None:
            op, target = "same", "-"
    if wrap == "list":
        a, b = {"k": "list", "items": [a]}, {"k": "list", "items": [b]}
    elif wrap == "dict":
        a, b = {"k": "dict", "items": [["k", a]]}, {"k": "dict", "items": [["k", b]]}
    return {"a": a, "b": b, "op": op, "target": target, "hard": kind}


# =================================================================================================
# bodies


def _norm(data):
    """Same object identities whether the case comes from Hypothesis or from a replay file."""
    return json.loads(json.dumps(data))


def _key_of(v, out: Outcome, feats: set, what: str):
    """to_hashable + hash; on failure record the root-cause bucket and return (False, None)."""
    try:
        key = to_hashable(v)
    except Exception as e:  # noqa: BLE001
        un = _first(feats, "unorderable:")
        if isinstance(e, TypeError) and un:
            out.fail("unorderable-keys-TypeError:" + un.split(":")[1], f"{what}: {exc_detail(e)}")
        else:
            out.fail(exc_bucket(e, "to_hashable-raised"), f"{what}: {exc_detail(e)}")
        return False, None
    try:
        hash(key)
    except Exception as e:  # noqa: BLE001
        if "object-ndarray-unhashable-element" in feats:
            out.fail("object-ndarray-unhashable-element:key-not-hashable", f"{what}: {exc_detail(e)} key={key!r}")
        else:
            out.fail("key-not-hashable", f"{what}: {exc_detail(e)} key={key!r}")
        return False, None
    return True, key


def _diff_pairs(v1, v2, acc: list) -> list:
    """The innermost places where two values differ (descending through aligned same-typed containers)."""
    t = type(v1)
    pairs = None
    if t is type(v2):
        if t in (list, tuple, collections.deque) and len(v1) == len(v2):
            pairs = list(zip(v1, v2))
        elif t is collections.OrderedDict and list(v1) == list(v2):
            pairs = [(v1[k], v2[k]) for k in v1]
        elif t in (dict, collections.defaultdict) and set(v1) == set(v2):  # aligned by key, whatever the insertion order
            pairs = [(v1[k], v2[k]) for k in v1]
        elif isinstance(v1, _Plain) and set(_all_attrs(v1)) == set(_all_attrs(v2)):
            pairs = [(_all_attrs(v1)[k], _all_attrs(v2)[k]) for k in _all_attrs(v1)]
    if pairs is None:
        acc.append((v1, v2))
        return acc
    for x, y in pairs:
        if canon(x, True) != canon(y, True):
            _diff_pairs(x, y, acc)
    return acc


def _pandas_cause(x, y) -> str:
    """Name the *only* difference between two pandas objects if it is one of the catalogued kinds."""
    if type(x) is pd.DataFrame and type(y) is pd.DataFrame:
        cx, cy = canon(x, False), canon(y, False)  # ("DataFrame", index labels, ((name, None, values), ...))
        idx_same, cols_same = cx[1] == cy[1], cx[2] == cy[2]
        cols_perm = sorted(cx[2], key=repr) == sorted(cy[2], key=repr)
        if cols_same and not idx_same:
            return "DataFrame-index-not-in-key"
        if idx_same and cols_perm and not cols_same:
            return "DataFrame-column-order-not-in-key"
        if cols_perm and not idx_same and not cols_same:
            return "DataFrame-index-not-in-key+DataFrame-column-order-not-in-key"
        return "DataFrame-other"
    if type(x) is pd.Series and type(y) is pd.Series:
        cx, cy = canon(x, False), canon(y, False)  # ("Series", name, None, index labels, values)
        rx, ry = list(zip(cx[3], cx[4])), list(zip(cy[3], cy[4]))
        if cx[1] != cy[1] or rx == ry:
            return "Series-other"
        if dict(rx) == dict(ry) and not (x.index.is_unique and y.index.is_unique):
            return "Series-duplicate-labels-collapsed"
        if sorted(rx, key=repr) == sorted(ry, key=repr) and x.index.is_unique:
            return "Series-row-order-not-in-key"
        return "Series-other"
    return type(x).__name__ if type(x) is type(y) else f"{type(x).__name__}-vs-{type(y).__name__}"


def _collision_causes(va, vb) -> list:
    """Root-cause names of 'different values, equal keys': what kinds of difference the key ignores."""
    causes = {c for x, y in _diff_pairs(va, vb, []) for c in _pandas_cause(x, y).split("+")}
    return sorted(causes) or ["no-difference-found"]


def _fallback_cause(op):
    return {"reorder": "insertion-order", "rebuffer": "array-buffer-layout"}.get(op, op)


def _keys_equal(ka, kb):
    eq = ka == kb
    if not isinstance(eq, (bool, np.bool_)):
        raise TypeError(f"key comparison returned {type(eq)}")
    return bool(eq)


def body_pair(data) -> Outcome:
    out = Outcome()
    data = _norm(data)
    ra, rb, op, target = data["a"], data["b"], data["op"], data["target"]
    va, vb = build(ra), build(rb)
    rel = relate(va, vb)
    fa, fb = features(va), features(vb)
    feats = fa | fb
    d = max(depth(ra), depth(rb))
    ks = kinds(ra) | kinds(rb)
    out.nontrivial = d >= 2 or bool(ks & {"nd", "series", "df"})
    out.labels += [f"class:{rel}", f"op:{op}", f"op:{op}->{rel}", f"depth:{d}"]
    out.labels += [f"kind:{k}" for k in sorted(ks)]
    if "hard" in data:
        out.labels.append("hard:" + data["hard"])
    for f in sorted(feats):
        if f != "pandas":
            out.labels.append("feature:" + f)
    for r in (ra, rb):
        for _, n, _ in walk(r):
            if isinstance(n, dict) and n["k"] == "nd":
                out.labels.append("nd-dtype:" + n["dtype"])
                out.labels.append("nd-shape:" + ("0d" if not n["shape"] else "empty" if 0 in n["shape"] else f"{len(n['shape'])}d"))
    oka, ka = _key_of(va, out, fa, "a")
    okb, kb = _key_of(vb, out, fb, "b")
    if not (oka and okb):
        out.labels.append("no-key")
        return out
    out.units = 3
    try:
        eq = _keys_equal(ka, kb)
    except Exception as e:  # noqa: BLE001
        out.fail("key-comparison-raised", exc_detail(e))
        return out
    where = f"{op}@{target}"
    if rel == "equal":
        if not eq:
            po = _first(feats, "partial-order:")
            if "plain-object" in feats and "/in-obj" in target:
                # not judged: for the pickle fallback only "same construction => same key" is meaningful
                out.labels.append("pickle-fallback-variant-differs:" + _fallback_cause(op))
                return out
            if po:
                bucket = "equal-values-unequal-keys:partially-ordered-keys:" + po.split(":")[1]
            else:
                bucket = "equal-values-unequal-keys:" + where
            out.fail(bucket, f"a={va!r} b={vb!r} ka={ka!r} kb={kb!r}")
        elif hash(ka) != hash(kb):
            out.fail("equal-keys-unequal-hash:" + where, f"ka={ka!r} kb={kb!r}")
    elif rel == "differ":
        if eq:
            for cause in _collision_causes(va, vb):
                bucket = "different-values-equal-keys:" + (cause if "not-in-key" in cause or "collapsed" in cause else where)
                out.fail(bucket, f"a={va!r} b={vb!r} key={ka!r}")
    else:
        out.labels.append("neither-keys-" + ("equal" if eq else "unequal"))
    return out


# ---- cross-interpreter --------------------------------------------------------------------------
_WORKER_SRC = (
    "import os, sys\n"
    "sys.modules['zarr'] = None\n"
    "sys.path.insert(0, os.environ.get('VERIF_REPO', '/repo'))\n"
    f"sys.path.insert(1, {boot.VERIF!r})\n"
    "from checks.c15_to_hashable import worker_main\n"
    "worker_main()\n"
)
HASH_SEEDS = (1, 4242)


def worker_main() -> None:
    """Runs inside a worker interpreter: one JSON request line -> one JSON response line, until EOF."""
    import shutil

    shutil.rmtree(boot.SCRATCH, ignore_errors=True)  # a worker needs no scratch area; nothing to leak if killed
    real_out = sys.stdout
    sys.stdout = open(os.devnull, "w")  # noqa: SIM115
    for line in sys.stdin:
        line = line.strip()
        if not line:
            continue
        res = []
        for r in json.loads(line)["recipes"]:
            try:
                key = to_hashable(build(r))
                res.append({"ok": pickle.dumps(key, protocol=4).hex()})
            except Exception as e:  # noqa: BLE001
                res.append({"err": f"{type(e).__name__}: {str(e)[:200]}"})
        real_out.write(json.dumps({"seed": os.environ.get("PYTHONHASHSEED"), "res": res}) + "\n")
        real_out.flush()


class _Workers:
    def __init__(self) -> None:
        self.pid = os.getpid()
        self.procs = []
        for seed in HASH_SEEDS:
            env = dict(os.environ, PYTHONHASHSEED=str(seed), VERIF_NO_REEXEC="1", PYTHONDONTWRITEBYTECODE="1")
            self.procs.append(
                subprocess.Popen(
                    [sys.executable, "-c", _WORKER_SRC],
                    stdin=subprocess.PIPE, stdout=subprocess.PIPE, stderr=subprocess.DEVNULL,
                    env=env, text=True, bufsize=1, cwd=boot.VERIF,
                )  # fmt: skip
            )

    def ask(self, recipes: list) -> list:
        line = json.dumps({"recipes": recipes}) + "\n"
        for p in self.procs:
            p.stdin.write(line)
            p.stdin.flush()
        answers = []
        for p, seed in zip(self.procs, HASH_SEEDS):
            ready, _, _ = select.select([p.stdout], [], [], 120)
            resp = p.stdout.readline() if ready else ""
            if not resp:
                raise RuntimeError(f"C15 worker (PYTHONHASHSEED={seed}) gave no answer (exit code {p.poll()})")
            got = json.loads(resp)
            if got["seed"] != str(seed):
                raise RuntimeError(f"worker runs with hash seed {got['seed']}, wanted {seed}")
            answers.append(got["res"])
        return answers

    def close(self, wait: bool = True) -> None:
        for p in self.procs:
            for f in (p.stdin, p.stdout):
                try:
                    f.close()
                except Exception:  # noqa: BLE001, S110
                    pass
        if not wait:
            return
        for p in self.procs:
            try:
                p.wait(timeout=10)
            except Exception:  # noqa: BLE001
                p.kill()
                p.wait()


_W: _Workers | None = None


def _shutdown_workers() -> None:
    global _W
    if _W is not None:
        w, _W = _W, None
        w.close(wait=(w.pid == os.getpid()))


def _workers() -> _Workers:
    """The two worker interpreters of this process (started on first use, i.e. once per shard; they exit on EOF of
    their stdin, are closed by an exit finalizer of the shard, and live in the shard's process group)."""
    global _W
    if _W is not None and _W.pid != os.getpid():  # inherited through fork: not ours
        _shutdown_workers()
    if _W is None:
        import multiprocessing.util as mpu

        _W = _Workers()
        atexit.register(_shutdown_workers)
        mpu.Finalize(None, _shutdown_workers, exitpriority=100)
    return _W


def body_cross(data) -> Outcome:
    out = Outcome()
    data = _norm(data)
    recipes = data["recipes"]
    answers = _workers().ask(recipes)
    out.units = 0
    for i, r in enumerate(recipes):
        v = build(r)
        feats = features(v)
        native = "plain-object" not in feats
        d = depth(r)
        ks = kinds(r)
        if native and (d >= 2 or ks & {"nd", "series", "df"}):
            out.nontrivial = True
        try:
            own = to_hashable(v)
            hash(own)
            own_err = None
        except Exception as e:  # noqa: BLE001  (reported by the pair campaigns)
            own, own_err = None, type(e).__name__
        errs = [a[i].get("err") for a in answers]
        n_err = sum(bool(e) for e in errs) + bool(own_err)
        if n_err == 3:
            out.labels.append("all-three-raise")
            continue
        if n_err:
            po = _first(feats, "partial-order:") or _first(feats, "unorderable:")
            out.fail("cross-interpreter-raise-mismatch" + (":" + po if po else ""), f"recipe={r} own={own_err} workers={errs}")
            continue
        raw = [bytes.fromhex(a[i]["ok"]) for a in answers if "ok" in a[i]]
        keys = [pickle.loads(x) for x in raw]  # noqa: S301
        out.units += 1
        out.labels.append("native" if native else "fallback")
        out.labels += [f"kind:{k}" for k in sorted(ks)]
        try:
            same = all(_keys_equal(k, own) for k in keys) and all(_keys_equal(keys[0], k) for k in keys[1:])
            same = same and all(hash(k) == hash(own) for k in keys)
        except Exception as e:  # noqa: BLE001
            out.fail("key-comparison-raised", exc_detail(e))
            continue
        bytes_same = len(set(raw)) == 1
        if native:
            out.labels.append("pickle-bytes-" + ("identical" if bytes_same else "differ-across-hash-seeds"))
            if not same:
                po = _first(feats, "partial-order:")
                bucket = "cross-interpreter-keys-differ:" + (
                    "partially-ordered-keys:" + po.split(":")[1] if po else (r["k"] if isinstance(r, dict) else "leaf")
                )
                out.fail(bucket, f"recipe={r} own={own!r} workers={keys!r}")
        else:
            out.labels.append("fallback-keys-" + ("stable" if same else "differ-across-interpreters"))
    return out


# ---- consequence clause: memoize ----------------------------------------------------------------
CACHES = ["simple", "lru", "hybrid", "disk", "disk-nolru"]


def _make_cache(name):
    if name == "simple":
        return SimpleCache(), None
    if name == "lru":
        return LRUCache(max_size=64, shared=False), None
    if name == "hybrid":
        return HybridCache(max_size=64, shared=False), None
    d = boot.fresh_dir("c15")
    if name == "disk":
        return DiskCache(d, lru_shared=False), d
    return DiskCache(d, with_lru_cache=False), d


def body_memo(data) -> Outcome:
    out = Outcome()
    data = _norm(data)
    cache, tmpdir = _make_cache(data["cache"])
    invoked = []

    @memoize(cache=cache)
    def tracer(*args, **kwargs):
        invoked.append(1)
        return canon((args, kwargs), False)

    out.labels.append("cache:" + data["cache"])
    seen = []  # (strict canon, loose canon, built call)
    out.units = 0
    try:
        for call in data["calls"]:
            args = tuple(build(r) for r in call["args"])
            kwargs = {k: build(r) for k, r in call["kwargs"].items()}
            want = canon((args, kwargs), False)
            strict = canon((args, kwargs), True)
            feats = features(list(args) + list(kwargs.values()))
            n0 = len(invoked)
            try:
                got = tracer(*args, **kwargs)
            except Exception as e:  # noqa: BLE001
                un = _first(feats, "unorderable:")
                if isinstance(e, TypeError) and un:
                    out.fail("memoize-raised:unorderable-keys-TypeError:" + un.split(":")[1], exc_detail(e))
                else:
                    out.fail(exc_bucket(e, "memoize-raised"), exc_detail(e))
                continue
            out.units += 1
            hit = len(invoked) == n0
            equal_before = any(s == strict for s, _, _ in seen)
            loose_before = any(lo == want for _, lo, _ in seen)
            out.labels.append("hit" if hit else "miss")
            if equal_before:
                out.labels.append("equal-call-repeated:" + ("hit" if hit else "miss"))
            elif loose_before:
                out.labels.append("tower-equal-call:" + ("hit" if hit else "miss"))
            if got != want:
                src = [c for _, lo, c in seen if lo == got]
                for kind in _collision_causes(src[0], [list(args), kwargs]) if src else ["unknown-origin"]:
                    out.fail("memoize-returned-result-of-different-call:" + kind,
                             f"cache={data['cache']} call={call} got={got!r} want={want!r}")  # fmt: skip
            seen.append((strict, want, [list(args), kwargs]))
    finally:
        if tmpdir:
            boot.rm(tmpdir)
    d = max((depth(r) for c in data["calls"] for r in [*c["args"], *c["kwargs"].values()]), default=0)
    ks = set()
    for c in data["calls"]:
        for r in [*c["args"], *c["kwargs"].values()]:
            kinds(r, ks)
    out.nontrivial = len(data["calls"]) >= 3 and (d >= 2 or bool(ks & {"nd", "series", "df"}))
    return out


@st.composite
def s_memo(draw):
    base = draw(S_MEMO_BASE)
    pool = [base]
    app = applicable_ops(base, [*DIFFER_OPS[:5], *EQUAL_OPS, *DIFFER_OPS[5:]])
    for _ in range(draw(st.integers(1, 3))):
        b, _t = mutate(draw, base, draw(st.sampled_from(app)))
        pool.append(b)
    pool.append(draw(s_value(1)))
    calls = []
    for _ in range(draw(st.integers(3, 7))):
        form = draw(st.sampled_from(["a", "a", "aa", "k", "ak", "p", "ap", "kk"]))
        args = [pool[draw(st.integers(0, len(pool) - 1))] for ch in form if ch == "a"]
        kwargs = {"k": pool[draw(st.integers(0, len(pool) - 1))]} if "k" in form else {}
        if "p" in form:  # look-alike of the keyword form: the pair ('k', value) as a trailing positional argument
            args.append({"k": "tuple", "items": ["k", pool[draw(st.integers(0, len(pool) - 1))]]})
        if form == "kk":  # two keywords vs. one keyword whose value is ... : boundaries between arguments matter
            kwargs["j"] = pool[draw(st.integers(0, len(pool) - 1))]
        calls.append({"args": args, "kwargs": kwargs})
    return {"cache": draw(st.sampled_from(CACHES)), "calls": calls}


S_MEMO_BASE = st.one_of(s_value(2, top=True), s_value(2, top=True), s_wrapped(s_series(2)), s_wrapped(s_df(2, 2)),
                        s_wrapped(s_reorderable()), s_wrapped(s_nd()))  # fmt: skip
S_CROSS_EXTRA = st.lists(st.sampled_from(FS_KEYS), min_size=2, max_size=3, unique_by=_hkey).map(_node("set"))


# ---- consequence clause over histories: the *same object* passed again after it was changed in place -----------
ALIAS_KINDS = ["list", "dict", "nd", "nd2", "ro-view", "broadcast", "series", "nested"]


@st.composite
def s_alias(draw):
    n = draw(st.integers(2, 4))
    versions = [draw(st.lists(st.integers(0, 3), min_size=3, max_size=3)) for _ in range(n)]
    return {"kind": draw(st.sampled_from(ALIAS_KINDS)), "versions": versions, "cache": draw(st.sampled_from(CACHES)),
            "direct": draw(st.booleans()), "fresh_between": draw(st.booleans())}  # fmt: skip


def _alias_make(kind, v):
    """(argument object, setter that changes the argument's content in place to version w)."""
    if kind == "list":
        obj = list(v)
        return obj, lambda w: obj.__setitem__(slice(None), list(w))
    if kind == "dict":
        obj = {"a": v[0], "b": v[1], "c": v[2]}
        return obj, lambda w: obj.update({"a": w[0], "b": w[1], "c": w[2]})
    if kind == "nested":
        obj = {"k": [list(v)]}
        return obj, lambda w: obj["k"][0].__setitem__(slice(None), list(w))
    if kind == "series":
        obj = pd.Series(list(v), index=["x", "y", "z"], name="s")
        return obj, lambda w: obj.__setitem__(slice(None), list(w))
    base = np.array(v, dtype=np.int64) if kind != "nd2" else np.array([v, v[::-1]], dtype=np.int64)

    def set_base(w):
        base[...] = np.array(w, dtype=np.int64) if kind != "nd2" else np.array([w, w[::-1]], dtype=np.int64)

    if kind in ("nd", "nd2"):
        return base, set_base
    if kind == "ro-view":
        view = base[:]
        view.flags.writeable = False
        return view, set_base
    return np.broadcast_to(base, (2, 3)), set_base  # read-only by construction


def body_alias(data) -> Outcome:
    out = Outcome()
    data = _norm(data)
    kind = data["kind"]
    out.labels += ["alias:" + kind, "cache:" + data["cache"], "alias:direct" if data["direct"] else "alias:memoize"]
    versions = data["versions"]
    out.nontrivial = len({tuple(v) for v in versions}) >= 2
    cache, tmpdir = _make_cache(data["cache"])
    invoked = []

    @memoize(cache=cache)
    def tracer(x):
        invoked.append(1)
        return canon(x, False)

    try:
        obj, setter = _alias_make(kind, versions[0])
        seen: dict = {}
        for i, v in enumerate(versions):
            if i:
                setter(v)
            want = canon(obj, False)
            out.units += 1
            try:
                if data["direct"]:
                    key = to_hashable(obj)
                    hash(key)
                    prev = seen.get(repr(want))
                    if prev is not None and prev != key:
                        out.fail(f"alias-equal-content-different-keys:{kind}", f"version {i} {v}: {key!r} vs {prev!r}")
                    clash = [w for w, k in seen.items() if k == key and w != repr(want)]
                    if clash:
                        out.fail(f"alias-changed-in-place-same-key:{kind}", f"version {i} {v} has the key of content {clash[0]}")
                    seen[repr(want)] = key
                    if data["fresh_between"]:  # an equal, separately built value must have the same key
                        fresh, _ = _alias_make(kind, v)
                        if to_hashable(fresh) != key:
                            out.fail(f"alias-same-object-and-fresh-copy-different-keys:{kind}", f"version {i} {v}")
                else:
                    got = tracer(obj)
                    if got != want:
                        out.fail(f"alias-memoize-returned-result-of-earlier-content:{kind}", f"version {i} {v}: got {got!r} want {want!r}")
            except Exception as e:  # noqa: BLE001
                out.fail(exc_bucket(e, f"alias-raised:{kind}"), exc_detail(e))
                break
    finally:
        if tmpdir:
            boot.rm(tmpdir)
    return out


def _base_campaigns(tier):
    cross = st.fixed_dictionaries(
        {"recipes": st.tuples(st.lists(s_value(3, top=True), min_size=14, max_size=14), st.lists(S_CROSS_EXTRA, max_size=1)).map(lambda t: t[0] + t[1])}
    )  # fmt: skip
    top = s_value(3, top=True)
    base_equal = st.one_of(top, s_wrapped(s_reorderable()), s_wrapped(s_reorderable()), s_wrapped(s_nd()))
    base_look = st.one_of(top, top, top, s_wrapped(s_nd()), s_wrapped(s_series(2)), s_wrapped(s_df(2, 2)), s_wrapped(s_value(2)))
    return [
        Campaign("equal", body_pair, s_pair(EQUAL_OPS, base_equal), quick=3200, thorough=50000,
                 describe="pairs intended equal: same recipe, permuted insertion order, other array buffer"),
        Campaign("lookalike", body_pair, s_pair(DIFFER_OPS[:5] + TOWER_OPS + DIFFER_OPS[5:], base_look), quick=6400, thorough=100000,
                 describe="pairs intended different: one structural edit (retype/leaf/length/order/dtype/shape/index/...)"),
        Campaign("independent", body_pair, s_independent(), quick=1600, thorough=25000,
                 describe="two independently drawn values"),
        Campaign("hard", body_pair, s_hard(), quick=1600, thorough=20000,
                 describe="un-orderable / partially ordered keys, object arrays with unhashable elements, duplicate labels"),
        Campaign("cross", body_cross, cross, quick=200, thorough=2000,
                 describe="batches of 14-15 recipes rebuilt in two worker interpreters with other hash seeds"),
        Campaign("memo", body_memo, s_memo(), quick=1600, thorough=25000,
                 describe="memoize-d tracer over call sequences, five cache configurations"),
        Campaign("alias", body_alias, s_alias(), quick=1200, thorough=20000,
                 describe="one argument object (list/dict/ndarray/read-only view/broadcast/Series) changed in place between "
                          "conversions or memoize-d calls"),
    ]  # fmt: skip


PREDICATES = {}


def campaigns(tier):
    camps = list(_base_campaigns(tier))
    if tier == "thorough":  # coverage-guided search over the same structured cases (fuzz/hyp_fuzz.py)
        from vlib.core import cov_fuzz_campaign

        camps.append(cov_fuzz_campaign(PID, [('lookalike', 20000), ('hard', 40000), ('memo', 10000)]))
    return camps

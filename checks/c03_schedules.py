"""C03 -- map results and call counts are independent of executor, storage and schedule (DESIGN.md C03)."""

from __future__ import annotations

import asyncio
import gc
import itertools
import multiprocessing
from concurrent.futures import ProcessPoolExecutor, ThreadPoolExecutor

from hypothesis import strategies as st

from vlib import boot
from vlib import mapprog as mp
from vlib.core import Campaign, Outcome, exc_bucket, exc_detail
from vlib.sched import ScheduledExecutor

PID = "C03"
LEVEL = "exploration"
RULE = (
    "Hypothesis-generated MapPrograms (<= 3 functions, every storage incl. per-output mixes) x execution configuration "
    "{sequential; harness-owned ScheduledExecutor whose start/completion order and eager-run pattern are drawn data; "
    "ThreadPoolExecutor / ProcessPoolExecutor with drawn per-call delays; the default executor=None,parallel=True pool; "
    "a different executor per output} x {map, map_async}. Campaign 'perm' enumerates ALL orders of every generation "
    "(<= 4 tasks) for a fixed family of small pipelines x every storage x sync/async. Oracle (schedule independent): "
    "Result.output and load_outputs equal the MapSpec denotation model; the cross-process call log has exactly the "
    "model's calls (each function once per output index, once in total without MapSpec); every call starts after the "
    "end of every producer call whose value it consumes. Non-trivial = parallel configuration with a generation of "
    ">= 2 tasks and (a non-identity drawn order or a real pool); distinct by sha1 of (program, configuration)."
)
ASSUMPTIONS = [
    "ScheduledExecutor realises serialised start/completion orders; truly overlapping executions are only sampled with real pools under OS scheduling",
    "call-log lines are written with O_APPEND single writes, so their order is the real-time order of the writes across processes",
    "container types of results are not compared (values, maskedness, shapes are)",
]

MODES = ["sched", "thread", "per_output", "sched", "process", "sched", "thread", "sched", "default_pool", "seq"]


def make_delay_hook(delays):
    delays = list(delays) or [0]

    def hook(fname, base, kw):
        import time
        import zlib

        ms = delays[zlib.crc32(base.encode()) % len(delays)]
        if ms:
            time.sleep(ms / 1000.0)

    return hook


def _call_deps(prog):
    """model calls + for each call the producer calls (base texts) whose values it consumes."""
    calls: list = []
    ref = mp.denotation(prog, calls_out=calls)
    by_func: dict[str, list] = {}
    for fname, base, ids in calls:
        by_func.setdefault(fname, []).append((base, ids))
    prod = mp.func_of_output(prog)
    funcs = {fn["name"]: fn for fn in prog["funcs"]}
    deps: dict[str, list[str]] = {}
    for fname, base, ids in calls:
        fn = funcs[fname]
        req: list[str] = []
        for p in fn["params"]:
            g = prod.get(p["name"])
            if g is None:
                continue
            for gbase, gids in by_func.get(g["name"], []):
                if fn["mapspec"] and p["spec"] is not None:
                    ok = all(gids[a] == ids[a] for a in p["spec"] if a is not None and a in gids)
                else:
                    ok = True
                if ok:
                    req.append(gbase)
        deps[base] = req
    return ref, calls, deps


def check_log(out: Outcome, tag: str, entries, calls, deps):
    starts = [(e[1], e[2]) for e in entries if e[0] == "start"]
    ends = [(e[1], e[2]) for e in entries if e[0] == "end"]
    want = sorted((c[0], c[1]) for c in calls)
    if sorted(starts) != want:
        from collections import Counter

        got_c, want_c = Counter(starts), Counter(want)
        extra = list((got_c - want_c).items())[:3]
        missing = list((want_c - got_c).items())[:3]
        out.fail(f"{tag}-call-count", f"extra calls {extra} missing calls {missing}")
        return
    if sorted(ends) != want:
        out.fail(f"{tag}-call-did-not-finish", f"{len(starts)} starts, {len(ends)} ends")
        return
    end_pos: dict[str, int] = {}
    start_pos: dict[str, int] = {}
    for i, e in enumerate(entries):
        if e[0] == "end":
            end_pos.setdefault(e[2], i)
        else:
            start_pos.setdefault(e[2], i)
    for base, req in deps.items():
        for g in req:
            if end_pos[g] > start_pos[base]:
                out.fail(f"{tag}-started-before-input-complete", f"{base} started at {start_pos[base]} but {g} ended at {end_pos[g]}")
                return


def run_config(prog: dict, cfg: dict, out: Outcome, model=None) -> dict:
    """Run one configuration and check it. Returns info about the realised schedule."""
    from pipefunc.map import load_outputs

    ref, calls, deps = model or _call_deps(prog)
    mode, entry = cfg["mode"], cfg["entry"]
    tag = mode if entry == "map" else f"{mode}-async"
    folder = boot.fresh_path("c03")
    log = mp.FileLog(boot.fresh_path("c03log") + ".jsonl")
    hook = make_delay_hook(cfg.get("delays", [0])) if mode in ("thread", "process", "default_pool", "per_output") else None
    info = {"max_queue": 0, "identity": True}
    executors: list = []
    try:
        try:
            pipe = mp.build_pipeline(prog, log, hook)
        except Exception:
            out.labels.append("n/a:build-refused")  # refusals at construction are C01's subject
            return info
        kw = dict(run_folder=folder, internal_shapes=mp.internal_shapes_arg(prog), storage=mp.storage_arg(prog))
        sched = None
        if mode == "seq":
            kw["parallel"] = False
            if entry == "async":
                entry, tag = "map", "seq"
        elif mode == "sched":
            sched = ScheduledExecutor(cfg.get("choices", [0]), cfg.get("eager", [0]))
            kw["executor"] = sched
        elif mode == "thread":
            ex = ThreadPoolExecutor(max_workers=cfg.get("workers", 3))
            executors.append(ex)
            kw["executor"] = ex
        elif mode == "process":
            ex = ProcessPoolExecutor(max_workers=cfg.get("workers", 3), mp_context=multiprocessing.get_context("fork"))
            executors.append(ex)
            kw["executor"] = ex
        elif mode == "default_pool":
            kw["parallel"] = True
        elif mode == "per_output":
            sched = ScheduledExecutor(cfg.get("choices", [0]), cfg.get("eager", [0]))
            ex = ThreadPoolExecutor(max_workers=2)
            executors.append(ex)
            d = {"": sched}
            for k, fn in enumerate(prog["funcs"]):
                if (cfg.get("split", 0) >> k) & 1:
                    d[tuple(fn["outs"]) if len(fn["outs"]) > 1 else fn["outs"][0]] = ex
            kw["executor"] = d
        inputs = mp.make_inputs(prog)
        try:
            if entry == "map":
                res = pipe.map(inputs, **kw)
            else:
                kw.pop("parallel", None)

                async def amain():
                    am = pipe.map_async(inputs, **kw)
                    return await am.task

                res = asyncio.run(amain())
        except Exception as e:
            out.fail(exc_bucket(e, f"{tag}-raised"), exc_detail(e))
            return info
        if sched is not None:
            info["max_queue"] = max(sched.queue_sizes or [0])
            info["identity"] = sched.order == sorted(sched.order)
        for o in mp.output_names(prog):
            if o not in res:
                out.fail(f"{tag}-missing-output", o)
                continue
            got, exp = res[o].output, ref[o]
            if mp.canon(got) != mp.canon(exp):
                kind = "shape" if mp.shape_of(got) != mp.shape_of(exp) else "value"
                out.fail(f"{tag}-result-{kind}", f"{o}: got {str(mp.canon(got))[:200]} want {str(mp.canon(exp))[:200]}")
            try:
                lo = load_outputs(o, run_folder=folder)
                if mp.canon(lo) != mp.canon(exp):
                    out.fail(f"{tag}-stored-differs", f"{o}: got {str(mp.canon(lo))[:200]} want {str(mp.canon(exp))[:200]}")
            except Exception as e:
                out.fail(exc_bucket(e, f"{tag}-load_outputs-raised"), f"{o}: {exc_detail(e)}")
        check_log(out, tag, log.read(), calls, deps)
    finally:
        for ex in executors:
            ex.shutdown(wait=True)
        log.clear()
        gc.collect()
        boot.rm(folder)
    return info


def body(data) -> Outcome:
    out = Outcome()
    prog, cfg = data["prog"], data["cfg"]
    out.labels = [f"mode:{cfg['mode']}", f"entry:{cfg['entry']}"] + [l for l in mp.labels(prog) if l.startswith("storage:")]
    model = _call_deps(prog)
    counts = mp.expected_call_counts(prog)
    info = run_config(prog, cfg, out, model)
    big_gen = max(counts.values() or [0]) >= 2 or len(prog["funcs"]) >= 2
    real_pool = cfg["mode"] in ("thread", "process", "default_pool", "per_output")
    out.nontrivial = cfg["mode"] != "seq" and big_gen and (real_pool or (info["max_queue"] >= 2 and not info["identity"]))
    if info["max_queue"] >= 2:
        out.labels.append("choice-point")
    if not info["identity"]:
        out.labels.append("non-identity-order")
    return out


# ---- exhaustive permutations for a fixed family ---------------------------------------------------------
def _fixed_family():
    def fn(name, outs, params, out_axes, int_axes=(), mapspec=True, picker=None):
        return {"name": name, "outs": outs, "picker": picker, "mapspec": mapspec, "params": params,
                "out_axes": list(out_axes), "int_axes": list(int_axes), "ret": "list", "shape_via": "map"}  # fmt: skip

    P = lambda n, s=None: {"name": n, "spec": s}  # noqa: E731
    fam = {}
    # chain: map -> map -> reduce
    fam["chain"] = {"sizes": {"i": 3}, "roots": {"r0": {"axes": ["i"], "kind": "list"}}, "funcs": [
        fn("f0", ["o0"], [P("r0", ["i"])], ["i"]),
        fn("f1", ["o1"], [P("o0", ["i"])], ["i"]),
        fn("f2", ["o2"], [P("o1")], [], mapspec=False)]}  # fmt: skip
    # two independent maps in one generation + join
    fam["fork"] = {"sizes": {"i": 2, "j": 2}, "roots": {"r0": {"axes": ["i"], "kind": "list"}, "r1": {"axes": ["j"], "kind": "ndarray"}}, "funcs": [
        fn("f0", ["o0"], [P("r0", ["i"])], ["i"]),
        fn("f1", ["o1"], [P("r1", ["j"])], ["j"]),
        fn("f2", ["o2"], [P("o0", ["i"]), P("o1", ["j"])], ["j", "i"])]}  # fmt: skip
    # tuple output with internal axis, consumed element-wise and whole
    fam["tuple"] = {"sizes": {"i": 2, "k": 2}, "roots": {"r0": {"axes": ["i"], "kind": "list"}}, "funcs": [
        fn("f0", ["o0a", "o0b"], [P("r0", ["i"])], ["k", "i"], ["k"], picker="tuple"),
        fn("f1", ["o1"], [P("o0a", ["k", "i"]), P("o0b", [None, "i"])], ["i", "k"]),
        fn("f2", ["o2"], [P("o1"), P("o0b")], [], mapspec=False)]}  # fmt: skip
    return fam


def enum_perm(tier):
    def gen():
        fam = _fixed_family()
        storages = ["dict", "file_array", "shared_memory_dict"]
        for name, prog in fam.items():
            counts = mp.expected_call_counts(prog)
            # generations: functions are listed in dependency order; tasks of a generation = sum of call counts
            gens = {"chain": [["f0"], ["f1"], ["f2"]], "fork": [["f0", "f1"], ["f2"]], "tuple": [["f0"], ["f1"], ["f2"]]}[name]
            sizes = [sum(counts[f] for f in g) for g in gens]
            perms = [list(itertools.permutations(range(n))) for n in sizes]
            if tier == "quick" and name == "fork":
                perms[1] = perms[1][:1]  # quick: all orders of the first generation only (thorough: all of both)
            for combo in itertools.product(*perms):
                # encode as successive queue indices (Lehmer code), generation after generation
                choices = []
                for perm in combo:
                    remaining = list(range(len(perm)))
                    for t in perm:
                        choices.append(remaining.index(t))
                        remaining.remove(t)
                for storage in storages if tier == "thorough" else storages[:2]:
                    for entry in ("map", "async"):
                        yield {"family": name, "choices": choices, "storage": storage, "entry": entry}

    return gen


def body_perm(data) -> Outcome:
    out = Outcome()
    prog = dict(_fixed_family()[data["family"]], storage=data["storage"])
    cfg = {"mode": "sched", "entry": data["entry"], "choices": data["choices"], "eager": [0]}
    info = run_config(prog, cfg, out)
    out.labels = [data["family"], data["storage"], data["entry"]]
    out.nontrivial = not info["identity"]
    return out


def body_storage(data) -> Outcome:
    """the same program, sequentially, under every registered storage (and one per-output mix): equal results and
    equal stored data (all compared with the model)"""
    from pipefunc.map._storage_array._base import storage_registry

    out = Outcome()
    prog = data["prog"]
    labs = mp.labels(prog)
    out.labels = [l for l in labs if l.startswith("internal") or l in ("partial_reduction", "fully_sliced", "full_reduction")]
    out.nontrivial = any(l.startswith("internal") for l in labs) and bool({"partial_reduction", "fully_sliced", "full_reduction"} & set(labs))
    model = _call_deps(prog)
    names = mp.output_names(prog)
    storages = sorted(storage_registry)
    mix = {"": storages[data["pick"] % len(storages)]}
    for k, fn in enumerate(prog["funcs"]):
        mix[",".join(fn["outs"]) if len(fn["outs"]) > 1 else fn["outs"][0]] = storages[(data["pick"] >> (2 * k + 2)) % len(storages)]
    for storage in [*storages, mix]:
        p2 = dict(prog, storage=storage)
        sub = Outcome()
        run_config(p2, {"mode": "seq", "entry": "map"}, sub, model)
        tag = storage if isinstance(storage, str) else "mixed"
        for f in sub.failures:
            out.fail(f"storage[{tag}]-{f.bucket}", f.detail)
    del names
    return out


@st.composite
def configs(draw):
    mode = draw(st.sampled_from(MODES))
    cfg = {"mode": mode, "entry": draw(st.sampled_from(["map", "map", "async"]))}
    if mode in ("sched", "per_output"):
        cfg["choices"] = draw(st.lists(st.integers(0, 8), min_size=1, max_size=12))
        cfg["eager"] = draw(st.lists(st.sampled_from([0, 0, 0, 1, 2]), min_size=1, max_size=6))
    if mode in ("thread", "process", "default_pool", "per_output"):
        cfg["delays"] = draw(st.lists(st.sampled_from([0, 0, 1, 2, 5]), min_size=1, max_size=5))
        cfg["workers"] = draw(st.integers(2, 4))
    if mode == "per_output":
        cfg["split"] = draw(st.integers(0, 7))
    return cfg


def campaigns(tier):
    strat = st.fixed_dictionaries({"prog": mp.map_programs(max_funcs=3, max_rank=2), "cfg": configs()})
    return [
        Campaign("sched", body, strat, quick=480, thorough=8000, describe="MapPrograms x execution configuration"),
        Campaign("storage", body_storage,
                 st.fixed_dictionaries({"prog": mp.map_programs(max_funcs=3, max_rank=3, min_funcs=2, storages=("dict",)), "pick": st.integers(0, 2**12 - 1)}),
                 quick=320, thorough=6000, describe="same program sequentially under every storage and a per-output mix"),
        Campaign("perm", body_perm, enumerate=enum_perm(tier), quick=0, thorough=0, exhaustive=(tier == "thorough"),
                 describe="all generation orders for the fixed family x storage x sync/async"),
    ]  # fmt: skip


PREDICATES = {}

"""C13 -- user-function failures surface unchanged, attributed and reproducible (DESIGN.md section 4, C13)."""

from __future__ import annotations

import asyncio
import copy
import gc
import multiprocessing
import os
import signal
from concurrent.futures import ProcessPoolExecutor, ThreadPoolExecutor

import numpy as np
from hypothesis import strategies as st

from vlib import boot
from vlib import mapprog as mp
from vlib.core import Campaign, Outcome, exc_bucket, exc_detail
from vlib.dag import DagModel, build_pipeline, dag_programs
from vlib.sched import ScheduledExecutor

from checks.c03_schedules import _call_deps

PID = "C13"
LEVEL = "fault_enumeration"
RULE = (
    "Fault injection: for generated DagPrograms every function in the dependency cone of a drawn output, and for "
    "generated MapPrograms a drawn (function, call index), is made the failing invocation (the tracer raises one of "
    "ValueError('m'), KeyError('k'), RuntimeError(), ZeroDivisionError('z'), a module-level custom exception with two "
    "args) under pipeline(...)/run/func (DAG; the failing callable drawn as a plain function or as a callable object "
    "with __name__ and a signature but no __qualname__, the pipeline drawn with debug=True/None/unset) and map sequential / ScheduledExecutor with drawn orders / thread pool / "
    "process pool / map_async (map). Oracle: the call raises the same class with equal args; __notes__ contain a note "
    "naming the failing function and, for every keyword of the failing invocation, 'name=repr(value)' with the value "
    "the tracer saw; no function that depends on the failing one is invoked (sequentially: nothing at all after the "
    "failing call); in-process modes: function and pipeline expose an ErrorSnapshot whose reproduce(), also after "
    "save_to_file/load_from_file, raises the same class/args; with file_array storage every earlier output loads "
    "equal to the model and the failing function's finished elements are present and equal, unstarted ones masked; the "
    "call returns within a watchdog (60 s). Non-trivial = failing call is not the first call of the run and the failing "
    "function is not in the last generation; distinct by sha1 of (program, failing call, exception, mode)."
)
ASSUMPTIONS = [
    "'returns instead of hanging' is a bounded wait (SIGALRM watchdog of 60 s), not a proof of termination",
    "finished elements are required to be loadable only for file_array (the backend that writes inside the worker)",
    "tasks of the failing generation that were already submitted may still run; only dependants must not",
]


_LOGS: dict = {}


def _log_lookup(key):
    return _LOGS[key]


class _SharedLog(list):
    """The in-process call log: serialising a tracer (deepcopy / pickling of a PipeFunc serialises its function by
    value) must not fork the log, so the log pickles to a reference to itself."""

    def __reduce__(self):
        _LOGS[id(self)] = self
        return (_log_lookup, (id(self),))


RESTORE = ["none", "none", "deepcopy", "copy"]
RESTORE_MAP = ["none", "none", "deepcopy", "copy", "pickle"]


class CustomError(Exception):
    """module-level (picklable) exception with two args"""


def _make_exc(key):
    cls, args = EXC[key]
    e = cls(*args)
    if key == "noted":
        e.add_note("a note the user function attached itself")
    return e


EXC = {
    "noted": (ValueError, ("already carries a note",)),
    "value": (ValueError, ("m",)),
    "key": (KeyError, ("k",)),
    "runtime0": (RuntimeError, ()),
    "zerodiv": (ZeroDivisionError, ("z",)),
    "custom2": (CustomError, ("a", 2)),
    # exception types the machinery itself gives a meaning to (future.result timeouts, iterator protocol, OS errors)
    "timeout": (TimeoutError, ("t",)),
    "stopiter": (StopIteration, ("s",)),
    "oserror": (OSError, (5, "io")),
}


class _Timeout(BaseException):
    pass


def _alarm(signum, frame):
    raise _Timeout


_HANGS = [0]
_WASTED = [0.0]  # seconds this process spent in watchdog periods that expired


def with_watchdog(fn, seconds=8):
    """Bounded wait for the 'returns instead of hanging' clause.  A first timeout is retried once with a three
    times longer budget (a loaded machine must not look like a hang) unless this process itself burnt the whole
    period on the CPU -- a busy-waiting hang, which is reported at once (such a loop can also grow without bound:
    re-raising one stored exception object extends its traceback on every turn).  Only a repeated (or spinning)
    timeout propagates."""
    import time as _time

    if _HANGS[0] >= 1:
        seconds = min(seconds, 4)  # this process has seen real hangs: do not spend full periods on every further one
    for attempt, budget in enumerate((seconds, 3 * seconds)):
        old = signal.signal(signal.SIGALRM, _alarm)
        cpu0 = _time.process_time()
        signal.setitimer(signal.ITIMER_REAL, budget)
        try:
            return fn()
        except _Timeout:
            _WASTED[0] += budget
            spinning = (_time.process_time() - cpu0) >= 0.7 * budget
            if attempt == 1 or spinning:
                _HANGS[0] += 1
                raise
        finally:
            signal.setitimer(signal.ITIMER_REAL, 0)
            signal.signal(signal.SIGALRM, old)
    return None


def check_exception(out: Outcome, tag: str, e: BaseException, exc_key: str, fname: str, kw_reprs: dict):
    cls, args = EXC[exc_key]
    if type(e) is not cls:
        out.fail(f"{tag}-exception-type-changed", f"got {type(e).__name__}: {e!r} want {cls.__name__}{args!r}")
        return
    if tuple(e.args) != tuple(args):
        out.fail(f"{tag}-exception-args-changed", f"got {e.args!r} want {args!r}")
    notes = list(getattr(e, "__notes__", []) or [])
    named = [n for n in notes if fname in n]
    if not named:
        out.fail(f"{tag}-no-note-naming-function", f"notes {notes!r} function {fname}")
        return
    for k, r in kw_reprs.items():
        if not any(f"{k}={r}" in n for n in named):
            out.fail(f"{tag}-note-lacks-kwarg", f"{k}={r} not in {named!r}"[:500])
            break


def check_snapshot(out: Outcome, tag: str, snap, exc_key: str, log_reset):
    from pipefunc._pipefunc import ErrorSnapshot

    cls, args = EXC[exc_key]
    if callable(snap):  # the attribute is read here so that a raising read is a finding, not a harness error
        try:
            snap = snap()
        except Exception as e:
            out.fail(f"{tag}-error_snapshot-read-raised:{type(e).__name__}", exc_detail(e))
            return
    if snap is None:
        out.fail(f"{tag}-no-error_snapshot", "")
        return
    for variant in ("direct", "file"):
        s = snap
        if variant == "file":
            path = boot.fresh_path("snap") + ".pkl"
            try:
                snap.save_to_file(path)
                s = ErrorSnapshot.load_from_file(path)
            except Exception as e:
                out.fail(exc_bucket(e, f"{tag}-snapshot-save-load-raised"), exc_detail(e))
                continue
            finally:
                try:
                    import os

                    os.unlink(path)
                except OSError:
                    pass
        log_reset()
        try:
            r = s.reproduce()
        except Exception as e:
            if type(e) is not cls or tuple(e.args) != tuple(args):
                out.fail(f"{tag}-reproduce-{variant}-different-exception", f"got {e!r} want {cls.__name__}{args!r}")
            continue
        out.fail(f"{tag}-reproduce-{variant}-did-not-raise", repr(r)[:200])


# ---- DAG campaign --------------------------------------------------------------------------------------
def body_dag(data) -> Outcome:
    try:
        return _body_dag(data)
    finally:
        _LOGS.clear()


def _body_dag(data) -> Outcome:
    out = Outcome()
    prog, pick, exc_key, style = data["prog"], data["pick"], data["exc"], data["style"]
    m = DagModel(prog)
    outs = m.all_outputs()
    target = outs[pick % len(outs)]
    roots = m.needed_roots(target)
    kw = {r: f"V{r}" for r in roots}
    want, executed, _, _, calls, _ = m.evaluate(target, kw)
    fail_fn = executed[(pick // 7) % len(executed)]
    out.labels = [f"exc:{exc_key}", f"style:{style}"]
    log: list = _SharedLog()
    cls, args = EXC[exc_key]

    def fail(fname, a):
        if fname == fail_fn:
            raise _make_exc(exc_key)

    if (pick >> 11) % 2 and roots:
        # one root argument gets a (valid) name that starts with an underscore, everywhere it is used
        old_r = roots[(pick >> 12) % len(roots)]
        new_r = "_" + old_r
        prog = copy.deepcopy(prog)
        prog["roots"] = [new_r if r == old_r else r for r in prog["roots"]]
        for fn_ in prog["funcs"]:
            same = [o == p_ for o, p_ in zip(fn_["orig"], fn_["params"])]
            fn_["orig"] = [new_r if (o == old_r and sm) else o for o, sm in zip(fn_["orig"], same)]
            fn_["params"] = [new_r if p_ == old_r else p_ for p_ in fn_["params"]]
            for key in ("sig_defaults", "pf_defaults", "bound"):
                fn_[key] = {(new_r if k_ == old_r else k_): v_ for k_, v_ in fn_[key].items()}
        m = DagModel(prog)
        roots = m.needed_roots(target)
        kw = {r: f"V{r}" for r in roots}
        want, executed, _, _, calls, _ = m.evaluate(target, kw)
        if fail_fn not in executed:
            fail_fn = executed[(pick // 7) % len(executed)]
        out.labels.append("underscore-argument-name")
    if (pick >> 9) % 3 == 0:
        # the failing function receives its evaluated resources through `resources_variable`
        prog = copy.deepcopy(prog)
        for fn_ in prog["funcs"]:
            if fn_["name"] == fail_fn:
                fn_["resvar"] = "res_"
        out.labels.append("failing-function-has-resources_variable")
    feat = data.get("feat")  # absent in cases stored before these options existed
    if feat is not None and feat % 3 == 0:
        # the failing user callable is an object with __name__ and a signature but no __qualname__ (what a
        # NestedPipeFunc wraps, what a callable instance is)
        prog = copy.deepcopy(prog)
        for fn_ in prog["funcs"]:
            if fn_["name"] == fail_fn:
                fn_["callable_object"] = True
        out.labels.append("failing-callable-is-an-object")
    # debug=True (pipeline-wide) only adds printing: the failure must surface exactly as without it
    debug = False if feat is None else {0: True, 1: None}.get((feat // 3) % 4, False)
    out.labels.append(f"debug:{debug}")
    try:
        p = build_pipeline(prog, log, fail=fail, **({} if debug is False else {"debug": debug}))
    except Exception:
        out.labels.append("n/a:build-refused")
        return out
    # a restored pipeline (copy.deepcopy goes through PipeFunc.__getstate__/__setstate__ like pickling does, while
    # the tracer functions -- and the call log they write -- stay the same objects) behaves like the original
    restore = RESTORE[(pick // 31) % len(RESTORE)]
    if restore != "none":
        try:
            p = copy.deepcopy(p) if restore == "deepcopy" else p.copy()
        except Exception as e:
            out.fail(exc_bucket(e, f"dag-{restore}-raised"), exc_detail(e))
            return out
    out.labels.append(f"restore:{restore}")
    fn = m.funcs[fail_fn]
    call_args = next(c for c in calls if c[0] == fail_fn)[1]
    kw_reprs = {pname: repr(v) for pname, v in zip(fn["params"], call_args)}
    dependants = {f for f in executed if fail_fn in _trans_deps(m, f)}
    out.nontrivial = executed.index(fail_fn) > 0 or bool(dependants)
    import contextlib
    import io

    try:
        with contextlib.redirect_stdout(io.StringIO()):  # debug printing is not part of the verdict
            if style == "call":
                r = with_watchdog(lambda: p(target, **kw))
            elif style == "run":
                r = with_watchdog(lambda: p.run(target, kwargs=dict(kw)))
            elif style == "full_output":
                r = with_watchdog(lambda: p.run(target, full_output=True, kwargs=dict(kw)))
            else:
                r = with_watchdog(lambda: p.func(target)(**kw))
    except _Timeout:
        out.fail(f"dag-{style}-hang", f"{target}")
        return out
    except Exception as e:
        check_exception(out, f"dag-{style}", e, exc_key, fail_fn, kw_reprs)
        names = [c[0] for c in log]
        if names.count(fail_fn) != 1:
            out.fail(f"dag-{style}-failing-function-called-{names.count(fail_fn)}-times", repr(names))
        elif names[-1] != fail_fn:
            out.fail(f"dag-{style}-ran-user-code-after-failure", repr(names))
        if set(names) & dependants:
            out.fail(f"dag-{style}-dependant-invoked", repr(names))
        pf = p[fn["outs"][0]]
        check_snapshot(out, f"dag-{style}-func", lambda: pf.error_snapshot, exc_key, lambda: log.clear())
        check_snapshot(out, f"dag-{style}-pipeline", lambda: p.error_snapshot, exc_key, lambda: log.clear())
        return out
    out.fail(f"dag-{style}-failure-swallowed", f"returned {r!r}")
    return out


def _trans_deps(m: DagModel, f: str) -> set:
    seen: set = set()
    stack = list(m.deps(f))
    while stack:
        g = stack.pop()
        if g not in seen:
            seen.add(g)
            stack.extend(m.deps(g))
    return seen


# ---- map campaign --------------------------------------------------------------------------------------
def body_map(data) -> Outcome:
    from pipefunc.map import load_outputs

    out = Outcome()
    if (_HANGS[0] >= 2 or _WASTED[0] >= 45) and "watchdog" not in data:
        # two hangs are already reported by this process; every further one costs a watchdog period (and, for a
        # busy-waiting hang, a core), so the rest of this shard's map cases is skipped -- never a verdict
        out.labels.append("skipped-after-repeated-hangs")
        return out
    prog, cfg, pick, exc_key = data["prog"], data["cfg"], data["pick"], data["exc"]
    mode, entry = cfg["mode"], cfg["entry"]
    if exc_key == "stopiter" and entry == "async" and not data.get("allow_stopiter_async"):
        # recorded finding (C13-stopiteration-hangs-map_async): excluded by construction, every such case would cost
        # two watchdog periods
        entry = "map"
        excluded = ["excluded:stopiter-under-map_async"]
    else:
        excluded = []
    tag = mode if entry == "map" else f"{mode}-async"
    out.labels = [f"mode:{tag}", f"exc:{exc_key}"] + excluded + [l for l in mp.labels(prog) if l.startswith("storage:")]
    ref, calls, deps = _call_deps(prog)
    cls, args = EXC[exc_key]
    funcs = {fn["name"]: fn for fn in prog["funcs"]}
    prod = mp.func_of_output(prog)
    # transitive dependants (function level)
    fdeps = {fn["name"]: {prod[p["name"]]["name"] for p in fn["params"] if p["name"] in prod} for fn in prog["funcs"]}
    has_dependants = {d for f in fdeps for d in fdeps[f]}
    preferred = [c for i, c in enumerate(calls) if i > 0 and c[0] in has_dependants]
    pool = preferred if preferred and pick % 4 else calls
    fname, fbase, fids = pool[(pick // 4) % len(pool)]

    def trans(f):
        seen, stack = set(), list(fdeps[f])
        while stack:
            g = stack.pop()
            if g not in seen:
                seen.add(g)
                stack.extend(fdeps[g])
        return seen

    dependants = {f for f in funcs if fname in trans(f)}
    first_call = calls[0][1] == fbase
    out.nontrivial = (not first_call) and bool(dependants)
    folder = boot.fresh_path("c13")
    log = mp.FileLog(boot.fresh_path("c13log") + ".jsonl")
    delays = cfg.get("delays", [0])

    def hook(fn_name, base, kw):
        import os
        import time
        import zlib

        if base == fbase:
            log.append(["fail", fn_name, base, os.getpid(), {k: repr(v) for k, v in kw.items()}])
            raise _make_exc(exc_key)
        ms = delays[zlib.crc32(base.encode()) % len(delays)]
        if ms:
            time.sleep(ms / 1000.0)

    executors: list = []
    try:
        try:
            pipe = mp.build_pipeline(prog, log, hook)
        except Exception:
            out.labels.append("n/a:build-refused")
            return out
        restore = RESTORE_MAP[(pick // 31) % len(RESTORE_MAP)]
        if restore != "none":
            try:
                if restore == "pickle":
                    import cloudpickle

                    pipe = cloudpickle.loads(cloudpickle.dumps(pipe))
                else:
                    pipe = copy.deepcopy(pipe) if restore == "deepcopy" else pipe.copy()
            except Exception as e:
                out.fail(exc_bucket(e, f"{tag}-{restore}-raised"), exc_detail(e))
                return out
        out.labels.append(f"restore:{restore}")
        kw = dict(run_folder=folder, internal_shapes=mp.internal_shapes_arg(prog), storage=mp.storage_arg(prog))
        in_process = True
        if mode == "seq":
            kw["parallel"] = False
        elif mode == "sched":
            kw["executor"] = ScheduledExecutor(cfg.get("choices", [0]), cfg.get("eager", [0]))
            executors.append(kw["executor"])
        elif mode == "thread":
            kw["executor"] = ThreadPoolExecutor(max_workers=cfg.get("workers", 3))
            executors.append(kw["executor"])
        elif mode == "process":
            kw["executor"] = ProcessPoolExecutor(max_workers=cfg.get("workers", 2), mp_context=multiprocessing.get_context("fork"))
            executors.append(kw["executor"])
            in_process = False
        elif mode == "default_pool":  # the pool pipefunc creates itself: parallel=True without an executor
            kw["parallel"] = True
            in_process = False
        if entry == "map" and mode in ("seq", "thread", "sched") and (pick >> 6) % 3 == 0:
            kw["show_progress"] = True  # the progress tracker wraps every call; it must not alter what a failure looks like
            out.labels.append("show_progress")
        inputs = mp.make_inputs(prog)

        def go():
            if entry == "map" or mode == "seq":
                return pipe.map(inputs, **kw)
            kw.pop("parallel", None)

            async def amain():
                am = pipe.map_async(inputs, **kw)
                return await am.task

            return asyncio.run(amain())

        raised = None
        try:
            r = with_watchdog(go, data.get("watchdog", 8))
        except _Timeout:
            out.fail(f"{tag}-hang", f"failing call {fbase}")
            return out
        except Exception as e:
            raised = e
        for ex in executors:
            ex.shutdown(wait=True)
        entries = log.read()
        if raised is None:
            out.fail(f"{tag}-failure-swallowed", f"map returned {list(r)!r}; failing call {fbase}")
            return out
        fail_entries = [e for e in entries if e[0] == "fail"]
        kw_reprs = fail_entries[0][4] if fail_entries else {}
        check_exception(out, tag, raised, exc_key, fname, kw_reprs)
        starts = [e for e in entries if e[0] == "start"]
        started_funcs = {e[1] for e in starts}
        if started_funcs & dependants:
            out.fail(f"{tag}-dependant-invoked", f"{sorted(started_funcs & dependants)} after failure of {fname}")
        if len(fail_entries) != 1:
            out.fail(f"{tag}-failing-call-ran-{len(fail_entries)}-times", fbase)
        if mode == "seq" and entries and entries[-1][0] != "fail":
            out.fail(f"{tag}-ran-user-code-after-failure", repr([e[:2] for e in entries[-3:]]))
        # generation structure: no call of a *later* generation than the failing function's
        if in_process:
            pf = pipe[funcs[fname]["outs"][0]]
            check_snapshot(out, f"{tag}-func", lambda: pf.error_snapshot, exc_key, lambda: None)
            check_snapshot(out, f"{tag}-pipeline", lambda: pipe.error_snapshot, exc_key, lambda: None)
        # results completed before the failure remain loadable (file_array writes inside the worker)
        storage = prog["storage"]
        gen: dict[str, int] = {}
        for fn in prog["funcs"]:  # listed in dependency order
            gen[fn["name"]] = 1 + max([gen[d] for d in fdeps[fn["name"]]] or [-1])
        ended = {e[2] for e in entries if e[0] == "end"}
        started = {e[2] for e in entries if e[0] in ("start", "fail")}
        for fn in prog["funcs"]:
            stor = storage if isinstance(storage, str) else storage.get(",".join(fn["outs"]) if len(fn["outs"]) > 1 else fn["outs"][0], storage.get("", "file_array"))
            if stor != "file_array":
                continue
            mine = [(b, ids) for f, b, ids in calls if f == fn["name"]]
            is_array = fn["mapspec"] and any(p["spec"] is not None for p in fn["params"])
            complete = all(b in ended for b, _ in mine)
            if fn["name"] != fname and not (complete and gen[fn["name"]] < gen[fname]):
                continue  # only earlier generations and the failing function itself are judged
            for o in fn["outs"]:
                try:
                    got = load_outputs(o, run_folder=folder)
                except Exception as e:
                    if complete or (is_array and fn["name"] == fname):
                        out.fail(exc_bucket(e, f"{tag}-completed-result-not-loadable"), f"{o}: {exc_detail(e)}")
                    continue
                if complete:
                    if mp.canon(got) != mp.canon(ref[o]):
                        out.fail(f"{tag}-completed-result-differs", f"{o}: got {str(mp.canon(got))[:200]} want {str(mp.canon(ref[o]))[:200]}")
                elif is_array:
                    exp = np.ma.MaskedArray(np.asarray(ref[o], dtype=object).copy(), mask=np.ones(np.shape(ref[o]), dtype=bool))
                    ext = mp.ext_axes_of(fn)
                    for b, ids in mine:
                        if b in ended or b not in started:
                            key = tuple(ids[a] if a in ext else slice(None) for a in fn["out_axes"])
                            if b in ended:
                                exp.mask[key] = False
                    # elements that were never started must be masked, finished ones present and equal
                    cg, ce = mp.canon(got), mp.canon(exp)
                    if cg != ce:
                        out.fail(f"{tag}-partial-result-differs", f"{o}: got {str(cg)[:250]} want {str(ce)[:250]}")
    finally:
        for ex in executors:
            try:
                ex.shutdown(wait=True)
            except Exception:
                pass
        log.clear()
        gc.collect()
        boot.rm(folder)
    return out


@st.composite
def map_cfg(draw):
    mode = draw(st.sampled_from(["sched", "thread", "seq", "sched", "process", "thread", "sched", "default_pool"]))
    cfg = {"mode": mode, "entry": draw(st.sampled_from(["map", "map", "async"]))}
    if mode == "sched":
        cfg["choices"] = draw(st.lists(st.integers(0, 8), min_size=1, max_size=10))
        cfg["eager"] = draw(st.lists(st.sampled_from([0, 0, 0, 1, 2]), min_size=1, max_size=5))
    if mode in ("thread", "process", "default_pool"):
        cfg["delays"] = draw(st.lists(st.sampled_from([0, 0, 1, 3]), min_size=1, max_size=4))
        cfg["workers"] = draw(st.integers(2, 3))
    return cfg


# ------------------------------------------------------------------------------------------------
# environment faults while the failure is being recorded: ErrorSnapshot looks the local IP address up with a UDP
# "connect" to a public address, which pipefunc documents as best effort ("unknown" on any failure).  On hosts
# without a route / resolver that connect raises; it must never replace the user's exception.
NET_FAULTS = ["none", "none", "none", "unreachable", "gaierror", "timeout", "permission"]


class _net_fault:
    def __init__(self, kind: str) -> None:
        self.kind = kind

    def __enter__(self):
        import socket

        self._orig = socket.socket
        if self.kind == "none":
            return self
        kind = self.kind

        class FaultySocket(self._orig):  # type: ignore[name-defined,misc]
            def connect(self, address):
                if self.family == socket.AF_INET and isinstance(address, tuple) and not str(address[0]).startswith("127."):
                    if kind == "unreachable":
                        raise OSError(101, "Network is unreachable")
                    if kind == "gaierror":
                        raise socket.gaierror(-3, "Temporary failure in name resolution")
                    if kind == "timeout":
                        raise TimeoutError("timed out")
                    raise PermissionError(13, "Permission denied")
                return super().connect(address)

        socket.socket = FaultySocket  # type: ignore[misc]
        return self

    def __exit__(self, *a):
        import socket

        socket.socket = self._orig  # type: ignore[misc]
        return False


def _in_killable_child(body, data, budget: float) -> Outcome:
    """Run one case in a forked child of its own process group and kill the whole group when it does not answer in
    time.  Used for the exception types that the waiting machinery itself reacts to (TimeoutError): a wrong reaction
    can be a busy-waiting loop that the in-process watchdog (a Python-level signal handler) does not reliably break."""
    import json as _json
    import select
    import time as _time

    r, w = os.pipe()
    pid = os.fork()
    if pid == 0:
        try:
            os.close(r)
            os.setpgid(0, 0)
            o = body(data)
            payload = {"nontrivial": o.nontrivial, "labels": o.labels, "units": o.units,
                       "failures": [[f.bucket, f.detail, f.info if isinstance(f.info, (dict, list, str, int, type(None))) else None] for f in o.failures]}  # fmt: skip
            os.write(w, _json.dumps(payload, default=str).encode() + b"\n")
        finally:
            os._exit(0)
    os.close(w)
    out = Outcome()
    buf = b""
    t0 = _time.time()
    while _time.time() - t0 < budget:
        ready, _, _ = select.select([r], [], [], 0.5)
        if ready:
            chunk = os.read(r, 1 << 20)
            buf += chunk
            if not chunk or buf.endswith(b"\n"):  # (pool workers of the child may keep the pipe open: do not wait for EOF)
                break
    try:
        os.killpg(pid, 9)
    except OSError:
        pass
    try:
        os.kill(pid, 9)
    except OSError:
        pass
    os.waitpid(pid, 0)
    os.close(r)
    if buf:
        try:
            d = _json.loads(buf.decode())
            out.nontrivial, out.labels, out.units = d["nontrivial"], d["labels"], d["units"]
            for b, det, info in d["failures"]:
                out.fail(b, det, info)
            return out
        except ValueError:
            pass
    cfg = data.get("cfg", {})
    tag = cfg.get("mode", "?") if cfg.get("entry", "map") == "map" else f"{cfg.get('mode', '?')}-async"
    out.labels = [f"mode:{tag}", f"exc:{data.get('exc')}"]
    out.fail(f"{tag}-hang", f"the case did not finish within {budget:.0f} s (killed)")
    return out


def _with_env(body):
    def wrapped(data) -> Outcome:
        kind = NET_FAULTS[(data["pick"] // 977) % len(NET_FAULTS)]
        if body is body_map and data.get("exc") == "timeout" and data.get("cfg", {}).get("mode") != "seq":
            with _net_fault(kind):
                out = _in_killable_child(body, data, 45.0)
                if any(f.bucket.endswith("-hang") and "killed" in f.detail for f in out.failures):
                    # the external budget expired: once more with three times the budget before this counts
                    out = _in_killable_child(body, data, 135.0)
            out.labels.append("run-in-a-killable-child")
        else:
            with _net_fault(kind):
                out = body(data)
        out.labels.append(f"net-fault:{kind}")
        if kind != "none":
            for f in out.failures:
                f.bucket = f"{f.bucket}[net-fault]"
        return out

    return wrapped


def campaigns(tier):
    dag = st.fixed_dictionaries(
        {
            "prog": dag_programs(max_funcs=6, min_funcs=2, consistent_ignored_defaults=True),
            "pick": st.integers(0, 2**16 - 1),
            "feat": st.integers(0, 11),
            "exc": st.sampled_from(sorted(EXC)),
            "style": st.sampled_from(["call", "run", "full_output", "func"]),
        }
    )
    mapc = st.fixed_dictionaries(
        {
            "prog": mp.map_programs(max_funcs=3, max_rank=2, min_funcs=2),
            "cfg": map_cfg(),
            "pick": st.integers(0, 2**16 - 1),
            "exc": st.sampled_from(sorted(EXC)),
        }
    )
    return [
        Campaign("dag", _with_env(body_dag), dag, quick=1500, thorough=30000, describe="DagPrograms x failing function x exception x call style"),
        Campaign("map", _with_env(body_map), mapc, quick=500, thorough=8000, describe="MapPrograms x failing call x exception x execution mode"),
    ]


def _pred_stopiter_async(case, failure) -> bool:
    """C13 finding: a user function raising StopIteration under map_async: asyncio refuses to set StopIteration on
    a future ("interacts badly with generators"), the wrapped task never completes and `await task` hangs."""
    d = case["data"]
    return d.get("exc") == "stopiter" and d.get("cfg", {}).get("entry") == "async" and failure.bucket.endswith("-hang")


def _pred_timeout_async(case, failure) -> bool:
    """C13 finding: a user function raising TimeoutError under map_async: asyncio converts a TimeoutError coming out
    of a concurrent future into a *new* TimeoutError(*args) (futures._convert_future_exc), which drops the notes
    pipefunc attached; type and message survive, the annotation does not."""
    d = case["data"]
    return d.get("exc") == "timeout" and d.get("cfg", {}).get("entry") == "async" and "note" in failure.bucket


PREDICATES = {"stopiter_async": _pred_stopiter_async, "timeout_async": _pred_timeout_async}

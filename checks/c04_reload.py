"""C04 -- results stored in a run folder reload exactly, from any process (DESIGN.md section 4, C04)."""

from __future__ import annotations

import atexit
import json
import os
import subprocess
import sys

import numpy as np
from hypothesis import strategies as st

from vlib import boot
from vlib import faultfs
from vlib import mapprog as mp
from vlib.core import Campaign, Outcome, exc_bucket, exc_detail

PID = "C04"
LEVEL = "exploration"
RULE = (
    "Hypothesis-generated MapPrograms x every persisting storage (file_array; dict and shared_memory_dict with "
    "persist_memory=True; per-output mixes), optionally with a scalar root that has a signature default. The map runs in "
    "a forked child that writes a JSON summary of its RunInfo and exits (every Manager process it created is gone). "
    "Then (a) the harness process and (b) a fresh interpreter started with a different PYTHONHASHSEED call "
    "load_outputs for every output, RunInfo.load(F) twice in a row, and load_xarray_dataset(run_folder=F). Oracle: "
    "outputs equal the MapSpec denotation model; RunInfo inputs/defaults equal what was given; shapes, shape_masks, "
    "mapspecs_as_strings and storage (incl. tuple keys) equal the child's summary and are identical on the second "
    "load; the xarray dataset loads and each MapSpec output present in it carries the model's values. Non-trivial = "
    ">= 1 MapSpec output with >= 2 elements; distinct by sha1 of the program; fresh-interpreter loads are counted "
    "in the label histogram."
)
ASSUMPTIONS = [
    "values are compared in canonical nested-list form (container types are not part of the property)",
    "the xarray part only requires successful loading and equal values of the variables/coordinates that are present; labelling is C19's subject",
    "xarray loading is only required for programs in C19's domain (index sizes consistent, no auto-generated MapSpecs, 1-D/2-D mapped roots)",
]

_WORKER_SRC = r"""
import json, os, sys, warnings
sys.modules['zarr'] = None
sys.path.insert(0, os.environ['VERIF_DIR'])
sys.path.insert(0, os.environ.get('VERIF_REPO', '/repo'))
warnings.filterwarnings('ignore')
import io, contextlib
from vlib import mapprog as mp
from pipefunc.map import load_outputs, load_xarray_dataset
from pipefunc.map._run_info import RunInfo

def summary(ri):
    return {
        'inputs': {k: mp.canon(v) for k, v in ri.inputs.items()},
        'defaults': {k: mp.canon(v) for k, v in ri.defaults.items()},
        'shapes': {str(k): list(v) for k, v in ri.shapes.items()},
        'shape_masks': {str(k): list(v) for k, v in ri.shape_masks.items()},
        'mapspecs': list(ri.mapspecs_as_strings),
        'storage': ri.storage if isinstance(ri.storage, str) else {str(k): v for k, v in ri.storage.items()},
        'internal_shapes': None if ri.internal_shapes is None else {str(k): list(v) if isinstance(v, (tuple, list)) else v for k, v in ri.internal_shapes.items()},
    }

for line in sys.stdin:
    req = json.loads(line)
    out = {}
    try:
        with contextlib.redirect_stdout(io.StringIO()):
            out['loaded'] = {}
            for o in req['outputs']:
                try:
                    out['loaded'][o] = mp.canon(load_outputs(o, run_folder=req['folder']))
                except Exception as e:
                    out['loaded'][o] = {'error': type(e).__name__ + ': ' + str(e)[:200]}
            try:
                out['run_info'] = summary(RunInfo.load(req['folder']))
                out['run_info2'] = summary(RunInfo.load(req['folder']))
            except Exception as e:
                out['run_info_error'] = type(e).__name__ + ': ' + str(e)[:200]
            if req.get('xarray'):
                try:
                    ds = load_xarray_dataset(run_folder=req['folder'])
                    out['xarray'] = {str(n): mp.canon(ds[n].values) for n in req['outputs'] if n in ds}
                    out['xarray_coords'] = {str(n): mp.canon(ds[n].values) for n in req.get('roots', []) if n in ds.coords}
                except Exception as e:
                    out['xarray_error'] = type(e).__name__ + ': ' + str(e)[:200]
    except Exception as e:
        out['fatal'] = type(e).__name__ + ': ' + str(e)[:200]
    sys.stdout.write(json.dumps(out) + '\n')
    sys.stdout.flush()
"""

_worker = None


def _get_worker():
    global _worker
    if _worker is None or _worker.poll() is not None:
        env = dict(os.environ, PYTHONHASHSEED="4242", VERIF_DIR=boot.VERIF, VERIF_REPO=boot.REPO, VERIF_NO_REEXEC="1", VERIF_NO_MAIN_CLASS="1")
        _worker = subprocess.Popen([sys.executable, "-c", _WORKER_SRC], stdin=subprocess.PIPE, stdout=subprocess.PIPE,
                                   stderr=subprocess.DEVNULL, env=env, text=True)  # fmt: skip
        atexit.register(_stop_worker)
    return _worker


def _stop_worker():
    global _worker
    if _worker is not None:
        try:
            _worker.stdin.close()
            _worker.wait(timeout=5)
        except Exception:
            _worker.kill()
        _worker = None


def ask_worker(req: dict) -> dict:
    w = _get_worker()
    w.stdin.write(json.dumps(req) + "\n")
    w.stdin.flush()
    line = w.stdout.readline()
    if not line:
        raise RuntimeError("fresh-interpreter worker died")
    return json.loads(line)


def summary(ri) -> dict:
    return {
        "inputs": {k: mp.canon(v) for k, v in ri.inputs.items()},
        "defaults": {k: mp.canon(v) for k, v in ri.defaults.items()},
        "shapes": {str(k): list(v) for k, v in ri.shapes.items()},
        "shape_masks": {str(k): list(v) for k, v in ri.shape_masks.items()},
        "mapspecs": list(ri.mapspecs_as_strings),
        "storage": ri.storage if isinstance(ri.storage, str) else {str(k): v for k, v in ri.storage.items()},
        "internal_shapes": None if ri.internal_shapes is None else {str(k): list(v) if isinstance(v, (tuple, list)) else v for k, v in ri.internal_shapes.items()},
    }


def xarray_domain(prog: dict) -> bool:
    """Programs for which xarray labelling is defined without ambiguity (C19 explores the rest)."""
    for fn in prog["funcs"]:
        if not fn["mapspec"] and fn["int_axes"]:
            return False  # auto-generated MapSpec
        if fn.get("nones"):
            return False  # xarray represents None inside object arrays as missing (nan)
    for r, spec in prog["roots"].items():
        if len(spec["axes"]) > 2:
            return False
    for fn in prog["funcs"]:
        if not fn["mapspec"]:
            continue
        seen: set = set()
        for p in fn["params"]:
            sp = p["spec"]
            if sp is None or len(sp) < 2:
                continue
            if any(a is None for a in sp):
                return False  # partially sliced >= 2-D array
            if tuple(sp) in seen:
                return False  # two >= 2-D arrays zipped on the same axes (a 2-D MultiIndex is not supported by pandas)
            seen.add(tuple(sp))
    # the same two situations reached through intermediate arrays (C19's recorded findings, structural predicates)
    from checks.c19_xarray import never_named_axis, zip_of_2d

    if zip_of_2d(prog, True) or never_named_axis(prog):
        return False
    return True


def body(data) -> Outcome:
    out = Outcome()
    prog = data["prog"]
    names = mp.output_names(prog)
    ref = mp.denotation(prog)
    counts = mp.expected_call_counts(prog)
    out.labels = [l for l in mp.labels(prog) if l.startswith("storage:")]
    out.nontrivial = any(fn["mapspec"] and counts[fn["name"]] >= 2 for fn in prog["funcs"])
    folder = boot.fresh_path("c04")
    side = boot.fresh_path("c04side") + ".json"
    # every third program has its root inputs in a scope ("grid.r0", "grid.r1": dotted names in the run folder)
    import zlib

    # every fourth program returns objects of a class defined in __main__ (a user's script): they reload in another
    # interpreter only if they were serialised by value
    crc = zlib.crc32(json.dumps({k: v for k, v in prog.items() if k != "value_class"}, sort_keys=True).encode())
    if crc % 4 == 1:
        prog = dict(prog, value_class="main")
        out.labels.append("results-of-a-class-defined-in-__main__")

    scope = "grid." if crc % 3 == 0 and mp.used_roots(prog) else ""
    if scope:
        out.labels.append("scoped-root-inputs")
    inputs = {scope + k: v for k, v in mp.make_inputs(prog).items()}
    continued_axis = None
    stor = prog["storage"]
    if not scope and ({stor} if isinstance(stor, str) else set(stor.values())) <= {"file_array", "shared_memory_dict"}:
        from checks.c06_partial import independent_axes, never_named_axis

        ind = independent_axes(prog)
        if ind and not never_named_axis(prog) and (crc >> 3) % 2:
            continued_axis = ind[0]
            out.labels.append("stored-by-a-partial-run-continued-in-a-process-pool")

    subset_first = None
    ish_subset = None
    if continued_axis is None and (crc >> 5) % 2:
        k = len(prog["funcs"])
        while k > 0 and not prog["funcs"][k - 1]["mapspec"] and not prog["funcs"][k - 1]["int_axes"]:
            k -= 1
        consumed = {q["name"] for fn in prog["funcs"] for q in fn["params"]}
        tail_outs = [o for fn in prog["funcs"][k:] for o in fn["outs"]]
        if 0 < k < len(prog["funcs"]) and not (set(tail_outs) & consumed):
            subset_first = [o for fn in prog["funcs"][:k] for o in fn["outs"]]
            ish_all = mp.internal_shapes_arg(prog)
            ish_subset = None if not ish_all else ({a: b for a, b in ish_all.items() if a in subset_first} or None)
            # the selection must not drop a root input (map would call the others surplus)
            used_sub = {q["name"] for fn in prog["funcs"][:k] for q in fn["params"]}
            if set(mp.used_roots(prog)) - used_sub:
                subset_first = None
            else:
                out.labels.append("stored-by-a-subset-run-completed-with-cleanup=False")

    def run(inputs=inputs):
        from pipefunc.map._run_info import RunInfo

        pipe = mp.build_pipeline(prog)
        if scope:
            pipe.update_scope("grid", inputs="*")
        kw = dict(run_folder=folder, internal_shapes=mp.internal_shapes_arg(prog), storage=mp.storage_arg(prog), persist_memory=True)
        if subset_first:
            # the folder is first filled by a run that selects a subset of the outputs and then completed by the full
            # pipeline with cleanup=False: what the folder records afterwards is the full run
            pipe.map(inputs, output_names=set(subset_first), parallel=False, **{**kw, "internal_shapes": ish_subset})
            pipe.map(inputs, cleanup=False, parallel=False, **kw)
        elif continued_axis is not None:
            # the stored run is produced in two steps: one slice of an independent axis first, the rest by a
            # continuation (cleanup=False) in a process pool -- what is reloaded afterwards must not depend on that
            import multiprocessing
            from concurrent.futures import ProcessPoolExecutor

            pipe.map(inputs, fixed_indices={continued_axis: 0}, parallel=False, **kw)
            with ProcessPoolExecutor(max_workers=2, mp_context=multiprocessing.get_context("fork")) as ex:
                pipe.map(inputs, cleanup=False, parallel=True, executor=ex, **kw)
        else:
            pipe.map(inputs, parallel=False, **kw)
        return summary(RunInfo.load(folder))

    try:
        r = faultfs.run_child(run, folder, None, side)
        if not r.get("ok"):
            out.labels.append("n/a:run-refused")  # C01's subject
            out.labels.append(f"n/a:run-refused:{r.get('exc_type')}@{r.get('where')}")
            return out
        child = r["result"]
        use_xarray = xarray_domain(prog)
        roots1d = [r for r in inputs if len(prog["roots"][r[len(scope):]]["axes"]) == 1]
        for where in ("same-process", "fresh-interpreter"):
            out.labels.append(where)
            if where == "same-process":
                got = _load_here(folder, names, use_xarray, roots1d)
            else:
                got = ask_worker({"folder": folder, "outputs": names, "xarray": use_xarray, "roots": roots1d})
            if "fatal" in got:
                out.fail(f"{where}-load-crashed", got["fatal"])
                continue
            for o in names:
                v = got["loaded"].get(o)
                if isinstance(v, dict) and "error" in v:
                    out.fail(f"{where}-load_outputs-raised:{v['error'].split(':')[0]}", f"{o}: {v['error']}")
                elif v != mp.canon(ref[o]):
                    out.fail(f"{where}-load_outputs-differs", f"{o}: got {str(v)[:200]} want {str(mp.canon(ref[o]))[:200]}")
            for o, v in got.get("reload_after_mutation", {}).items():
                out.fail(f"{where}-second-load-sees-the-caller's-changes-to-the-first", f"{o}: {str(v)[:200]}")
            if "run_info_error" in got:
                out.fail(f"{where}-RunInfo.load-raised:{got['run_info_error'].split(':')[0]}", got["run_info_error"])
            else:
                ri = got["run_info"]
                want_inputs = {k: mp.canon(v) for k, v in inputs.items()}
                if ri["inputs"] != want_inputs:
                    out.fail(f"{where}-RunInfo-inputs-differ", f"got {str(ri['inputs'])[:200]} want {str(want_inputs)[:200]}")
                for key in ("defaults", "shapes", "shape_masks", "mapspecs", "storage", "internal_shapes"):
                    if ri[key] != child[key]:
                        out.fail(f"{where}-RunInfo-{key}-differ", f"got {ri[key]} want {child[key]}")
                if got["run_info2"] != ri:
                    out.fail(f"{where}-RunInfo-second-load-differs", "")
                # shapes must also agree with the model
                for o in names:
                    fn = mp.func_of_output(prog)[o]
                    if fn["out_axes"] and fn["mapspec"]:
                        want_shape = [prog["sizes"][a] for a in fn["out_axes"]]
                        if ri["shapes"].get(o) != want_shape:
                            out.fail(f"{where}-RunInfo-shape-wrong", f"{o}: {ri['shapes'].get(o)} want {want_shape}")
                        want_mask = [a not in fn["int_axes"] for a in fn["out_axes"]]
                        if ri["shape_masks"].get(o) != want_mask:
                            out.fail(f"{where}-RunInfo-mask-wrong", f"{o}: {ri['shape_masks'].get(o)} want {want_mask}")
            if use_xarray:
                if "xarray_error" in got:
                    out.fail(f"{where}-load_xarray_dataset-raised:{got['xarray_error'].split(':')[0]}", got["xarray_error"])
                else:
                    for o, v in got.get("xarray", {}).items():
                        if mp.func_of_output(prog)[o]["mapspec"] and v != mp.canon(ref[o]):
                            out.fail(f"{where}-xarray-values-differ", f"{o}: got {str(v)[:200]} want {str(mp.canon(ref[o]))[:200]}")
                    for r, v in got.get("xarray_coords", {}).items():
                        if v != mp.canon(inputs[r]):
                            out.fail(f"{where}-xarray-coordinate-differs-from-input", f"{r}: got {str(v)[:200]} want {str(mp.canon(inputs[r]))[:200]}")
        # ---- a second run with different input values into the SAME folder (cleanup=True): nothing of the first
        # run - on disk or remembered by the loading process - may survive
        if data.get("rerun", True):
            inputs2 = mp.make_inputs(prog, variant="'")
            ref2 = mp.denotation(prog, inputs=inputs2)
            inputs2 = {scope + k: v for k, v in inputs2.items()}
            r2 = faultfs.run_child(lambda: run(inputs2), folder, None, side)
            if not r2.get("ok"):
                out.fail("second-run-into-same-folder-refused", str({k: v for k, v in r2.items() if k != "result"})[:300])
            else:
                out.labels.append("second-run")
                for where in ("same-process", "fresh-interpreter"):
                    got = (_load_here(folder, names, use_xarray, roots1d) if where == "same-process"
                           else ask_worker({"folder": folder, "outputs": names, "xarray": use_xarray, "roots": roots1d}))
                    for r, v in got.get("xarray_coords", {}).items():
                        if v != mp.canon(inputs2[r]):
                            out.fail(f"{where}-second-run-xarray-coordinate-stale", f"{r}: got {str(v)[:200]} want {str(mp.canon(inputs2[r]))[:200]}")
                    for o in names:
                        v = got.get("loaded", {}).get(o)
                        if v != mp.canon(ref2[o]):
                            stale = v == mp.canon(ref[o])
                            out.fail(f"{where}-second-run-{'stale-first-run-data' if stale else 'differs'}", f"{o}: got {str(v)[:200]} want {str(mp.canon(ref2[o]))[:200]}")
                    ri = got.get("run_info")
                    if ri is not None and ri["inputs"] != {k: mp.canon(v) for k, v in inputs2.items()}:
                        out.fail(f"{where}-second-run-RunInfo-inputs-stale", str(ri["inputs"])[:200])
    finally:
        boot.rm(folder)
    return out


def _load_here(folder, names, use_xarray, roots=None) -> dict:
    from pipefunc.map import load_outputs, load_xarray_dataset
    from pipefunc.map._run_info import RunInfo

    got: dict = {"loaded": {}}
    for o in names:
        try:
            first = load_outputs(o, run_folder=folder)
            got["loaded"][o] = mp.canon(first)
            # what a caller does with a loaded value must not leak into the next load of the untouched folder
            try:
                if isinstance(first, list) and first:
                    first[0] = "MUTATED-BY-THE-CALLER"
                elif isinstance(first, np.ndarray) and first.size and first.flags.writeable:
                    first.flat[0] = "MUTATED-BY-THE-CALLER"
            except Exception:  # noqa: BLE001
                pass
            again = mp.canon(load_outputs(o, run_folder=folder))
            if again != got["loaded"][o]:
                got.setdefault("reload_after_mutation", {})[o] = again
        except Exception as e:
            got["loaded"][o] = {"error": f"{type(e).__name__}: {str(e)[:200]}"}
    try:
        got["run_info"] = summary(RunInfo.load(folder))
        got["run_info2"] = summary(RunInfo.load(folder))
    except Exception as e:
        got["run_info_error"] = f"{type(e).__name__}: {str(e)[:200]}"
    if use_xarray:
        try:
            ds = load_xarray_dataset(run_folder=folder)
            got["xarray"] = {str(n): mp.canon(ds[n].values) for n in names if n in ds}
            got["xarray_coords"] = {str(n): mp.canon(ds[n].values) for n in (roots or []) if n in ds.coords}
        except Exception as e:
            got["xarray_error"] = f"{type(e).__name__}: {str(e)[:200]}"
    return got


def campaigns(tier):
    strat = st.fixed_dictionaries({"prog": mp.map_programs(max_funcs=3, max_outputs=3)})
    return [Campaign("reload", body, strat, quick=480, thorough=8000, describe="run in a child, reload here and in a fresh interpreter")]


def _main_class_case(prog: dict) -> bool:
    import zlib

    crc = zlib.crc32(json.dumps({k: v for k, v in prog.items() if k != "value_class"}, sort_keys=True).encode())
    return crc % 4 == 1 or prog.get("value_class") == "main"


def _pred_main_class_in_shared_memory_dict(case, failure) -> bool:
    """C04 finding: results whose class is defined in ``__main__`` are persisted by value; loading them back creates
    a second class object, and SharedMemoryDictArray.load then sends the loaded values to its Manager process with
    plain pickle (by reference), which refuses ("not the same object as __main__.X"): such a run cannot be reloaded
    from a `shared_memory_dict` folder by another process."""
    prog = case["data"]["prog"]
    stor = prog["storage"]
    shared = "shared_memory_dict" in ({stor} if isinstance(stor, str) else set(stor.values()))
    return shared and _main_class_case(prog)


PREDICATES = {"main_class_in_shared_memory_dict": _pred_main_class_in_shared_memory_dict}

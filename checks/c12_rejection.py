"""C12 -- ill-formed pipelines and inputs are rejected before any user code runs (DESIGN.md section 4, C12)."""

from __future__ import annotations

import copy
import gc
import hashlib
import os
from concurrent.futures import ThreadPoolExecutor

import numpy as np
from hypothesis import strategies as st

from vlib import boot
from vlib import mapprog as mp
from vlib.core import Campaign, Outcome, exc_bucket, exc_detail
from vlib.dag import DagModel, build_pipeline, dag_programs, make_pipefunc

PID = "C12"
LEVEL = "exploration"
RULE = (
    "Mutation-based: a generated valid case (DagProgram that builds and runs; MapProgram whose first map into a run "
    "folder succeeds) is subjected to one single-fault operator per documented ill-formedness class (duplicate "
    "output, output named like a parameter, cycle, inconsistent defaults, missing/surplus keyword for run; MapSpec "
    "naming a non-parameter, MapSpec outputs != output_name, rank / axis-name disagreement between producer and "
    "consumer, bound argument in a MapSpec, missing / surplus input, wrong input rank, zipped length mismatch, 2-D "
    "nested-list input, unknown storage (uniform / per output), executor with parallel=False, missing internal "
    "shape, fixed_indices unknown / out of range / on a reduced axis). Oracle: an exception is raised at "
    "construction or by run/map, the tracer call log stays empty, and for map into the existing folder with "
    "cleanup=False the {relative path: sha256(content)} digest of the folder is unchanged. Non-trivial = program "
    "with >= 2 functions; distinct by sha1 of (program, operator); one counter per operator."
)
ASSUMPTIONS = [
    "any exception class counts as rejection (the property does not fix one)",
    "folder comparison is by content, not mtime",
    "operators that are not applicable to a generated program (e.g. no zipped pair) are counted under a 'n/a' label, not as cases",
]

DAG_OPS = ["dup_output", "output_is_param", "cycle", "inconsistent_defaults", "run_missing", "run_surplus", "map_missing", "map_surplus"]
MAP_OPS = [
    "mapspec_nonparam", "mapspec_output_mismatch", "axis_rank", "axis_swap", "axis_conflict_3specs", "bound_in_mapspec",
    "missing_input", "surplus_input", "surplus_root_for_selection", "surplus_in_scope_dict", "input_rank", "zip_mismatch", "nested_list_2d",
    "unknown_storage", "unknown_storage_per_output", "executor_parallel_false", "missing_internal_shape",
    "fixed_unknown", "fixed_out_of_range", "fixed_reduced",
]  # fmt: skip


_NEW_FOLDERS: list = []


def digest(folder: str) -> dict:
    d = {}
    for root, _, files in os.walk(folder):
        for f in files:
            pth = os.path.join(root, f)
            with open(pth, "rb") as fh:
                d[os.path.relpath(pth, folder)] = hashlib.sha256(fh.read()).hexdigest()
    return d


def expect_rejection(out: Outcome, op: str, log, fn, folder=None, before=None):
    del log[:]
    try:
        fn()
    except Exception:
        if log:
            out.fail(f"{op}-ran-user-code-before-rejecting", repr(log)[:300])
        if folder is not None and digest(folder) != before:
            after = digest(folder)
            changed = sorted(k for k in set(before) | set(after) if before.get(k) != after.get(k))
            out.fail(f"{op}-altered-run-folder", f"changed: {changed}")
        while _NEW_FOLDERS:  # a rejected map into a folder that did not exist yet must not have started to fill it
            nf = _NEW_FOLDERS.pop()
            left = digest(nf)
            boot.rm(nf)
            if left:
                out.fail(f"{op}-altered-run-folder", f"a new run folder opened with cleanup=False gained {sorted(left)[:6]}")
        return
    while _NEW_FOLDERS:
        boot.rm(_NEW_FOLDERS.pop())
    out.fail(f"{op}-accepted", "no exception" + (f"; calls {log!r}"[:200] if log else ""))


# ---- DAG campaign -------------------------------------------------------------------------------------
def body_dag(data) -> Outcome:
    out = Outcome()
    prog, op, pick = data["prog"], data["op"], data["pick"]
    out.nontrivial = len(prog["funcs"]) >= 2
    m = DagModel(prog)
    log: list = []
    try:
        base = build_pipeline(prog, log)
    except Exception:
        out.labels = ["n/a:base-refused"]
        return out
    out.labels = [op]
    funcs = prog["funcs"]
    j = pick % len(funcs)
    from pipefunc import Pipeline

    def build_mut(p2):
        return build_pipeline(p2, log)

    if op == "dup_output":
        p2 = copy.deepcopy(prog)
        clone = copy.deepcopy(funcs[j])
        clone["name"] = "fdup"
        if len(clone["outs"]) > 1 and pick % 2:
            clone["outs"] = [clone["outs"][0]]
            clone["orig_outs"] = [clone["orig_outs"][0]]
            clone["picker"] = None
        p2["funcs"].append(clone)
        pos = (pick // 7) % (len(p2["order"]) + 1)
        p2["order"] = p2["order"][:pos] + [len(p2["funcs"]) - 1] + p2["order"][pos:]
        expect_rejection(out, op, log, lambda: build_mut(p2))
    elif op == "output_is_param":
        cands = [f for f in funcs if f["params"]]
        if not cands:
            out.labels = ["n/a:" + op]
            return out
        fn = copy.deepcopy(cands[pick % len(cands)])
        pname = fn["params"][(pick // 3) % len(fn["params"])]
        fn["outs"][0] = pname
        fn["orig_outs"][0] = pname
        expect_rejection(out, op, log, lambda: make_pipefunc(fn, log))
    elif op == "cycle":
        # a depends (transitively) on nothing of b; b depends on a: feed one of b's outputs back into a
        pairs = []
        for b in funcs:
            cone = m.cone(b["outs"][0])
            for a in funcs:
                if a["name"] != b["name"] and a["name"] in cone:
                    pairs.append((a["name"], b["name"]))
        if not pairs:
            out.labels = ["n/a:" + op]
            return out
        an, bn = pairs[pick % len(pairs)]
        p2 = copy.deepcopy(prog)
        a = next(f for f in p2["funcs"] if f["name"] == an)
        b = next(f for f in p2["funcs"] if f["name"] == bn)
        newp = b["outs"][0]
        if newp in a["params"]:
            out.labels = ["n/a:" + op]
            return out
        a["params"].append(newp)
        a["orig"].append(newp)
        target = b["outs"][0]

        roots = {r: f"V{r}" for r in prog["roots"]}
        expect_rejection(out, op, log, lambda: build_mut(p2)(target, **{r: v for r, v in roots.items()}))
        # and map must refuse it as well
        def map_cycle():
            pl = build_mut(p2)
            pl.map({r: f"V{r}" for r in prog["roots"]}, parallel=False, storage="dict")

        expect_rejection(out, op + "-map", log, map_cycle)
    elif op == "inconsistent_defaults":
        shared = [r for r in prog["roots"] if sum(1 for f in funcs if r in f["params"] and r not in f["bound"]) >= 2]
        if not shared:
            out.labels = ["n/a:" + op]
            return out
        r = shared[pick % len(shared)]
        p2 = copy.deepcopy(prog)
        users = [f for f in p2["funcs"] if r in f["params"] and r not in f["bound"]]
        for f in users:
            f["sig_defaults"].pop(r, None)
            f["pf_defaults"].pop(r, None)
        if (pick >> 3) % 2:
            # the inconsistency arrives later, through the handle of a function of an already valid pipeline; the
            # next call / map must refuse before running anything
            users[0]["pf_defaults"][r] = "D1"
            users[1]["pf_defaults"][r] = "D1"
            try:
                pl = build_mut(p2)
                pl[users[1]["outs"][0]].update_defaults({r: "D2"})
            except Exception:
                out.labels = [op + "-late:rejected-at-the-update"]  # refusing right away is fine as well
                return out
            out.labels = [op + "-late"]
            m2 = DagModel(p2)
            target = users[(pick >> 4) % 2]["outs"][0]
            kw = {x: f"V{x}" for x in m2.needed_roots(target) if x != r}
            if (pick >> 5) % 2:
                expect_rejection(out, op + "-late-call", log, lambda: pl(target, **kw))
            else:
                allroots = {x: f"V{x}" for x in m2.needed_roots(tuple(m2.all_outputs())) if x != r}
                expect_rejection(out, op + "-late-map", log, lambda: pl.map(allroots, parallel=False, storage="dict"))
            return out
        users[0]["sig_defaults" if pick % 2 else "pf_defaults"][r] = "D1"
        users[1]["sig_defaults" if (pick // 2) % 2 else "pf_defaults"][r] = "D2"
        expect_rejection(out, op, log, lambda: build_mut(p2))
    else:
        # run/map with a missing or surplus keyword
        outs = m.all_outputs()
        target = outs[pick % len(outs)]
        roots = m.needed_roots(target)
        kw = {r: f"V{r}" for r in roots}
        required = [r for r in roots if r not in m.defaults]
        if op in ("run_missing", "map_missing"):
            if not required:
                out.labels = ["n/a:" + op]
                return out
            kw.pop(required[(pick // 5) % len(required)])
        else:
            kw["zzz_surplus"] = "Z"
        if op.startswith("run_"):
            expect_rejection(out, op, log, lambda: base(target, **kw))
        else:
            allroots = {r: f"V{r}" for r in m.needed_roots(tuple(outs))}
            if op == "map_missing":
                req_all = [r for r in allroots if r not in m.defaults]
                if not req_all:
                    out.labels = ["n/a:" + op]
                    return out
                allroots.pop(req_all[(pick // 5) % len(req_all)])
            else:
                allroots["zzz_surplus"] = "Z"
            expect_rejection(out, op, log, lambda: base.map(allroots, parallel=False, storage="dict"))
    del Pipeline
    return out


# ---- map campaign --------------------------------------------------------------------------------------
class _ListLog(list):
    def append(self, e):  # the FileLog protocol: ["start"|"end", fname, text, pid]
        if e[0] == "start":
            super().append(e[1])


def body_map(data) -> Outcome:
    out = Outcome()
    prog, op, pick = data["prog"], data["op"], data["pick"]
    out.nontrivial = len(prog["funcs"]) >= 2
    log = _ListLog()
    folder = boot.fresh_path("c12")
    ex = None
    try:
        try:
            pipe = mp.build_pipeline(prog, log)
            inputs = mp.make_inputs(prog)
            ish = mp.internal_shapes_arg(prog)
            storage = mp.storage_arg(prog)
            pipe.map(inputs, run_folder=folder, internal_shapes=ish, parallel=False, storage=storage)
        except Exception:
            out.labels = ["n/a:base-refused"]
            return out
        before = digest(folder)
        out.labels = [op]
        funcs = prog["funcs"]
        ms_funcs = [f for f in funcs if f["mapspec"]]

        def remap(prog2=None, inputs2=None, **kw):
            p = pipe if prog2 is None else mp.build_pipeline(prog2, log)
            args = dict(run_folder=folder, internal_shapes=ish, parallel=False, storage=storage, cleanup=False)
            if prog2 is not None:
                # a structurally different pipeline would be refused anyway because it does not match the previous
                # run in the folder; to test the *validation* it goes into a fresh folder instead
                args.update(run_folder=boot.fresh_path("c12new"), cleanup=True)
            elif (pick >> 7) % 2:
                # the same request into a run folder that does not exist yet (still cleanup=False)
                _NEW_FOLDERS.append(boot.fresh_path("c12fresh"))
                args.update(run_folder=_NEW_FOLDERS[-1])
            args.update(kw)
            try:
                p.map(inputs if inputs2 is None else inputs2, **args)
            finally:
                if prog2 is not None:
                    boot.rm(str(args["run_folder"]))

        def na():
            out.labels = ["n/a:" + op]
            return out

        if op == "mapspec_nonparam":
            if not ms_funcs:
                return na()
            p2 = copy.deepcopy(prog)
            fn = [f for f in p2["funcs"] if f["mapspec"]][pick % len(ms_funcs)]
            idx = (fn["out_axes"] or ["i"])[0]
            # append a spec for a name that is not a parameter (done through a raw mapspec string below)
            ms = mp.mapspec_str(fn)
            left, right = ms.split(" -> ")
            left = f"zz_nope[{idx}]" if left == "..." else left + f", zz_nope[{idx}]"
            expect_rejection(out, op, log, lambda: _build_with_mapspec(p2, fn["name"], left + " -> " + right, log).map(
                inputs, run_folder=boot.fresh_path("c12new"), internal_shapes=ish, parallel=False, storage=storage), folder, before)
        elif op == "mapspec_output_mismatch":
            if not ms_funcs:
                return na()
            p2 = copy.deepcopy(prog)
            fn = [f for f in p2["funcs"] if f["mapspec"]][pick % len(ms_funcs)]
            ms = mp.mapspec_str(fn)
            left, right = ms.split(" -> ")
            right = right.replace(fn["outs"][0] + "[", "wrong_out[", 1)
            expect_rejection(out, op, log, lambda: _build_with_mapspec(p2, fn["name"], left + " -> " + right, log).map(
                inputs, run_folder=boot.fresh_path("c12new"), internal_shapes=ish, parallel=False, storage=storage), folder, before)
        elif op in ("axis_rank", "axis_swap"):
            # a consumer spec of an array that also has a producer spec (or another consumer spec)
            prod = mp.func_of_output(prog)
            cands = []
            for fi, f in enumerate(funcs):
                if not f["mapspec"]:
                    continue
                for pi, p_ in enumerate(f["params"]):
                    if p_["spec"] is None:
                        continue
                    others = sum(1 for g in funcs if g["mapspec"] for q in g["params"] if q["name"] == p_["name"] and q["spec"] is not None)
                    produced = p_["name"] in prod and prod[p_["name"]]["out_axes"] and prod[p_["name"]]["mapspec"]
                    if op == "axis_rank" and (produced or others >= 2):
                        cands.append((fi, pi))
                    if op == "axis_swap" and (produced or others >= 2):
                        named = [a for a in p_["spec"] if a is not None]
                        # another spec (or the producer) must *name* one of the two positions that get swapped
                        other_specs = [q["spec"] for g in funcs if g["mapspec"] for q in g["params"]
                                       if q["name"] == p_["name"] and q["spec"] is not None and q is not p_]
                        pinned = produced or any(sp[0] is not None or sp[1] is not None for sp in other_specs if len(sp) >= 2)
                        if len(set(named)) >= 2 and len(named) == len(p_["spec"]) and p_["spec"][0] != p_["spec"][1] and pinned:
                            cands.append((fi, pi))
            if not cands:
                return na()
            fi, pi = cands[pick % len(cands)]
            p2 = copy.deepcopy(prog)
            spec = p2["funcs"][fi]["params"][pi]["spec"]
            if op == "axis_rank":
                extra = p2["funcs"][fi]["out_axes"][0] if p2["funcs"][fi]["out_axes"] else "i"
                spec.append(extra)
            else:
                spec[0], spec[1] = spec[1], spec[0]
            expect_rejection(out, op, log, lambda: remap(p2), folder, before)
        elif op == "axis_conflict_3specs":
            # three specs for one >= 2-D root: the existing fully named one, one with ':' at position k, and one that
            # names position k differently (same size) -> the array's axis name is ambiguous and must be rejected
            cands = []
            for f in ms_funcs:
                for p_ in f["params"]:
                    if p_["spec"] and len(p_["spec"]) >= 2 and all(a is not None for a in p_["spec"]) and p_["name"] in inputs:
                        cands.append((p_["name"], list(p_["spec"])))
            if not cands:
                return na()
            arr, spec = cands[pick % len(cands)]
            k = (pick // 5) % len(spec)
            other = spec[(k + 1) % len(spec)]
            p2 = copy.deepcopy(prog)
            fresh = "zq"  # a new index name with the same size as the one it contradicts
            p2["sizes"][fresh] = p2["sizes"][spec[k]]
            colon = [a if i != k else None for i, a in enumerate(spec)]
            renamed = [a if i != k else fresh for i, a in enumerate(spec)]
            mk = lambda name, sp, out_axes: {"name": name, "outs": ["x_" + name], "picker": None, "mapspec": True,  # noqa: E731
                                             "params": [{"name": arr, "spec": sp}], "out_axes": out_axes, "int_axes": [],
                                             "ret": "list", "shape_via": "map"}  # fmt: skip
            extra = [mk("fc", colon, [a for a in colon if a is not None]), mk("fr", renamed, renamed)]
            if pick % 2:
                extra.reverse()
            p2["funcs"] += extra
            del other
            expect_rejection(out, op, log, lambda: remap(p2), folder, before)
        elif op == "bound_in_mapspec":
            cands = [(f["name"], p_["name"]) for f in ms_funcs for p_ in f["params"] if p_["spec"] is not None]
            if not cands:
                return na()
            fname, pname = cands[pick % len(cands)]
            expect_rejection(out, op, log, lambda: mp.build_pipeline(prog, log, pf_extra={fname: {"bound": {pname: "B"}}}).map(
                inputs, run_folder=boot.fresh_path("c12new"), internal_shapes=ish, parallel=False, storage=storage), folder, before)
        elif op == "missing_input":
            if not inputs:
                return na()
            k = sorted(inputs)[pick % len(inputs)]
            expect_rejection(out, op, log, lambda: remap(inputs2={a: b for a, b in inputs.items() if a != k}), folder, before)
        elif op == "surplus_input":
            expect_rejection(out, op, log, lambda: remap(inputs2=dict(inputs, zzz_surplus=[1, 2])), folder, before)
        elif op == "surplus_root_for_selection":
            # a root of the full pipeline that the selected outputs do not use is a surplus input of that selection
            prod = mp.func_of_output(prog)

            def roots_of(o, seen=None):
                seen = set() if seen is None else seen
                res = set()
                for q in prod[o]["params"]:
                    if q["name"] in prod:
                        if q["name"] not in seen:
                            seen.add(q["name"])
                            res |= roots_of(q["name"], seen)
                    else:
                        res.add(q["name"])
                return res

            cands = [(o, sorted(set(inputs) - roots_of(o))) for o in mp.output_names(prog)]
            cands = [(o, extra) for o, extra in cands if extra]
            if not cands:
                return na()
            o, extra = cands[pick % len(cands)]
            sel = {x for f in funcs if o in f["outs"] for x in f["outs"]}
            needed = {k: v for k, v in inputs.items() if k in roots_of(o)}
            surplus = dict(needed, **{extra[(pick // 3) % len(extra)]: inputs[extra[(pick // 3) % len(extra)]]})
            new_folder = boot.fresh_path("c12sel")
            ish_sel = None if not ish else ({k: v for k, v in ish.items() if k in {x for f in funcs for x in f["outs"]}} or None)

            def call(auto):
                try:
                    pipe.map(surplus, output_names=sel, auto_subpipeline=auto, run_folder=new_folder, internal_shapes=ish_sel,
                             parallel=False, storage=storage)  # fmt: skip
                finally:
                    boot.rm(new_folder)

            expect_rejection(out, op, log, lambda: call(bool((pick >> 4) % 2)))
        elif op == "surplus_in_scope_dict":
            # scoped root inputs given in the nested notation {"sc": {...}}: an entry nobody reads is a surplus input
            if not inputs:
                return na()
            try:
                p_sc = mp.build_pipeline(prog, log)
                p_sc.update_scope("sc", inputs="*")
                nested_ok = {"sc": dict(inputs)}
                f_ok = boot.fresh_path("c12sc")
                p_sc.map(nested_ok, run_folder=f_ok, internal_shapes=ish, parallel=False, storage=storage)
                boot.rm(f_ok)
            except Exception:
                return na()
            f_bad = boot.fresh_path("c12sc")

            def call_sc():
                try:
                    p_sc.map({"sc": dict(inputs, zzz_bogus=[1, 2])}, run_folder=f_bad, internal_shapes=ish, parallel=False, storage=storage)
                finally:
                    boot.rm(f_bad)

            expect_rejection(out, op, log, call_sc)
        elif op == "input_rank":
            cands = [r for r in inputs if prog["roots"][r]["axes"] and any(p_["name"] == r and p_["spec"] is not None for f in ms_funcs for p_ in f["params"])]
            if not cands:
                return na()
            r = cands[pick % len(cands)]
            arr = np.asarray(inputs[r], dtype=object)
            if pick % 2 or arr.ndim == 1:
                bad = np.stack([arr, arr])  # one dimension too many
            else:
                bad = arr[0]  # one too few
            expect_rejection(out, op, log, lambda: remap(inputs2=dict(inputs, **{r: bad})), folder, before)
        elif op == "zip_mismatch":
            # two different root arrays indexed by the same index name inside one function
            cands = []
            for f in ms_funcs:
                seen = {}
                for p_ in f["params"]:
                    if p_["spec"] is None or p_["name"] not in inputs:
                        continue
                    for ax, a in enumerate(p_["spec"]):
                        if a is None:
                            continue
                        if a in seen and seen[a][0] != p_["name"]:
                            cands.append((p_["name"], ax))
                        seen.setdefault(a, (p_["name"], ax))
            if not cands:
                return na()
            r, ax = cands[pick % len(cands)]
            arr = np.asarray(inputs[r], dtype=object)
            bad = np.concatenate([arr, np.take(arr, [0], axis=ax)], axis=ax)
            expect_rejection(out, op, log, lambda: remap(inputs2=dict(inputs, **{r: bad})), folder, before)
        elif op == "nested_list_2d":
            cands = [r for r in inputs if len(prog["roots"][r]["axes"]) >= 2 and any(p_["name"] == r and p_["spec"] is not None for f in ms_funcs for p_ in f["params"])]
            if not cands:
                return na()
            r = cands[pick % len(cands)]
            expect_rejection(out, op, log, lambda: remap(inputs2=dict(inputs, **{r: np.asarray(inputs[r], dtype=object).tolist()})), folder, before)
        elif op == "unknown_storage":
            expect_rejection(out, op, log, lambda: remap(storage="no_such_storage"), folder, before)
        elif op == "unknown_storage_per_output":
            names = mp.output_names(prog)
            o = names[pick % len(names)]
            fn = mp.func_of_output(prog)[o]
            key = tuple(fn["outs"]) if len(fn["outs"]) > 1 else o
            if not (fn["mapspec"] and any(p_["spec"] is not None for p_ in fn["params"])):
                return na()  # only outputs held in a storage array look their storage class up
            base_storage = storage if isinstance(storage, str) else storage.get("", "dict")
            expect_rejection(out, op, log, lambda: remap(storage={"": base_storage, key: "no_such_storage"}), folder, before)
        elif op == "executor_parallel_false":
            ex = ThreadPoolExecutor(1)
            expect_rejection(out, op, log, lambda: remap(executor=ex, parallel=False), folder, before)
        elif op == "missing_internal_shape":
            indexed = {p_["name"] for g in ms_funcs for p_ in g["params"] if p_["spec"] is not None}
            cands = [f for f in funcs if f["int_axes"] and (f["mapspec"] or set(f["outs"]) & indexed)]
            if not cands:
                return na()
            fn = cands[pick % len(cands)]
            p2 = copy.deepcopy(prog)
            for f in p2["funcs"]:
                if f["name"] == fn["name"]:
                    f["shape_via"] = "map"
            ish2 = {k: v for k, v in (mp.internal_shapes_arg(p2) or {}).items() if k not in fn["outs"]} or None
            expect_rejection(out, op, log, lambda: remap(p2, internal_shapes=ish2), folder, before)
        elif op == "fixed_unknown":
            expect_rejection(out, op, log, lambda: remap(fixed_indices={"zz_no_axis": 0}), folder, before)
        elif op == "fixed_out_of_range":
            cands = sorted({a for r in inputs for a in prog["roots"][r]["axes"] if any(p_["name"] == r and p_["spec"] and a in p_["spec"] for f in ms_funcs for p_ in f["params"])})
            if not cands:
                return na()
            a = cands[pick % len(cands)]
            expect_rejection(out, op, log, lambda: remap(fixed_indices={a: prog["sizes"][a] + (pick % 2)}), folder, before)
        elif op == "fixed_reduced":
            # an axis of some array that is reduced (array passed whole or with ':' on that axis to a consumer)
            prod = mp.func_of_output(prog)
            reduced = set()
            axes_of = {r: prog["roots"][r]["axes"] for r in prog["roots"]}
            axes_of.update({o: prod[o]["out_axes"] for o in prod})
            named_somewhere = {a for f in ms_funcs for p_ in f["params"] if p_["spec"] for a in p_["spec"] if a} | {a for f in ms_funcs for a in f["out_axes"]}
            for f in funcs:
                for p_ in f["params"]:
                    ax = axes_of.get(p_["name"], [])
                    is_ms_array = any(q["name"] == p_["name"] and q["spec"] is not None for g in ms_funcs for q in g["params"]) or (p_["name"] in prod and prod[p_["name"]]["mapspec"])
                    if not ax or not is_ms_array:
                        continue
                    if p_["spec"] is None or not f["mapspec"]:
                        reduced |= set(ax)
                    else:
                        reduced |= {a for a, s in zip(ax, p_["spec"]) if s is None}
            # the axis must carry that name *for pipefunc* on the very array that is reduced: some MapSpec (a consumer
            # spec, or the producer's own MapSpec) names this position of that array
            def _named_for(arr, a):
                k = axes_of.get(arr, []).index(a)
                if arr in prod and prod[arr]["mapspec"]:
                    return True
                return any(q["name"] == arr and q["spec"] is not None and q["spec"][k] == a for g in ms_funcs for q in g["params"])

            reduced2 = set()
            for f in funcs:
                for p_ in f["params"]:
                    ax = axes_of.get(p_["name"], [])
                    if not ax:
                        continue
                    if p_["spec"] is None or not f["mapspec"]:
                        red = set(ax)
                    else:
                        red = {a for a, s_ in zip(ax, p_["spec"]) if s_ is None}
                    reduced2 |= {a for a in red if _named_for(p_["name"], a)}
            reduced &= reduced2
            reduced &= named_somewhere
            if not reduced:
                return na()
            a = sorted(reduced)[pick % len(reduced)]
            expect_rejection(out, op, log, lambda: remap(fixed_indices={a: 0}), folder, before)
        else:
            raise AssertionError(op)
    finally:
        if ex is not None:
            ex.shutdown(wait=True)
        gc.collect()
        boot.rm(folder)
    return out


def _build_with_mapspec(prog, fname, ms, log):
    from pipefunc import PipeFunc, Pipeline

    pfs = []
    for fn in prog["funcs"]:
        body = mp.make_body(prog, fn, log)
        on = fn["outs"][0] if len(fn["outs"]) == 1 else tuple(fn["outs"])
        kw = {}
        if fn.get("picker") == "dict":
            kw["output_picker"] = mp.dict_picker
        if fn["int_axes"] and fn.get("shape_via", "map") == "pipefunc":
            kw["internal_shape"] = mp.fn_internal_shape(prog, fn)
        pfs.append(PipeFunc(body, on, mapspec=ms if fn["name"] == fname else mp.mapspec_str(fn), **kw))
    return Pipeline(pfs)


def campaigns(tier):
    camps = []
    nd, nm = len(DAG_OPS), len(MAP_OPS)
    for op in DAG_OPS:
        strat = st.fixed_dictionaries(
            {
                "prog": dag_programs(max_funcs=5, min_funcs=1, consistent_ignored_defaults=True),
                "op": st.just(op),
                "pick": st.integers(0, 2**16 - 1),
            }
        )
        camps.append(Campaign(f"dag:{op}", body_dag, strat, quick=3200 // nd, thorough=48000 // nd, shards_quick=1,
                              shards_thorough=2, describe=f"DAG programs x operator {op}"))
    for op in MAP_OPS:
        strat = st.fixed_dictionaries(
            {
                "prog": mp.map_programs(storages=("file_array", "dict"), max_funcs=3),
                "op": st.just(op),
                "pick": st.integers(0, 2**16 - 1),
            }
        )
        camps.append(Campaign(f"map:{op}", body_map, strat, quick=2700 // nm, thorough=45000 // nm, shards_quick=1,
                              shards_thorough=2, describe=f"MapPrograms x operator {op} into an existing folder"))
    return camps


PREDICATES = {}

"""C02 -- calling a pipeline equals composing its functions along the DAG (DESIGN.md section 4, C02)."""

from __future__ import annotations

from hypothesis import strategies as st

from vlib import boot  # noqa: F401
from vlib.core import Campaign, Outcome, exc_bucket, exc_detail
from vlib.dag import DagModel, Missing, build_pipeline, dag_programs, labels

PID = "C02"
LEVEL = "exploration"
RULE = (
    "Hypothesis-generated DAG programs (1-6 tracer functions over 1-4 roots; nullary functions, tuple outputs "
    "with tuple/dict pickers, signature/PipeFunc defaults, bound values, parameter and output renames, shared "
    "parameters) in a drawn listing order; for every output (single names and tuple names): root-only call "
    "through pipeline(), run(), func(), call_full_output and run(full_output=True), every combination listed by "
    "arg_combinations (capped at 16 per output), and surplus-keyword calls; oracle = reference DAG evaluator "
    "(bound > keyword > upstream > default) for values and the exact call log. Non-trivial = >= 3 functions and "
    "at least one of {diamond, tuple output, bound, default, rename, nullary}; distinct by sha1 of the program."
)
ASSUMPTIONS = [
    "a keyword naming a parameter that is bound in every consumer is neither required to be accepted nor rejected",
    "for a tuple-name request full_output may hold the raw return under the tuple key instead of the single names",
]


def _names_unused_sibling(prog: dict, out, combo) -> bool:
    """combo contains an output name whose function is needed only through a *sibling* name."""
    m = DagModel(prog)
    supplied = {n: f"S:{n}" for n in combo}
    try:
        _, _, _, _, _, used = m.evaluate(out, supplied)
    except Missing:
        return False
    unused = [n for n in combo if n not in used]
    return bool(unused) and all(n in m.producer and len(m.producer[n]["outs"]) > 1 for n in unused)


def check_call(out: Outcome, tag: str, fn, log, want_value, want_calls, dep_of, info=None):
    """Run one call, compare value and call log. Returns True if it returned."""
    del log[:]
    try:
        got = fn()
    except Exception as e:
        out.fail(exc_bucket(e, f"{tag}-raised"), exc_detail(e), info)
        return False, None
    if got != want_value and want_value is not _SKIP:
        out.fail(f"{tag}-value", f"got {got!r} want {want_value!r}")
    if sorted(log) != sorted(want_calls):
        out.fail(f"{tag}-calls", f"got {log!r} want {want_calls!r}")
    else:
        seen = set()
        for name, _ in log:
            if not dep_of(name) <= seen:
                out.fail(f"{tag}-order", f"{name} ran before its dependencies: {log!r}")
                break
            seen.add(name)
    return True, got


_SKIP = object()


def body(data) -> Outcome:
    out = Outcome()
    prog = data["prog"]
    pick = data["pick"]
    labs = labels(prog)
    out.labels = labs
    out.nontrivial = len(prog["funcs"]) >= 3 and bool(
        {"diamond", "multi_output", "bound", "default", "renamed", "nullary"} & set(labs)
    )
    log: list = []
    try:
        p = build_pipeline(prog, log)
    except Exception as e:
        out.fail(exc_bucket(e, "build-refused"), exc_detail(e))
        return out
    m = DagModel(prog)
    units = 0
    targets: list = []
    for fn in prog["funcs"]:
        targets += list(fn["outs"])
        if len(fn["outs"]) > 1:
            targets.append(tuple(fn["outs"]))
    for ti, target in enumerate(targets):
        # ---- (a) root-only --------------------------------------------------------------------
        roots = m.needed_roots(target)
        kw = {}
        for i, r in enumerate(roots):
            if r in m.defaults and (pick >> ((ti + i) % 16)) & 1:
                continue  # rely on the default
            kw[r] = f"V{r}"
        try:
            want, _, memo, raw, calls, _ = m.evaluate(target, kw)
        except Missing as e:  # cannot happen for root-only calls; guard against a model bug
            raise AssertionError(f"model: {e}") from e

        def dep_of(name, supplied=()):
            return m.deps(name, supplied) & set(x for x, _ in calls)

        t = target
        units += 5
        check_call(out, "call", lambda: p(t, **kw), log, want, calls, dep_of)
        check_call(out, "run", lambda: p.run(t, kwargs=dict(kw)), log, want, calls, dep_of)
        check_call(out, "func", lambda: p.func(t)(**kw), log, want, calls, dep_of)
        ok, full = check_call(out, "full_output", lambda: p.run(t, full_output=True, kwargs=dict(kw)), log, _SKIP, calls, dep_of)
        ok2, full2 = check_call(out, "call_full_output", lambda: p.func(t).call_full_output(**kw), log, _SKIP, calls, dep_of)
        for tag, okk, fo in (("full_output", ok, full), ("call_full_output", ok2, full2)):
            if not okk:
                continue
            if not isinstance(fo, dict):
                out.fail(f"{tag}-not-dict", type(fo).__name__)
                continue
            for name, v in memo.items():
                fnp = m.producer[name]
                tkey = tuple(fnp["outs"])
                if name in fo:
                    if fo[name] != v:
                        out.fail(f"{tag}-wrong-intermediate", f"{name}: got {fo[name]!r} want {v!r}")
                elif len(tkey) > 1 and tkey in fo:
                    if fo[tkey] != raw[fnp["name"]]:
                        out.fail(f"{tag}-wrong-intermediate", f"{tkey}: got {fo[tkey]!r} want {raw[fnp['name']]!r}")
                else:
                    out.fail(f"{tag}-missing-intermediate", f"{name} not in {sorted(map(str, fo))}")
            for k, v in kw.items():
                if fo.get(k) != v:
                    out.fail(f"{tag}-missing-input", k)
            want_t = fo.get(t, _SKIP) if not isinstance(t, tuple) else fo.get(t, _SKIP)
            if want_t is not _SKIP and want_t != want:
                out.fail(f"{tag}-value", f"got {want_t!r} want {want!r}")
        # positional root-arg calling convention
        try:
            ra = p.root_args(t)
            if set(ra) == set(roots) and all(r in kw for r in ra):
                units += 1
                check_call(out, "call_with_root_args", lambda: p.func(t).call_with_root_args(*[kw[r] for r in ra]), log, want, calls, dep_of)
            elif set(ra) != set(roots):
                out.fail("root_args-differs", f"{t}: got {ra} model {roots}")
        except Exception as e:
            out.fail(exc_bucket(e, "root_args-raised"), exc_detail(e))

        # ---- (b) every listed argument combination ------------------------------------------------
        try:
            combos = sorted(p.arg_combinations(t))
        except Exception as e:
            out.fail(exc_bucket(e, "arg_combinations-raised"), exc_detail(e))
            combos = []
        if len(combos) > 16:
            step = len(combos) / 16
            combos = [combos[int(i * step)] for i in range(16)]
        for combo in combos:
            supplied = {n: f"S:{n}" for n in combo}
            try:
                want_c, _, _, _, calls_c, _ = m.evaluate(t, supplied)
            except Missing as e:
                out.fail("arg_combinations-lists-insufficient", f"{t}: {combo} misses {e}")
                continue
            units += 1
            calls = calls_c
            check_call(out, "combo", lambda: p(t, **supplied), log, want_c, calls_c, lambda n: dep_of(n, combo),
                       info={"target": t, "combo": list(combo)})

        # ---- (b2) a keyword for a bound parameter is accepted and the bound value wins -------------------
        bound_in_cone = [pp for f in m.cone(t) for pp in m.funcs[f]["bound"]]
        if bound_in_cone:
            bp = bound_in_cone[pick % len(bound_in_cone)]
            if bp not in (t if isinstance(t, tuple) else (t,)):
                keep = m.touched(t, (bp,))
                kwb = {k: v for k, v in kw.items() if k in keep}
                kwb[bp] = f"K:{bp}"
                try:
                    want_b, _, _, _, calls_b, _ = m.evaluate(t, kwb)
                    calls = calls_b
                    units += 1
                    check_call(out, "bound-vs-keyword", lambda: p(t, **kwb), log, want_b, calls_b,
                               lambda n: dep_of(n, (bp,)))
                except Missing:
                    pass

        # ---- (c) surplus keywords -------------------------------------------------------------
        surplus_cases = [("unknown", dict(kw, zzz="Z"))]
        touched = m.touched(t)
        off_path = [r for r in prog["roots"] if r not in touched and any(r in fn["params"] for fn in prog["funcs"])]
        if off_path:
            surplus_cases.append(("off-path-root", dict(kw, **{off_path[0]: "X"})))
        inter = [o for f in m.cone(t) for o in m.funcs[f]["outs"] if o != t and o not in (t if isinstance(t, tuple) else ())]
        for o in inter[:2]:
            sup = {o: f"S:{o}"}
            touched_after = m.touched(t, tuple(sup))
            redundant = [r for r in kw if r not in touched_after]
            try:
                _, _, _, _, _, used = m.evaluate(t, {**kw, **sup})
            except Missing:
                continue
            if redundant and o in used:
                surplus_cases.append(("redundant-root", {**kw, **sup}))
                break
        for why, skw in surplus_cases:
            units += 1
            del log[:]
            try:
                got = p(t, **skw)
            except Exception:
                continue
            out.fail(f"surplus-accepted-{why}", f"{t} {sorted(skw)} -> {got!r}")
    out.units = units
    return out


def _pred_sibling(case, failure) -> bool:
    """C02-sibling: arg_combinations lists a combination that contains the *unused sibling* name of a tuple
    output, and calling with exactly that listed combination raises UnusedParametersError naming only such
    sibling names."""
    import re

    prog = case["data"]["prog"]
    info = failure.info
    if not info or "Unused keyword arguments" not in failure.detail:
        return False
    target = tuple(info["target"]) if isinstance(info["target"], list) else info["target"]
    if not _names_unused_sibling(prog, target, info["combo"]):
        return False
    mm = re.search(r"Unused keyword arguments: `([^`]*)`", failure.detail)
    named = {n.strip() for n in mm.group(1).split(",")}
    m = DagModel(prog)
    _, _, _, _, _, used = m.evaluate(target, {n: f"S:{n}" for n in info["combo"]})
    return bool(named) and named <= {n for n in info["combo"] if n not in used}


def _pred_late_producer_defaults(case, failure) -> bool:
    """C02-late-producer: two consumers declare different defaults for a parameter that is an *output* of a
    function listed after them; validation at add() time still sees the name as a root argument."""
    import re

    prog = case["data"]["prog"]
    mm = re.search(r"Inconsistent default values for argument '([^']*)'", failure.detail)
    if not mm:
        return False
    arg = mm.group(1)
    pos = {i: k for k, i in enumerate(prog["order"])}
    prod = [i for i, fn in enumerate(prog["funcs"]) if arg in fn["outs"]]
    if not prod:
        return False
    cons = [i for i, fn in enumerate(prog["funcs"]) if arg in fn["sig_defaults"] or arg in fn["pf_defaults"]]
    vals = {str({**prog["funcs"][i]["sig_defaults"], **prog["funcs"][i]["pf_defaults"]}[arg]) for i in cons}
    early = [i for i in cons if pos[i] < pos[prod[0]]]
    return len(vals) >= 2 and len(early) >= 2


PREDICATES = {
    "unused_sibling_in_listed_combination": _pred_sibling,
    "late_producer_inconsistent_defaults": _pred_late_producer_defaults,
}


def _base_campaigns(tier):
    strat = st.fixed_dictionaries({"prog": dag_programs(max_funcs=6, allow_none=True, allow_attr_picker=True), "pick": st.integers(0, 2**16 - 1)})
    return [Campaign("dag", body, strat, quick=6000, thorough=100000, describe="DAG programs x outputs x argument cuts")]


def campaigns(tier):
    camps = list(_base_campaigns(tier))
    if tier == "thorough":  # coverage-guided search over the same structured cases (fuzz/hyp_fuzz.py)
        from vlib.core import cov_fuzz_campaign

        camps.append(cov_fuzz_campaign(PID, [('dag', 30000)]))
    return camps

"""C06 -- running a map in pieces (fixed_indices, learners) equals running it whole (DESIGN.md section 4, C06)."""

from __future__ import annotations

import gc
import os
import itertools

import numpy as np
from hypothesis import strategies as st

from vlib import boot
from vlib import mapprog as mp
from vlib.core import Campaign, Outcome, exc_bucket, exc_detail

PID = "C06"
LEVEL = "exploration"
RULE = (
    "Hypothesis-generated MapPrograms (sizes 1-4) that have at least one independent axis (carried by a root input, "
    "never reduced, ':'-sliced or used as an internal axis); for 1-2 such axes a drawn set partition of range(size), "
    "each block expressed as an int, a negative int or a slice (positive / negative step, negative bounds, open ends) "
    "whenever it is an arithmetic progression; one map(fixed_indices=part, cleanup=False) per part in a drawn order, then "
    "a full run with cleanup=False. Oracle: after every part the storage mask of each output carrying the axis shows "
    "exactly the union of the selected positions, other outputs are complete; the call log of each part is exactly the "
    "newly selected elements (functions not carrying the axis run once, in the first part); at the end load_outputs "
    "equals the MapSpec denotation model, the final full run calls nothing and no (function, index) appears twice. "
    "Campaign 'learners': create_learners with split_independent_axes in {False, True} or with fixed_indices parts; all "
    "learners' points evaluated in a drawn order that respects generations; same end-state and exactly-once oracle. "
    "Campaign 'reject': fixed index on a reduced axis / unknown axis (ValueError) and out of range (IndexError) before "
    "any call. Non-trivial = >= 2 parts, at least one slice, part order not the identity, >= 2 functions carrying the "
    "axis; distinct by sha1 of (program, partition, order)."
)
ASSUMPTIONS = [
    "values returned by a partial map for unselected positions are not judged (only stored data and call logs are)",
    "learner points are evaluated through SequenceLearner._original_function / tell, the way pipefunc's own runners do",
    "learners are exercised with file_array storage only (memory backends are never persisted by learners)",
]


# ---- independent axes by the reference model ------------------------------------------------------------
def carried_axes(prog) -> dict:
    axes = {r: list(s["axes"]) for r, s in prog["roots"].items()}
    for fn in prog["funcs"]:
        for o in fn["outs"]:
            axes[o] = list(fn["out_axes"])
    return axes


def independent_axes(prog) -> list[str]:
    axes_of = carried_axes(prog)
    used_roots = mp.used_roots(prog)
    cand = {a for r in used_roots for a in prog["roots"][r]["axes"]}
    bad = set()
    for fn in prog["funcs"]:
        bad |= set(fn["int_axes"])
        for p in fn["params"]:
            ax = axes_of.get(p["name"], [])
            if not ax:
                continue
            if p["spec"] is None or not fn["mapspec"]:
                bad |= set(ax)  # passed whole: every axis of it is reduced
            else:
                bad |= {a for a, s in zip(ax, p["spec"]) if s is None}
    # the axis must actually be iterated by some function
    named = {a for fn in prog["funcs"] if fn["mapspec"] for p in fn["params"] if p["spec"] for a in p["spec"] if a}
    return sorted((cand - bad) & named)


def block_repr(block: list[int], n: int, pick: int):
    """Express a sorted block of positions of an axis of size n as int / slice (drawn variant)."""
    if len(block) == 1:
        i = block[0]
        return [i, i - n][pick % 2]
    step = block[1] - block[0]
    assert all(b - a == step for a, b in zip(block, block[1:]))
    start, stop = block[0], block[-1] + 1
    variants = [
        {"s": [start, stop, step]},
        {"s": [start if start else None, stop if stop < n else None, step if step != 1 else None]},
        {"s": [start - n, stop if stop < n else None, step]},
        {"s": [block[-1], (block[0] - 1) if block[0] > 0 else None, -step]},
    ]
    return variants[pick % len(variants)]


def is_ap(block):
    return len(block) < 3 or len({b - a for a, b in zip(block, block[1:])}) == 1


def make_parts(prog, axes, part_bits, pick):
    """Return list of parts; a part = {axis: key}, plus the selected positions {axis: set}."""
    per_axis = []
    for k, a in enumerate(axes):
        n = prog["sizes"][a]
        # set partition from bits: element e goes to block (bits >> 2e) & 3
        blocks: dict[int, list[int]] = {}
        for e in range(n):
            blocks.setdefault((part_bits >> (2 * e + 8 * k)) & 3, []).append(e)
        final = []
        for b in blocks.values():
            if is_ap(b):
                final.append(b)
            else:  # split into singletons + the longest AP prefix
                final.append(b[:2])
                final += [[x] for x in b[2:]]
        per_axis.append([(b, block_repr(b, n, pick + 3 * i)) for i, b in enumerate(sorted(final))])
    parts = []
    for combo in itertools.product(*per_axis):
        parts.append(({a: key for a, (_, key) in zip(axes, combo)}, {a: set(b) for a, (b, _) in zip(axes, combo)}))
    return parts


def dec(key):
    return slice(*key["s"]) if isinstance(key, dict) else key


class _Log(list):
    def append(self, e):
        if e[0] == "start":
            super().append((e[1], e[2]))


class _XLog:
    """The same log kept in a file, for parts that run in a process pool."""

    def __init__(self) -> None:
        self.f = mp.FileLog(boot.fresh_path("c06log") + ".jsonl")

    def append(self, e):
        if e[0] == "start":
            self.f.append([e[1], e[2]])

    def __iter__(self):
        return iter([tuple(x) for x in self.f.read()])

    def __len__(self):
        return len(self.f.read())

    def __delitem__(self, key):
        self.f.clear()


def masks_of(folder, names):
    from pipefunc.map._run_info import RunInfo
    from pipefunc.map._storage_array._base import StorageBase

    store = RunInfo.load(folder).init_store()
    out = {}
    for o in names:
        s = store[o]
        if isinstance(s, StorageBase):
            out[o] = np.asarray(np.ma.getdata(s.mask), dtype=bool)
        else:
            out[o] = s.is_file() if hasattr(s, "is_file") else None
    return out


def body_parts(data) -> Outcome:
    from pipefunc.map import load_outputs

    out = Outcome()
    prog = data["prog"]
    ind = independent_axes(prog)
    if not ind:
        out.labels = ["n/a:no-independent-axis"]
        return out
    n_axes = 1 + (data["pick"] % 2 if len(ind) > 1 else 0)
    axes = [ind[(data["pick"] // 2 + k) % len(ind)] for k in range(n_axes)]
    axes = sorted(set(axes))
    parts = make_parts(prog, axes, data["part_bits"], data["pick"])
    order = sorted(range(len(parts)), key=lambda i: (data["order_key"] >> (3 * i)) % 8 * 100 + i)
    calls: list = []
    ref = mp.denotation(prog, calls_out=calls)
    funcs = {fn["name"]: fn for fn in prog["funcs"]}
    carrying = [fn for fn in prog["funcs"] if fn["mapspec"] and any(a in mp.ext_axes_of(fn) for a in axes)]
    any_slice = any(isinstance(k, dict) for p, _ in parts for k in p.values())
    out.labels = [f"parts:{min(len(parts), 6)}", f"axes:{len(axes)}"] + (["slice"] if any_slice else []) + [l for l in mp.labels(prog) if l.startswith("storage:")]
    out.nontrivial = len(parts) >= 2 and any_slice and order != sorted(order) and len(carrying) >= 2
    # every third partition whose storages live outside the parent's memory continues in a process pool after its
    # first (sequential) part: what the workers store must reach the folder just the same
    stor = prog["storage"]
    pool_ok = ({stor} if isinstance(stor, str) else set(stor.values())) <= {"file_array", "shared_memory_dict"}
    use_pool = pool_ok and (data["order_key"] >> 15) % 3 == 0 and len(parts) >= 2
    if use_pool:
        out.labels.append("later-parts-in-a-process-pool")
    log = _XLog() if use_pool else _Log()
    folder = boot.fresh_path("c06")
    pools: list = []
    try:
        try:
            pipe = mp.build_pipeline(prog, log)
        except Exception:
            out.labels.append("n/a:build-refused")
            return out
        inputs = mp.make_inputs(prog)
        kw = dict(run_folder=folder, internal_shapes=mp.internal_shapes_arg(prog), storage=mp.storage_arg(prog), parallel=False)
        done: dict[str, set] = {a: set() for a in axes}  # not used for products; track selected combos instead
        selected_combos: set = set()
        seen_calls: set = set()
        names = mp.output_names(prog)
        for step, pi in enumerate(order):
            fi, sel = parts[pi]
            del log[:]
            kw_step = dict(kw)
            if use_pool and step >= 1:
                import multiprocessing
                from concurrent.futures import ProcessPoolExecutor

                pools.append(ProcessPoolExecutor(max_workers=2, mp_context=multiprocessing.get_context("fork")))
                kw_step.update(parallel=True, executor=pools[-1])
            try:
                pipe.map(inputs, fixed_indices={a: dec(k) for a, k in fi.items()}, cleanup=(step == 0), **kw_step)
            except Exception as e:
                out.fail(exc_bucket(e, "part-refused"), f"part {fi}: {exc_detail(e)}")
                return out
            while pools:
                pools.pop().shutdown(wait=True)
            for combo in itertools.product(*[sorted(sel[a]) for a in axes]):
                selected_combos.add(combo)
            # expected calls of this part
            want = []
            for fname, base, ids in calls:
                fn = funcs[fname]
                carried = [a for a in axes if a in ids]
                if fn["mapspec"] and carried:
                    if all(ids[a] in sel[a] for a in carried):
                        want.append((fname, base))
                elif (fname, base) not in seen_calls:
                    want.append((fname, base))
            want = [c for c in want if c not in seen_calls]
            got = list(log)
            if sorted(got) != sorted(want):
                extra = [c for c in got if c not in want][:3]
                missing = [c for c in want if c not in got][:3]
                dup = [c for c in set(got) if got.count(c) > 1][:3]
                kind = "recomputed" if any(c in seen_calls for c in got) else ("duplicate" if dup else "wrong-elements")
                out.fail(f"part-calls-{kind}", f"step {step} part {fi}: extra {extra} missing {missing} dup {dup}")
            seen_calls |= set(got)
            # storage masks
            try:
                masks = masks_of(folder, names)
            except Exception as e:
                out.fail(exc_bucket(e, "mask-inspection-raised"), exc_detail(e))
                return out
            for fn in prog["funcs"]:
                ext = mp.ext_axes_of(fn)
                is_array = fn["mapspec"] and any(p["spec"] is not None for p in fn["params"])
                for o in fn["outs"]:
                    m = masks[o]
                    if not is_array:
                        if m is False:
                            out.fail("part-single-output-missing", f"step {step}: {o}")
                        continue
                    ext_shape = tuple(prog["sizes"][a] for a in ext)
                    want_m = np.ones(ext_shape, dtype=bool)
                    carried = [a for a in axes if a in ext]
                    for idx in np.ndindex(*ext_shape):
                        ids = dict(zip(ext, idx))
                        if not carried:
                            want_m[idx] = False
                        else:
                            # selected so far: some executed part selects every carried axis value
                            want_m[idx] = not any(all(ids[a] in parts[pj][1][a] for a in carried) for pj in order[: step + 1])
                    if m is None or m.shape != want_m.shape or (m != want_m).any():
                        out.fail("part-mask-wrong", f"step {step} part {fi}: {o} mask {None if m is None else m.tolist()} want {want_m.tolist()}")
        # ---- a part that is run again (a resumed part: everything it selects is already stored) computes nothing ----
        if not out.failures:
            fi, _sel = parts[order[data["pick"] % len(order)]]
            del log[:]
            try:
                pipe.map(inputs, fixed_indices={a: dec(k) for a, k in fi.items()}, cleanup=False, **kw)
                if len(log):
                    out.fail("part-rerun-recomputed", f"part {fi} run a second time computed {list(log)[:4]}")
            except Exception as e:
                out.fail(exc_bucket(e, "part-rerun-raised"), f"part {fi}: {exc_detail(e)}")
        # ---- end state ------------------------------------------------------------------------------------
        for o in names:
            try:
                lo = load_outputs(o, run_folder=folder)
                if mp.canon(lo) != mp.canon(ref[o]):
                    out.fail("parts-final-data-differs", f"{o}: got {str(mp.canon(lo))[:200]} want {str(mp.canon(ref[o]))[:200]}")
            except Exception as e:
                out.fail(exc_bucket(e, "parts-final-load-raised"), exc_detail(e))
        del log[:]
        try:
            res = pipe.map(inputs, cleanup=False, **kw)
            if log:
                out.fail("final-full-run-recomputed", repr(list(log))[:300])
            for o in names:
                if mp.canon(res[o].output) != mp.canon(ref[o]):
                    out.fail("final-full-run-result-differs", f"{o}: got {str(mp.canon(res[o].output))[:200]} want {str(mp.canon(ref[o]))[:200]}")
        except Exception as e:
            out.fail(exc_bucket(e, "final-full-run-raised"), exc_detail(e))
        del done
    finally:
        while pools:
            pools.pop().shutdown(wait=True)
        if use_pool:
            log.f.clear()
        gc.collect()
        boot.rm(folder)
    return out


def _run_learner(lp, reverse=False):
    lrn = lp.learner
    pts = list(enumerate(lrn.sequence))
    if reverse:
        pts.reverse()
    for i, x in pts:
        y = lrn._original_function(x)
        lrn.tell((i, x), y)


def _learners_after_crash(data, prog, pipe, inputs, folder, common, log, calls, ref, out) -> Outcome:
    """Learners resumed on a store that an interrupted learner run left behind: a multi-output function dumps its
    outputs one after the other, so a process death between the two dumps of element k leaves the first output of
    k stored and the later ones missing.  The state is produced by running the learners up to the generation of that
    function (the element is the one stored last in some legal order) and un-storing the later outputs of k."""
    from pipefunc.map import load_outputs
    from pipefunc.map.adaptive import create_learners

    multi = [fn for fn in prog["funcs"] if fn["mapspec"] and len(fn["outs"]) > 1 and any(p["spec"] is not None for p in fn["params"])]
    if not multi:
        out.labels.append("n/a:no-multi-output-map-function")
        return out
    victim = multi[data["pick"] % len(multi)]
    vcalls = [c for c in calls if c[0] == victim["name"]]
    try:
        ld = create_learners(pipe, inputs, folder, cleanup=True, **common)
    except Exception as e:
        out.fail(exc_bucket(e, "create_learners-refused"), exc_detail(e))
        return out
    first_pass_funcs = []
    try:
        (gens,) = ld.data.values()
        for gen in gens:
            for lp in gen:
                _run_learner(lp, reverse=bool(data["order_key"] % 2))
                first_pass_funcs.append(lp.pipefunc.__name__)
            if any(lp.pipefunc.output_name == tuple(victim["outs"]) for lp in gen):
                break
    except Exception as e:
        out.fail(exc_bucket(e, "learner-raised"), exc_detail(e))
        return out
    # the interrupted element and how many of its outputs made it to disk (at least the first, not the last)
    ext = mp.ext_axes_of(victim)
    ext_shape = tuple(prog["sizes"][a] for a in ext)
    k = (data["pick"] // 7) % max(1, int(np.prod(ext_shape)))
    kept = 1 + (data["pick"] // 3) % (len(victim["outs"]) - 1)
    removed = []
    for o in victim["outs"][kept:]:
        path = os.path.join(folder, "outputs", o, f"__{k}__.pickle")
        if os.path.exists(path):
            os.unlink(path)
            removed.append(o)
    if not removed:
        out.labels.append("n/a:element-file-not-found")
        return out
    first = list(log)
    del log[:]
    try:
        ld2 = create_learners(pipe, inputs, folder, cleanup=False, **common)
        for gens in ld2.data.values():
            for gen in gens:
                for lp in gen:
                    _run_learner(lp, reverse=bool((data["order_key"] >> 1) % 2))
    except Exception as e:
        out.fail(exc_bucket(e, "resumed-learner-raised"), exc_detail(e))
        return out
    second = list(log)
    out.labels.append("learners-resumed-after-crash-between-outputs")
    out.nontrivial = True
    ids_k = dict(zip(ext, np.unravel_index(k, ext_shape))) if ext else {}
    redo = [(c[0], c[1]) for c in vcalls if all(c[2].get(a) == int(v) for a, v in ids_k.items())]
    want_total = sorted([(c[0], c[1]) for c in calls] + redo)
    got_total = sorted(first + second)
    if got_total != want_total:
        missing = [c for c in want_total if got_total.count(c) < want_total.count(c)][:3]
        extra = [c for c in got_total if got_total.count(c) > want_total.count(c)][:3]
        out.fail("crash-resume-calls-" + ("interrupted-element-not-recomputed" if any(c in redo for c in missing) else "wrong"),
                 f"element {k} of {victim['name']} lost {removed}: missing {missing} extra {extra}")
    for o in mp.output_names(prog):
        try:
            lo = load_outputs(o, run_folder=folder)
            if mp.canon(lo) != mp.canon(ref[o]):
                out.fail("crash-resume-final-data-differs", f"{o}: got {str(mp.canon(lo))[:200]} want {str(mp.canon(ref[o]))[:200]}")
        except Exception as e:
            out.fail(exc_bucket(e, "crash-resume-final-load-raised"), exc_detail(e))
    del log[:]
    try:
        pipe.map(inputs, run_folder=folder, cleanup=False, parallel=False, **common)
        if log:
            out.fail("crash-resume-final-full-run-recomputed", repr(list(log))[:300])
    except Exception as e:
        out.fail(exc_bucket(e, "crash-resume-final-full-run-raised"), exc_detail(e))
    return out


def body_learners(data) -> Outcome:
    from pipefunc.map import load_outputs
    from pipefunc.map.adaptive import create_learners

    out = Outcome()
    prog = data["prog"]
    mode = data["mode"]
    calls: list = []
    ref = mp.denotation(prog, calls_out=calls)
    ind = independent_axes(prog)
    prog = dict(prog, storage="file_array")  # learners dump into the store objects they hold; only file storage is on disk
    out.labels = [f"mode:{mode}"] + [l for l in mp.labels(prog) if l.startswith("internal")]
    log = _Log()
    folder = boot.fresh_path("c06l")
    try:
        # functions with resources_scope="element" get one learner per element instead of one per function
        elem_scope = [fn["name"] for k, fn in enumerate(prog["funcs"]) if fn["mapspec"] and (data["pick"] >> (4 + k)) & 1]
        pf_extra = {f: {"resources": {"cpus": 1}, "resources_scope": "element"} for f in elem_scope}
        if elem_scope:
            out.labels.append("element-scope-learners")
        try:
            pipe = mp.build_pipeline(prog, log, pf_extra=pf_extra)
        except Exception:
            out.labels.append("n/a:build-refused")
            return out
        inputs = mp.make_inputs(prog)
        common = dict(internal_shapes=mp.internal_shapes_arg(prog), storage=mp.storage_arg(prog))
        if mode == "crash":
            return _learners_after_crash(data, prog, pipe, inputs, folder, common, log, calls, ref, out)
        runs = []  # list of kwargs for create_learners
        if mode == "fixed":
            if not ind:
                out.labels.append("n/a:no-independent-axis")
                return out
            axes = [ind[data["pick"] % len(ind)]]
            parts = make_parts(prog, axes, data["part_bits"], data["pick"])
            for k, (fi, _) in enumerate(parts):
                runs.append(dict(fixed_indices={a: dec(v) for a, v in fi.items()}, cleanup=(k == 0)))
        else:
            runs.append(dict(split_independent_axes=(mode == "split"), cleanup=True))
        n_learners = 0
        for r in runs:
            try:
                ld = create_learners(pipe, inputs, folder, **common, **r)
            except Exception as e:
                out.fail(exc_bucket(e, "create_learners-refused"), f"{r}: {exc_detail(e)}")
                return out
            keys = list(ld.data)
            if mode == "split" and len(keys) >= 2:
                out.labels.append("split:several-keys")
                key_axes = {a for k in keys if k for a, _ in k}
                if any(not (set(fn["out_axes"]) & key_axes) for fn in prog["funcs"]):
                    out.labels.append("split:several-keys+function-without-a-split-axis")
            keys = sorted(range(len(keys)), key=lambda i: (data["order_key"] >> (2 * (i % 8))) % 4 * 100 + i)
            klist = list(ld.data)
            for ki in keys:
                for gen in ld.data[klist[ki]]:
                    gl = list(gen)
                    if data["order_key"] % 2:
                        gl.reverse()
                    for lp in gl:
                        n_learners += 1
                        lrn = lp.learner
                        pts = list(enumerate(lrn.sequence))
                        if (data["order_key"] >> 1) % 2:
                            pts.reverse()
                        try:
                            for i, x in pts:
                                y = lrn._original_function(x)
                                lrn.tell((i, x), y)
                        except Exception as e:
                            out.fail(exc_bucket(e, "learner-raised"), exc_detail(e))
                            return out
        out.labels.append(f"learners:{min(n_learners, 12) // 3 * 3}+")
        out.nontrivial = n_learners >= 3 and any(fn["mapspec"] for fn in prog["funcs"])
        got = list(log)
        want = [(c[0], c[1]) for c in calls]
        if sorted(got) != sorted(want):
            dup = sorted({c for c in got if got.count(c) > 1})[:3]
            missing = [c for c in want if c not in got][:3]
            extra = [c for c in got if c not in want][:3]
            kind = "element-computed-more-than-once" if dup and not missing and not extra else "wrong-elements"
            out.fail(f"learners-calls-{kind}", f"dup {dup} (x{max([got.count(c) for c in dup] or [0])}) missing {missing} extra {extra}")
        for o in mp.output_names(prog):
            try:
                lo = load_outputs(o, run_folder=folder)
                if mp.canon(lo) != mp.canon(ref[o]):
                    out.fail("learners-final-data-differs", f"{o}: got {str(mp.canon(lo))[:200]} want {str(mp.canon(ref[o]))[:200]}")
            except Exception as e:
                out.fail(exc_bucket(e, "learners-final-load-raised"), exc_detail(e))
        del log[:]
        try:
            pipe.map(inputs, run_folder=folder, cleanup=False, parallel=False, **common)
            if log:
                out.fail("learners-final-full-run-recomputed", repr(list(log))[:300])
        except Exception as e:
            out.fail(exc_bucket(e, "learners-final-full-run-raised"), exc_detail(e))
    finally:
        gc.collect()
        boot.rm(folder)
    return out


def _reducers(prog) -> dict:
    """axis -> names of the functions that reduce it (take it whole: no MapSpec, unmapped parameter, or ':')."""
    axes_of = carried_axes(prog)
    named = {a for fn in prog["funcs"] if fn["mapspec"] for p in fn["params"] if p["spec"] for a in p["spec"] if a}

    def named_for(arr, a):
        k = axes_of.get(arr, []).index(a)
        if any(arr in g["outs"] and g["mapspec"] for g in prog["funcs"]):
            return True
        return any(q["name"] == arr and q["spec"] is not None and q["spec"][k] == a
                   for g in prog["funcs"] if g["mapspec"] for q in g["params"])  # fmt: skip

    red: dict = {}
    for fn in prog["funcs"]:
        for p in fn["params"]:
            ax = axes_of.get(p["name"], [])
            if not ax:
                continue
            if p["spec"] is None or not fn["mapspec"]:
                r = set(ax)
            else:
                r = {x for x, s in zip(ax, p["spec"]) if s is None}
            for a in r:
                if a in named and named_for(p["name"], a):
                    red.setdefault(a, set()).add(fn["name"])
    return red


def _reduced_named_axes(prog) -> set:
    return set(_reducers(prog))


def body_reject(data) -> Outcome:
    out = Outcome()
    prog, why = data["prog"], data["why"]
    out.labels = [why]
    out.nontrivial = True
    log = _Log()
    folder = boot.fresh_path("c06r")
    try:
        try:
            pipe = mp.build_pipeline(prog, log)
        except Exception:
            out.labels = ["n/a:build-refused"]
            return out
        inputs = mp.make_inputs(prog)
        ind = independent_axes(prog)
        axes_of = carried_axes(prog)
        if why == "unknown":
            fi = {"zz_axis": 0}
            want = ValueError
        elif why == "out-of-range":
            if not ind:
                out.labels = ["n/a:" + why]
                return out
            a = ind[data["pick"] % len(ind)]
            n = prog["sizes"][a]
            fi = {a: [n, n + 1, -n - 1][data["pick"] % 3]}
            want = IndexError
        else:  # reduced axis
            reduced = _reduced_named_axes(prog)
            if not reduced:
                out.labels = ["n/a:" + why]
                return out
            a = sorted(reduced)[data["pick"] % len(reduced)]
            fi = {a: 0}
            want = ValueError
            # history variant: the reducers of `a` join the pipeline *after* a partial run that legitimately fixed `a`
            reducers = _reducers(prog)[a]
            consumers = {fn["name"] for fn in prog["funcs"] for p in fn["params"]
                         for g in prog["funcs"] if g["name"] in reducers and p["name"] in g["outs"]}  # fmt: skip
            if (data["pick"] >> 5) % 4 and not (consumers - reducers) and len(reducers) < len(prog["funcs"]):
                prog0 = dict(prog, funcs=[fn for fn in prog["funcs"] if fn["name"] not in reducers])
                if a in independent_axes(prog0):
                    try:
                        pipe = mp.build_pipeline(prog0, log)
                        pipe.map({k: v for k, v in inputs.items() if k in mp.used_roots(prog0)}, run_folder=folder, fixed_indices=fi,
                                 internal_shapes=mp.internal_shapes_arg(prog0), storage=mp.storage_arg(prog0), parallel=False)  # fmt: skip
                        for pf in mp.make_pipefuncs(prog, log):
                            if pf.__name__ in reducers:
                                pipe.add(pf)
                    except Exception:
                        out.labels = ["n/a:history-variant-setup-refused"]
                        return out
                    del log[:]
                    boot.rm(folder)
                    out.labels.append("reducer-added-after-a-partial-run")
        try:
            pipe.map(inputs, run_folder=folder, fixed_indices=fi, internal_shapes=mp.internal_shapes_arg(prog),
                     storage=mp.storage_arg(prog), parallel=False)  # fmt: skip
        except want:
            if log:
                out.fail(f"reject-{why}-ran-user-code", repr(list(log))[:200])
            return out
        except Exception as e:
            out.fail(exc_bucket(e, f"reject-{why}-wrong-exception"), exc_detail(e))
            return out
        out.fail(f"reject-{why}-accepted", f"fixed_indices={fi}")
    finally:
        gc.collect()
        boot.rm(folder)
    return out


@st.composite
def side_programs(draw):
    """Programs with a function that carries none of the independent axes (another mapped axis that a later function
    takes whole, a function without MapSpec) feeding functions that do: under split_independent_axes such a function
    belongs to every key's chain."""

    def fn(name, outs, params, out_axes, mapspec=True):
        return {"name": name, "outs": outs, "picker": None, "mapspec": mapspec, "params": params, "out_axes": list(out_axes),
                "int_axes": [], "ret": "list", "shape_via": "map", "nones": False}  # fmt: skip

    sizes = {"i": draw(st.integers(2, 3)), "j": draw(st.integers(1, 3))}
    roots = {"x": {"axes": ["i"], "kind": "list"}, "w": {"axes": ["j"], "kind": draw(st.sampled_from(["list", "ndarray"]))}}
    side = draw(st.sampled_from(["other-axis", "whole", "scalar"]))
    funcs = []
    if side == "other-axis":
        funcs.append(fn("f0", ["v"], [{"name": "w", "spec": ["j"]}], ["j"]))
    elif side == "whole":
        funcs.append(fn("f0", ["v"], [{"name": "w", "spec": None}], [], mapspec=False))
    else:
        roots["s"] = {"axes": [], "kind": "scalar"}
        funcs.append(fn("f0", ["v"], [{"name": "s", "spec": None}], [], mapspec=False))
    first = "x"
    if draw(st.booleans()):
        funcs.append(fn("f1", ["y"], [{"name": "x", "spec": ["i"]}], ["i"]))
        first = "y"
    params = [{"name": first, "spec": ["i"]}, {"name": "v", "spec": None}]
    if draw(st.booleans()):
        params.reverse()
    funcs.append(fn("f2", ["z"], params, ["i"]))
    if draw(st.booleans()):
        funcs.append(fn("f3", ["u"], [{"name": "z", "spec": ["i"]}], ["i"]))
    if side == "scalar" or draw(st.booleans()):
        if side == "scalar":
            funcs.append(fn("f4", ["t"], [{"name": "w", "spec": ["j"]}], ["j"]))  # keeps every root used
    return {"sizes": sizes, "roots": roots, "funcs": funcs, "storage": "file_array"}


@st.composite
def reduce_programs(draw):
    """A rank-2 array with two or three reducing consumers (whole, row-wise, column-wise) in a drawn order: each
    consumer contributes its own reduced axes."""

    def fn(name, outs, params, out_axes, mapspec=True):
        return {"name": name, "outs": outs, "picker": None, "mapspec": mapspec, "params": params, "out_axes": list(out_axes),
                "int_axes": [], "ret": "list", "shape_via": "map", "nones": False}  # fmt: skip

    sizes = {"i": draw(st.integers(2, 3)), "j": draw(st.integers(2, 3))}
    roots = {"x": {"axes": ["i"], "kind": "list"}, "w": {"axes": ["j"], "kind": "list"}}
    funcs = [fn("f0", ["y"], [{"name": "x", "spec": ["i"]}, {"name": "w", "spec": ["j"]}], ["i", "j"])]
    consumers = {
        "whole": fn("gw", ["tot"], [{"name": "y", "spec": None}], [], mapspec=False),
        "rows": fn("gr", ["rows"], [{"name": "y", "spec": ["i", None]}], ["i"]),
        "cols": fn("gc", ["cols"], [{"name": "y", "spec": [None, "j"]}], ["j"]),
        "norm": fn("gn", ["nrm"], [{"name": "y", "spec": ["i", None]}, {"name": "w", "spec": ["j"]}], ["i", "j"]),
    }
    chosen = draw(st.lists(st.sampled_from(sorted(consumers)), min_size=2, max_size=3, unique=True))
    funcs += [consumers[c] for c in chosen]
    return {"sizes": sizes, "roots": roots, "funcs": funcs, "storage": draw(st.sampled_from(["file_array", "dict"]))}


def campaigns(tier):
    progs = st.one_of(
        mp.map_programs(max_funcs=3, max_rank=2, max_size=4, min_funcs=1),
        mp.map_programs(max_funcs=3, max_rank=2, max_size=4, min_funcs=2, allow_reduction=False),
        mp.map_programs(max_funcs=3, max_rank=2, max_size=4, min_funcs=2, allow_reduction=False, allow_no_mapspec=False),
    )
    parts = st.fixed_dictionaries(
        {"prog": progs, "part_bits": st.integers(0, 2**16 - 1), "order_key": st.integers(0, 2**18 - 1), "pick": st.integers(0, 2**12 - 1)}
    )
    # learners: plus a family of rank-1 programs over two index names (several mapped axes side by side, whole-array
    # consumers of the "other" axis: functions that carry none of the axes the learners are split over)
    lprogs = st.one_of(progs, mp.map_programs(max_funcs=3, max_rank=1, max_size=3, min_funcs=2, root_pool=2),
                       mp.map_programs(max_funcs=4, max_rank=1, max_size=3, min_funcs=3, root_pool=2, allow_internal=False),
                       side_programs())  # fmt: skip
    learners = st.fixed_dictionaries(
        {"prog": lprogs, "mode": st.sampled_from(["split", "whole", "fixed", "split", "crash"]), "part_bits": st.integers(0, 2**16 - 1),
         "order_key": st.integers(0, 2**18 - 1), "pick": st.integers(0, 2**12 - 1)}
    )  # fmt: skip
    reject = st.fixed_dictionaries(
        {"prog": st.one_of(progs, progs, reduce_programs()), "why": st.sampled_from(["unknown", "out-of-range", "reduced", "reduced", "reduced"]), "pick": st.integers(0, 2**12 - 1)}
    )
    return [
        Campaign("parts", body_parts, parts, quick=1500, thorough=16000, describe="map(fixed_indices=part) per part of a partition, drawn order"),
        Campaign("learners", body_learners, learners, quick=1200, thorough=12000, describe="create_learners (split / whole / fixed parts), drawn evaluation order"),
        Campaign("reject", body_reject, reject, quick=800, thorough=8000, describe="fixed_indices that must be rejected"),
    ]


def never_named_axis(prog) -> bool:
    """Some array used in a MapSpec has an axis position that is ':' in every spec that mentions the array."""
    specs: dict[str, list] = {}
    for fn in prog["funcs"]:
        if not fn["mapspec"]:
            continue
        for p in fn["params"]:
            if p["spec"] is not None:
                specs.setdefault(p["name"], []).append(p["spec"])
        for o in fn["outs"]:
            specs.setdefault(o, []).append(list(fn["out_axes"]))
    for name, sps in specs.items():
        rank = len(sps[0])
        for k in range(rank):
            if all(sp[k] is None for sp in sps):
                return True
    return False


def _pred_never_named(case, failure) -> bool:
    """C06 finding: Pipeline.mapspec_axes cannot name an axis that is ':' in every MapSpec mentioning the array
    (r0[:, k] or r0[:]); fixed_indices validation and create_learners then raise KeyError on a valid pipeline."""
    return "KeyError" in failure.bucket and never_named_axis(case["data"]["prog"])


def _pred_mapped_and_reduced(case, failure) -> bool:
    """C06 finding: create_learners(split_independent_axes=True) on a pipeline in which an index name is iterated by
    one function and reduced (array passed whole / ':') by another: _identify_cross_product_axes asserts, or picks the
    axis and _validate_fixed_indices then refuses it."""
    prog = case["data"]["prog"]
    if case["data"].get("mode") != "split":
        return False
    if not failure.bucket.startswith("create_learners-refused"):
        return False  # the finding is a refusal (assertion / ValueError) at create_learners, nothing else
    axes_of = carried_axes(prog)
    named = {a for fn in prog["funcs"] if fn["mapspec"] for p in fn["params"] if p["spec"] for a in p["spec"] if a}
    reduced = set()
    for fn in prog["funcs"]:
        for p in fn["params"]:
            ax = axes_of.get(p["name"], [])
            if p["spec"] is None or not fn["mapspec"]:
                reduced |= set(ax)
            else:
                reduced |= {a for a, sp in zip(ax, p["spec"]) if sp is None}
    return bool(named & reduced)


PREDICATES = {"never_named_axis": _pred_never_named, "axis_mapped_and_reduced": _pred_mapped_and_reduced}

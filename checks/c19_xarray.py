"""C19 -- xarray datasets label results with the right dimensions and coordinates (DESIGN.md section 4, C19)."""

from __future__ import annotations

import itertools

import re

import numpy as np
from hypothesis import strategies as st

from vlib import boot
from vlib import mapprog as mp
from vlib.core import Campaign, Outcome, exc_bucket, exc_detail

PID = "C19"
LEVEL = "exploration"
RULE = (
    "Hypothesis-generated MapPrograms of C01 restricted to the property's domain (mp.map_programs(max_rank=2, "
    "allow_autogen=False, storage file_array/dict uniform or per output): 1-3 roots of rank 0-2, 1-3 tracer functions with "
    "or without MapSpec, zip / outer product / ':' / reductions / permuted output axes / internal axes / generators / "
    "tuple outputs). On top of the program: every 1-D root keeps mapprog's unique strings or gets distinct 3-digit ints "
    "(list or int64 ndarray), functions without MapSpec may return a 1-D/2-D ndarray or a list instead of a string, "
    "load_intermediate is drawn; campaign 'zip' additionally zips 1-2 extra 1-D roots (or a 2-D twin of a 2-D parameter) into "
    "MapSpec functions on indices they already name; campaign 'reintroduced-index' enumerates all 96 four-function chains "
    "in which an index is reduced away and introduced again by another root. The program is run with Pipeline.map(parallel=False, run_folder=F); then "
    "xarray_dataset_from_results(inputs, results, pipeline) and pipefunc.map.load_xarray_dataset(run_folder=F) must both "
    "succeed and be Dataset.identical(). Oracle (own dependency tracing over the program AST + the C01 denotation "
    "model fed the same inputs): every MapSpec output is a variable with dims == its MapSpec axes in order and the "
    "model's values; every 1-D root on whose axis a variable depends is a coordinate of that variable on exactly that "
    "axis with the input's values, alone or -- when several arrays are zipped on the axis -- as one level of one "
    "pandas MultiIndex coordinate named by ':'-joining its level names; no other coordinate exists (except the "
    "documented optional ones, which must then carry the right values); non-MapSpec outputs are variables with the "
    "model's value; for every coordinate value v, selecting by v (DataArray.sel for plain coordinates; "
    "swap_dims+sel and MultiIndex.get_loc+isel for zipped ones) returns exactly the model's slice at the position of "
    "v, all of whose tracer strings spell out v. Non-trivial = a MapSpec output with >= 2 dims, or a zipped "
    "coordinate, or a non-MapSpec output present; distinct by sha1 of the case."
)
ASSUMPTIONS = [
    "domain: index sizes globally consistent, mapped roots 1-D or 2-D (rank-3 roots are outside the property's quantifier), sizes 1-3 per index",
    "auto-generated MapSpecs (producer without MapSpec consumed through an index) are not generated: allow_autogen=False",
    "root values are distinct: mapprog's 'r0<1>' strings, or ints from a per-root range of 3-digit numbers (no tracer text contains another 3-digit number)",
    "tracer functions never return None (allow_none=False): xarray/pandas normalise None inside object arrays to NaN, their missing value, which is not what this property is about",
    "values are compared in canonical nested-list form with str() leaves (container/dtype of DataArray.values is not part of the property)",
    "the order of the level names inside a zipped coordinate's name is not prescribed; the name must be the ':'-join of the level names in level order",
    "a Dataset shares coordinates between variables with the same dimension, so ds[o].coords may also show coordinates that belong to other variables; 'nothing invented' is therefore checked on the dataset: every coordinate must be expected for at least one variable",
    "coordinates beyond the property's promise that are accepted when labelled correctly (right dims, right values): a >= 2-D root indexed on all of its axes; with load_intermediate=True an output produced without mapped inputs ('... -> v[j]') that a variable consumes through an index; such an output may then be listed under coords instead of data_vars (ds[v] must still deliver dims and values)",
    "load_intermediate ('Whether to load intermediate outputs as coordinates'; tests/map/test_xarray.py::test_to_xarray_from_step): with False no pipeline output may be (part of) a coordinate; with True an output produced without mapped inputs that a variable consumes through an index on all of its axes must be (a level of) a coordinate of that variable",
    "such an intermediate, when zipped with 1-D roots on the same axis, may join their MultiIndex (the roots are still 'combined into one multi-index')",
    "functions without MapSpec return a str, a 1-D/2-D ndarray or a list (all are 'outputs without a MapSpec'); a 1-D ndarray may become its own dimension coordinate (xarray's rule for ds[name] = 1-D array, asserted by tests/map/test_xarray.py::test_xarray_from_result)",
    "construction failures are bucketed by exception signature plus the structural class of the program that explains it: [sliced-axis-never-named], [zip-of-2d-arrays], [single-output-list], [single-output-ndarray-2d]",
]


# ------------------------------------------------------------------------------------------------
# inputs


def make_inputs(data: dict) -> dict:
    prog = data["prog"]
    inputs = mp.make_inputs(prog)
    for r, vals in data.get("ints", {}).items():
        if r in inputs:
            spec = prog["roots"][r]
            inputs[r] = list(vals) if spec["kind"] == "list" else np.array(vals, dtype=np.int64)
    return inputs


# ------------------------------------------------------------------------------------------------
# independent dependency tracing on the AST


def has_mapped_inputs(fn: dict) -> bool:
    return bool(fn["mapspec"]) and any(p["spec"] is not None for p in fn["params"])


def leaf_deps(prog: dict) -> dict:
    """MapSpec output -> {leaf array: set of index names through which the output depends on it}.

    A leaf is a root input or the output of a MapSpec function without mapped inputs (generator '... -> v[j]').
    An index name denotes the same index everywhere in a pipeline, so dependencies follow the names.
    """
    prod = mp.func_of_output(prog)
    memo: dict = {}

    def deps(o: str) -> dict:
        if o in memo:
            return memo[o]
        fn = prod[o]
        d: dict = {}
        for p in fn["params"]:
            if p["spec"] is None or not fn["mapspec"]:
                continue
            n = p["name"]
            for a in p["spec"]:
                if a is None:
                    continue
                if n in prog["roots"] or not has_mapped_inputs(prod[n]):
                    d.setdefault(n, set()).add(a)
                else:
                    for leaf, axs in deps(n).items():
                        if a in axs:
                            d.setdefault(leaf, set()).add(a)
        memo[o] = d
        return d

    return {o: deps(o) for o, fn in prod.items() if fn["mapspec"]}


def axes_of(prog: dict, name: str) -> tuple:
    if name in prog["roots"]:
        return tuple(prog["roots"][name]["axes"])
    return tuple(mp.func_of_output(prog)[name]["out_axes"])


def expectations(prog: dict, load_intermediate: bool) -> dict:
    """variable -> {"required": [(axis, [1-D roots zipped on it])], "optional": {name: axes}}"""
    exp = {}
    for o, d in leaf_deps(prog).items():
        req: dict = {}
        opt: dict = {}
        for leaf, axs in d.items():
            full = axes_of(prog, leaf)
            if set(axs) != set(full):
                continue  # only part of the array's axes is used: the array does not label the variable
            if leaf in prog["roots"]:
                if len(full) == 1:
                    req.setdefault(full[0], []).append(leaf)
                else:
                    opt[leaf] = full
            elif load_intermediate:
                opt[leaf] = full
        exp[o] = {"required": sorted(req.items()), "optional": opt}
    return exp


# ------------------------------------------------------------------------------------------------
# structural classes used to name the root cause of a refused construction


def never_named_axis(prog: dict) -> list:
    """Arrays of rank >= 2 of which some axis is named by a MapSpec and another one is ':' in every MapSpec."""
    named: dict = {}
    rank: dict = {}
    for fn in prog["funcs"]:
        if not fn["mapspec"]:
            continue
        for p in fn["params"]:
            if p["spec"] is not None:
                rank[p["name"]] = len(p["spec"])
                named.setdefault(p["name"], set()).update(k for k, a in enumerate(p["spec"]) if a is not None)
        for o in fn["outs"]:
            rank[o] = len(fn["out_axes"])
            named.setdefault(o, set()).update(range(len(fn["out_axes"])))
    return sorted(n for n in rank if 0 < len(named[n]) < rank[n])


def zip_of_2d(prog: dict, load_intermediate: bool) -> bool:
    for e in expectations(prog, load_intermediate).values():
        seen = [full for full in e["optional"].values() if len(full) >= 2]
        if len(seen) != len(set(seen)):
            return True
    return False


def crash_bucket(prog: dict, li: bool, e: BaseException) -> str:
    sig = exc_bucket(e, "")  # ':Type@file:function'
    func = sig.rsplit(":", 1)[-1]
    qual = ""
    if func in ("<genexpr>", "mapspec_axes", "_xarray", "trace_dependencies"):
        if never_named_axis(prog):
            qual = "[sliced-axis-never-named]"
        elif zip_of_2d(prog, li):
            qual = "[zip-of-2d-arrays]"
    elif func == "_xarray_dataset":
        kinds = {(fn["ret"] if len(fn["int_axes"]) == 1 else "ndarray", len(fn["int_axes"])) for fn in prog["funcs"] if not fn["mapspec"] and fn["int_axes"]}
        if type(e).__name__ == "MissingDimensionsError" and any(k[1] >= 2 for k in kinds):
            qual = "[single-output-ndarray-2d]"
        elif ("list", 1) in kinds and "((), [" in str(e):
            qual = "[single-output-list]"
    return qual + sig


# ------------------------------------------------------------------------------------------------
# oracle


def _coord_levels(coord):
    """(level names, per-level value lists) of a coordinate DataArray: a MultiIndex or a plain 1-D coordinate."""
    import pandas as pd

    idx = coord.to_index()
    if isinstance(idx, pd.MultiIndex):
        return list(idx.names), [list(idx.get_level_values(k)) for k in range(idx.nlevels)], idx
    return None, None, idx


def _texts(v) -> list:
    c = mp.canon(v)
    flat = []

    def walk(x):
        if isinstance(x, list):
            for y in x:
                walk(y)
        else:
            flat.append(x)

    walk(c)
    return flat


def _fits(parts: list, e: dict, dims: tuple) -> bool:
    """Can the coordinate made of `parts` on `dims` be the label of the variable with expectation `e`?"""
    req = dict(e["required"]).get(dims[0], []) if len(dims) == 1 else []
    opt = {n for n, full in e["optional"].items() if full == dims}
    return len(set(parts)) == len(parts) and set(req) <= set(parts) <= set(req) | opt


def check_dataset(data: dict, ds, inputs: dict, ref: dict, out: Outcome, only: set | None = None) -> None:
    """`only`: the dataset was loaded for these output names; the promises are checked for them alone."""
    prog = data["prog"]
    li = data["load_intermediate"]
    prod = mp.func_of_output(prog)
    names = [o for o in mp.output_names(prog) if only is None or o in only]
    exp = {o: e for o, e in expectations(prog, li).items() if only is None or o in only}
    exp_li = {o: e for o, e in expectations(prog, True).items() if only is None or o in only}

    def source(n):
        return inputs[n] if n in inputs else ref[n]

    # ---- variables: presence, dims, values
    plain_dim_coords = set()
    for o in names:
        fn = prod[o]
        if o not in ds.variables:
            out.fail("mapspec-output-missing" if fn["mapspec"] else "single-output-missing", f"{o} not in {list(ds.variables)}")
            continue
        da = ds[o]
        want = mp.canon(ref[o])
        if fn["mapspec"]:
            if tuple(da.dims) != tuple(fn["out_axes"]):
                out.fail("dims-differ-from-mapspec-axes", f"{o}: dims {tuple(da.dims)} want {tuple(fn['out_axes'])}")
                continue
            got = mp.canon(da.values)
            if got != want:
                out.fail("values-differ-from-map-result", f"{o}: got {str(got)[:200]} want {str(want)[:200]}")
        else:
            v = da.values
            got = mp.canon(v[()] if v.ndim == 0 else v)
            if got != want:
                out.fail("single-output-value-differs", f"{o}: got {str(got)[:200]} want {str(want)[:200]}")
            elif v.ndim not in (0, len(mp.shape_of(ref[o]))):
                out.fail("single-output-rank-differs", f"{o}: dims {da.dims} for a value of shape {mp.shape_of(ref[o])}")
            if v.ndim == 1 and tuple(da.dims) == (o,):
                plain_dim_coords.add(o)  # xarray's own dimension coordinate of a plain 1-D array variable
        out.units += 1

    # ---- every coordinate of the dataset: explainable by some variable (nothing invented) and well formed
    present: dict = {}  # coordinate name -> (parts, dims)
    good: set = set()
    for c in ds.coords:
        co = ds.coords[c]
        c = str(c)
        if c in plain_dim_coords:
            continue
        parts = c.split(":")
        dims = tuple(co.dims)
        if not dims or not any(_fits(parts, e, dims) for e in exp.values()):
            if not li and dims and any(_fits(parts, e, dims) for e in exp_li.values()):
                out.fail("intermediate-coordinate-despite-load_intermediate-False", f"{c} on {dims}")
            else:
                out.fail("unexpected-coordinate", f"{c} on {dims}; expected per variable: {exp}")
            continue
        present[c] = (parts, dims)
        levels, level_values, idx = _coord_levels(co) if len(dims) == 1 else (None, None, None)
        if len(parts) == 1:
            if levels is not None:
                out.fail("plain-coordinate-is-a-multiindex", c)
            elif mp.canon(co.values) != mp.canon(source(c)):
                kind = "root-coordinate" if c in prog["roots"] and len(dims) == 1 else "optional-coordinate"
                out.fail(f"{kind}-values-differ", f"{c}: {str(mp.canon(co.values))[:200]} want {str(mp.canon(source(c)))[:200]}")
            else:
                good.add(c)
                if not (c in prog["roots"] and len(dims) == 1):
                    out.labels.append("optional-coordinate:" + ("root2d" if c in prog["roots"] else "intermediate"))
        elif levels is None:
            out.fail("zipped-coordinate-not-a-multiindex", f"{c} is {type(idx).__name__}")
        elif [str(x) for x in levels] != parts:
            out.fail("zipped-coordinate-name-vs-level-names", f"coordinate {c} has levels {levels}")
        else:
            bad = [nm for nm, vals in zip(parts, level_values) if [str(x) for x in vals] != mp.canon(source(nm))]
            if bad:
                out.fail("zipped-coordinate-level-values-differ", f"{c}: level(s) {bad}: {level_values} want {[mp.canon(source(nm)) for nm in parts]}")
            else:
                good.add(c)
        out.units += 1

    # ---- what the property promises per variable: its 1-D roots label it, alone or zipped; selection by value
    for o, e in exp.items():
        if o not in ds.variables or tuple(ds[o].dims) != tuple(prod[o]["out_axes"]):
            continue
        da = ds[o]
        for axis, roots in e["required"]:
            mine = [c for c, (parts, dims) in present.items() if dims == (axis,) and _fits(parts, e, dims) and c in da.coords]
            if not mine:
                kind = "zipped-coordinate-missing" if len(roots) > 1 else "root-coordinate-missing"
                out.fail(kind, f"{o}: {roots} on {axis}; coordinates of the variable: {list(da.coords)}")
                continue
            for c in mine:
                if c not in good:
                    continue  # reported above
                parts = present[c][0]
                if len(parts) > 1:
                    out.labels.append("zipped-coordinate")
                    if any(p not in prog["roots"] for p in parts):
                        out.labels.append("zipped-with-intermediate")
                else:
                    out.labels.append("int-coordinate" if c in data.get("ints", {}) else "str-coordinate")
                _check_selection(o, c, axis, da, inputs, ref, out)
        # documented meaning of load_intermediate=True: intermediate leaves label their consumers as well
        for leaf, full in e["optional"].items():
            if leaf in prog["roots"]:
                continue
            if not any(dims == full and leaf in parts and _fits(parts, e, dims) and c in da.coords for c, (parts, dims) in present.items()):
                out.fail("intermediate-coordinate-missing-despite-load_intermediate-True", f"{o}: {leaf} on {full}; coordinates: {list(da.coords)}")
            out.units += 1


def _check_selection(o, cname, axis, da, inputs, ref, out) -> None:
    """Selecting by each value of coordinate `cname` returns the model's slice at that position, spelled out."""
    parts = str(cname).split(":")
    pos_axis = list(da.dims).index(axis)
    n = da.sizes[axis]
    model = np.asarray(ref[o], dtype=object)
    for p in range(n):
        vals = []
        for nm in parts:
            src = inputs[nm] if nm in inputs else ref[nm]
            vals.append(np.asarray(src, dtype=object)[p])
        want = mp.canon(np.take(model, p, axis=pos_axis))
        try:
            if len(parts) == 1:
                v = vals[0]
                sel = da.sel({cname: v.item() if hasattr(v, "item") else v})
                got = mp.canon(sel.values)
                how = "sel"
            else:
                key = tuple(v.item() if hasattr(v, "item") else v for v in vals)
                idx = da.coords[cname].to_index()
                loc = idx.get_loc(key)
                got = mp.canon(da.isel({axis: loc}).values)
                how = "get_loc+isel"
                if got == want:
                    sel = da.swap_dims({axis: cname}).sel({cname: key})
                    got = mp.canon(sel.values)
                    how = "swap_dims+sel"
        except Exception as e:
            out.fail(f"selection-raised:{type(e).__name__}", f"{o} by {cname}={vals}: {exc_detail(e)}")
            return
        if got != want:
            out.fail("selection-returns-other-element", f"{o}.{how}({cname}={vals}) = {str(got)[:200]} want {str(want)[:200]}")
            return
        for nm, v in zip(parts, vals):
            if nm in inputs:
                # (provenance texts abbreviate arguments longer than mapprog.TRACE_ARG_LIMIT to "<length#sha1>": such a
                # text cannot be searched; the equality with the model's slice above is the oracle proper)
                miss = [t for t in _texts(got) if str(v) not in t and not re.search(r"<\d+#[0-9a-f]{20}>", t)]
                if miss:
                    out.fail("selection-provenance-lacks-input-element", f"{o} by {nm}={v}: {miss[0][:200]}")
                    return
        out.units += 1


# ------------------------------------------------------------------------------------------------
# body


def labels_of(data: dict) -> list:
    prog = data["prog"]
    labs = [l for l in mp.labels(prog) if l in ("zip", "outer", "rank2", "partial_reduction", "fully_sliced", "full_reduction",
                                                 "generator", "internal_leading", "internal_trailing", "multi_output",
                                                 "permuted_output", "no_mapspec", "list_input") or l.startswith("storage:")]  # fmt: skip
    labs.append(f"load_intermediate={data['load_intermediate']}")
    if data.get("ints"):
        labs.append("int-root")
    for fn in prog["funcs"]:
        if not fn["mapspec"] and fn["int_axes"]:
            labs.append(f"plain-array-output:{fn['ret'] if len(fn['int_axes']) == 1 else 'ndarray'}{len(fn['int_axes'])}d")
    if never_named_axis(prog):
        labs.append("class:sliced-axis-never-named")
    if zip_of_2d(prog, data["load_intermediate"]):
        labs.append("class:zip-of-2d-arrays")
    return sorted(set(labs))


def body(data) -> Outcome:
    from pipefunc.map import load_xarray_dataset
    from pipefunc.map.xarray import xarray_dataset_from_results

    out = Outcome()
    prog = data["prog"]
    li = data["load_intermediate"]
    out.labels = labels_of(data)
    exp = expectations(prog, li)
    out.nontrivial = (
        any(fn["mapspec"] and len(fn["out_axes"]) >= 2 for fn in prog["funcs"])
        or any(len(rs) >= 2 for e in exp.values() for _, rs in e["required"])
        or any(not fn["mapspec"] for fn in prog["funcs"])
    )
    folder = boot.fresh_path("c19")
    try:
        inputs = make_inputs(data)
        try:
            pipe = mp.build_pipeline(prog)
            res = pipe.map(inputs, run_folder=folder, internal_shapes=mp.internal_shapes_arg(prog),
                           storage=mp.storage_arg(prog), parallel=False)  # fmt: skip
        except Exception:
            out.labels.append("n/a:run-refused")  # C01's subject
            out.nontrivial = False
            return out
        ref = mp.denotation(prog, inputs)
        ds1 = ds2 = None
        errs = {}
        try:
            ds1 = xarray_dataset_from_results(inputs, res, pipe, load_intermediate=li)
        except Exception as e:
            errs["from_results"] = (crash_bucket(prog, li, e), exc_detail(e))
        try:
            ds2 = load_xarray_dataset(run_folder=folder, load_intermediate=li)
        except Exception as e:
            errs["load_xarray_dataset"] = (crash_bucket(prog, li, e), exc_detail(e))
        if len(errs) == 2 and errs["from_results"][0] == errs["load_xarray_dataset"][0]:
            out.fail("both-raised" + errs["from_results"][0], errs["from_results"][1])
        else:
            for who, (b, d) in errs.items():
                out.fail(who + "-raised" + b, d)
        same = False
        if ds1 is not None and ds2 is not None:
            try:
                same = bool(ds1.identical(ds2))
                if not same:
                    out.fail("from_results-and-load-not-identical", f"{ds1!r:.250} VS {ds2!r:.250}")
            except Exception as e:
                out.fail(f"identical-raised:{type(e).__name__}", exc_detail(e))
        # identical datasets: one labelling check covers both; otherwise each is checked and the bucket says which
        todo = [("", ds1)] if same else [("from_results:", ds1), ("load:", ds2)]
        seen_labels: set = set()
        for tag, ds in todo:
            if ds is None:
                continue
            sub = Outcome()
            try:
                check_dataset(data, ds, inputs, ref, sub)
            except Exception as e:  # a surprise inside the oracle is reported, never hidden
                sub.fail(f"oracle-raised:{type(e).__name__}", exc_detail(e))
            for f in sub.failures:
                out.fail(tag + f.bucket, f.detail)
            out.units += sub.units
            seen_labels |= set(sub.labels)
        out.labels += sorted(seen_labels)
        # selecting outputs by name: the dataset loaded for one output keeps every promise for that output
        if ds2 is not None and not out.failures:
            for o in mp.output_names(prog):
                sub = Outcome()
                try:
                    one = load_xarray_dataset(o, run_folder=folder, load_intermediate=li)
                    check_dataset(data, one, inputs, ref, sub, only={o})
                except Exception as e:
                    sub.fail(f"raised:{type(e).__name__}", exc_detail(e))
                for f in sub.failures:
                    out.fail("load-by-name:" + f.bucket, f"load_xarray_dataset({o!r}): {f.detail}")
                out.units += sub.units
                if sub.failures:
                    break
            else:
                out.labels.append("load-by-name-checked")
    finally:
        boot.rm(folder)
    return out


# ------------------------------------------------------------------------------------------------
# strategy


@st.composite
def cases(draw, root_pools=(4,), extra_roots=(0,), **kw):
    kw.setdefault("max_funcs", 3)
    kw.setdefault("allow_autogen", False)
    kw.setdefault("allow_none", False)
    prog = draw(mp.map_programs(max_rank=2, storages=("file_array", "dict"),
                                root_pool=draw(st.sampled_from(root_pools)), **kw))  # fmt: skip
    # extra 1-D roots zipped into MapSpec functions on an index these already name (construction, never invalid):
    # 'a[i] -> o[i]' becomes 'a[i], r3[i] -> o[i]'
    for k in range(draw(st.sampled_from(extra_roots))):
        cands = [(f, a) for f, fn in enumerate(prog["funcs"]) if fn["mapspec"]
                 for a in dict.fromkeys(x for p in fn["params"] if p["spec"] for x in p["spec"] if x is not None)]  # fmt: skip
        if not cands:
            break
        name = f"r{3 + k}"
        twins = [(f, q) for f, fn in enumerate(prog["funcs"]) if fn["mapspec"] for q, p in enumerate(fn["params"])
                 if p["spec"] and len(p["spec"]) == 2 and any(x is not None for x in p["spec"])]  # fmt: skip
        if twins and draw(st.sampled_from([0, 0, 0, 0, 0, 0, 0, 1])):
            # a 2-D root zipped with a 2-D array the function already takes, same axes, same (possibly ':'-sliced) spec
            f, q = draw(st.sampled_from(twins))
            p = prog["funcs"][f]["params"][q]
            prog["roots"][name] = {"axes": list(axes_of(prog, p["name"])), "kind": "ndarray"}
            prog["funcs"][f]["params"].insert(q + 1, {"name": name, "spec": list(p["spec"])})
            continue
        f, a = draw(st.sampled_from(cands))
        prog["roots"][name] = {"axes": [a], "kind": draw(st.sampled_from(["list", "ndarray"]))}
        takers = [f] + [g for g, fn in enumerate(prog["funcs"]) if g != f and (g, a) in cands and draw(st.integers(0, 3)) == 0]
        for g in takers:
            params = prog["funcs"][g]["params"]
            params.insert(draw(st.integers(0, len(params))), {"name": name, "spec": [a]})
    ints = {}
    for k, (r, spec) in enumerate(prog["roots"].items()):
        if len(spec["axes"]) == 1 and draw(st.booleans()):
            n = prog["sizes"][spec["axes"][0]]
            lo = 100 + 150 * k
            ints[r] = draw(st.lists(st.integers(lo, lo + 149), min_size=n, max_size=n, unique=True))
    # functions without MapSpec may return a plain array or a list (they are only ever consumed whole)
    for fn in prog["funcs"]:
        if not fn["mapspec"] and draw(st.integers(0, 3)) == 0:
            rank, ret = draw(st.sampled_from([(1, "ndarray"), (1, "ndarray"), (1, "ndarray"), (1, "list"), (2, "ndarray")]))
            axes = ["p", "q"][:rank]
            for a in axes:
                if a not in prog["sizes"]:
                    prog["sizes"][a] = draw(st.integers(1, 3))
            fn["out_axes"] = list(axes)
            fn["int_axes"] = list(axes)
            fn["ret"] = ret
            fn["shape_via"] = "none"  # neither internal_shapes= nor PipeFunc(internal_shape=): there is no MapSpec
    return {"prog": prog, "ints": ints, "load_intermediate": draw(st.booleans())}


def reintroduced_index_chains():
    """Complete enumeration of a small family the random campaigns (<= 3-4 functions) hardly reach: index i labels o0
    through r0, is reduced away (o1), and is introduced again downstream by another root r2 -- the variables after that
    depend on r0 as a whole and must be labelled by r2 only.

        f0: r0[i], r1[j] -> o0[<perm of i, j>]      f1: o0[':' on i, j] -> o1[j]
        f2: o1[j], r2[i] -> o2[<perm of i, j>]      f3: o2[i, :] -> o3[i] | o2[i, j] -> o3[i, j] | o2[:, j] -> o3[j]
    """

    def fn(name, out, params, out_axes):
        return {"name": name, "outs": [out], "picker": None, "mapspec": True, "params": params, "out_axes": list(out_axes),
                "int_axes": [], "ret": "list", "shape_via": "map"}  # fmt: skip

    def par(n, spec):
        return {"name": n, "spec": spec}

    for ax0, ax2, last, li, ints, storage in itertools.product(
        (["i", "j"], ["j", "i"]), (["i", "j"], ["j", "i"]), ("keep-i", "keep-both", "keep-j"), (True, False), (True, False), ("file_array", "dict")
    ):
        keep = {"keep-i": {"i"}, "keep-both": {"i", "j"}, "keep-j": {"j"}}[last]
        prog = {
            "sizes": {"i": 2, "j": 3},
            "roots": {"r0": {"axes": ["i"], "kind": "list"}, "r1": {"axes": ["j"], "kind": "ndarray"}, "r2": {"axes": ["i"], "kind": "list"}},
            "funcs": [
                fn("f0", "o0", [par("r0", ["i"]), par("r1", ["j"])], ax0),
                fn("f1", "o1", [par("o0", [a if a == "j" else None for a in ax0])], ["j"]),
                fn("f2", "o2", [par("o1", ["j"]), par("r2", ["i"])], ax2),
                fn("f3", "o3", [par("o2", [a if a in keep else None for a in ax2])], [a for a in ax2 if a in keep]),
            ],
            "storage": storage,
        }
        yield {"prog": prog, "ints": {"r2": [431, 402]} if ints else {}, "load_intermediate": li}


def campaigns(tier):
    return [
        Campaign("dataset", body, cases(max_funcs=3 if tier == "quick" else 4), quick=500, thorough=12000,
                 describe="C01 programs (rank <= 2, no autogen): dataset both ways, dims/values/coordinates/selection"),  # fmt: skip
        Campaign("zip", body, cases(root_pools=(2, 4), extra_roots=(1, 2)), quick=500, thorough=12000,
                 describe="same plus 1-2 extra 1-D roots zipped into functions on an index they already name: zipped coordinates, zip x outer, zip with intermediates"),  # fmt: skip
        Campaign("chains", body, cases(max_funcs=4, min_funcs=2, allow_no_mapspec=False, allow_reduction=False, allow_internal=False),
                 quick=400, thorough=8000,
                 describe="element-wise chains (every function mapped, no reduction): intermediate outputs become coordinates of downstream variables iff load_intermediate"),  # fmt: skip
        Campaign("reintroduced-index", body, enumerate=reintroduced_index_chains, quick=0, thorough=0, exhaustive=True,
                 describe="all 96 four-function chains in which an index is reduced away and introduced again by another root"),  # fmt: skip
    ]


def _pred_never_named(case, failure) -> bool:
    """C19 finding (same root cause as C06-axis-never-named): mapspec_axes cannot name an axis that is ':' in every
    MapSpec mentioning a >= 2-D array; both dataset constructors then crash or attach a 2-D array as a 1-D coordinate."""
    return "[sliced-axis-never-named]" in failure.bucket and bool(never_named_axis(case["data"]["prog"]))


def _pred_zip2d(case, failure) -> bool:
    """C19 finding: two >= 2-D arrays zipped on the same axes are fed to pandas.MultiIndex.from_arrays (unsupported)."""
    return "[zip-of-2d-arrays]" in failure.bucket and zip_of_2d(case["data"]["prog"], case["data"].get("load_intermediate", True))


PREDICATES = {"never_named_axis": _pred_never_named, "zip_of_2d_arrays": _pred_zip2d}

"""C14 -- cache containers conform to their replacement-policy model (DESIGN.md section 4, C14).

Campaigns
  bfs         explicit-state exploration (model x implementation) to closure: LRUCache, SimpleCache, DiskCache
  bfs-hybrid  the same for HybridCache, to a stated depth (its access counters are unbounded)
  seq         Hypothesis-drawn operation lists on all four classes, shared / non-shared, DiskCache reopen
  mp          the seq oracle with the operations issued one at a time from 2-3 real (forked) processes that share
              one real-Manager-backed cache (deterministic: no two operations overlap)
  interleave  shared mode from several "processes": fake Manager (every proxy call is a scheduling point),
              harness threads, baton scheduler; the schedule is part of the drawn data
  ilv-sys     the same harness, all schedules of small fixed programs (depth-first over the choice points)

Confirmed deviations keep their own buckets (bfs: LRUCache:put-resident*, DiskCache:put-mem-resident*; seq/mp:
*:after-lru-layer-reput, DiskCache:put-evict-multiple:raised:FileNotFoundError..., HybridCache:put-full:raised:
AttributeError@HybridCache._expire; interleave: *:get-raised:KeyError@*.get:interleaved, LRUCache:reput-history) and the
generators carry flags (avoid, avoid_multi, distinct) that construct around them so the other oracles stay sharp.
"""

from __future__ import annotations

import copy
import dataclasses
import itertools
import multiprocessing
import os
import pickle
import queue
import shutil
import tempfile
import threading
from collections import OrderedDict
from contextlib import nullcontext
from pathlib import Path

from hypothesis import strategies as st

from vlib import boot
from vlib.core import Campaign, Outcome, exc_detail

import pipefunc.cache as pc
from pipefunc.cache import DiskCache, HybridCache, LRUCache, SimpleCache

PID = "C14"
LEVEL = "exploration"
RULE = (
    "(bfs) per (class, max_size[, lru_cache_size]) configuration: breadth-first exploration from the empty cache of the "
    "product of a replacement-policy model and the implementation over the alphabet {put(k,v): 3 keys x 2 values, "
    "get(k), k in c, len, clear}; the implementation state is copied per transition (DiskCache: directory copied in "
    "ctime order), the operation result and the complete public observation vector (len, membership, values read on "
    "copies, eviction order probed on a copy by putting fresh keys; DiskCache additionally its lru_cache layer and a "
    "no-LRU reopen of a copy of the directory; HybridCache additionally access_counts/computation_durations) are "
    "compared with the model after every transition, states are de-duplicated on the model state once the observation "
    "vector agrees (a disagreeing successor is reported and not expanded); closure for LRUCache max_size 1-3, "
    "SimpleCache, DiskCache max_size 1-3 x lru_cache_size {none,1,2}; HybridCache max_size 1-3 x 3 weightings to depth "
    "7 (quick) / 10 (thorough) with the validity predicate 'victim has minimal score within 1e-12'. (seq) Hypothesis "
    "op lists (<= 40 ops, 2-8 keys of mixed types, values str/int/list) for all four classes, shared in ~15 % of cases "
    "(real multiprocessing.Manager), allow_cloudpickle on/off, DiskCache with/without in-memory LRU, reopened with the "
    "same / a smaller / no max_size; each result, len and the membership vector are compared with the model after "
    "every op, followed by a final get sweep and an eviction-order probe; half of the cases never re-put a key that is "
    "resident in an LRU layer / never shrink below the number of files (construction around confirmed deviations). "
    "(mp) the same oracle on shared LRUCache/HybridCache/DiskCache with every operation routed to one of 2-3 forked "
    "child processes (inherited object or pickle round trip), one operation in flight at a time. (interleave / ilv-sys) 2-3 threads with 1-4 "
    "ops on one shared LRUCache/HybridCache built on the fake Manager; drawn or exhaustively enumerated schedules; "
    "oracle: no op raises, a get returns None or a value put for that key, at quiescence len <= max_size, len == number "
    "of keys present, every present value was put for its key, bookkeeping views agree, and a sequential eviction probe "
    "succeeds. Non-trivial = (bfs) configuration whose exploration contains a re-put of a resident key at capacity and "
    "an eviction by a new key (every get/in is explored from every state); (seq) history with a re-put of a resident key at capacity or an eviction followed by a "
    "get of the victim; (interleave) >= 2 context switches away from a thread that is inside get/put; (ilv-sys) a "
    "program with >= 2 distinct schedules. Distinct by sha1 of the case."
)
ASSUMPTIONS = [
    "values are never None (get cannot distinguish a stored None from a miss); HybridCache durations are in [1e-3, 10]",
    "HybridCache.put follows its docstring literally: when len >= max_size one minimal-score entry is invalidated "
    "first (also when the key being put is resident), then the entry is stored with access count 1 and the new duration; "
    "ties between minimal scores (within 1e-12) may be broken arbitrarily and the model follows the implementation",
    "DiskCache is modelled as documented: a directory bounded by max_size files with oldest-ctime eviction, in front of "
    "it an independent LRU of lru_cache_size entries; __len__ counts files; a key whose file was evicted but which is "
    "still in the in-memory LRU is served from memory (labelled 'disk:served-from-memory-after-file-eviction', not judged)",
    "a DiskCache reopened with a smaller max_size is only required to satisfy len <= max_size from its first put on",
    "oldest-file eviction is made well-defined by waiting, before every DiskCache write, until the file-system clock "
    "(ctime of a scratch file) has passed the ctime of every cache file; scratch directories live on /dev/shm when "
    "available (tmpfs has the same ctime semantics and is ~100x faster than the ext4 /tmp for overwrites)",
    "the fake Manager serves each dict/list/Lock proxy method atomically and lets threads interleave only between "
    "such calls -- the granularity a real manager process provides; lock release is not a preemption point of its own "
    "(the next proxy call is); DiskCache is not part of the interleaving campaigns (file operations are not proxied)",
    "the bound-state copy used for exploration copies the instance __dict__ (the classes refuse copy/pickle when not shared)",
    "concurrent oracle judges only exceptions, thin-air values and the quiescent state, not transient observations",
    "harness threads come from a per-process pool (thread creation costs ~4 ms here); completion of every job is "
    "awaited with a time-out (the equivalent of join) and a scheduler time-out is a harness error, not a violation",
    "the mp campaign serialises the operations (deterministic replay); truly concurrent real-process runs are not part "
    "of the check (a 4-process stress run was used once to confirm that the fake Manager's get race is real)",
]

KEYS3 = ["a", "b", "c"]
VALS2 = ["v0", "v1"]
FRESH = [f"~fresh{i}" for i in range(12)]
# durations used by the HybridCache exploration alphabet: DUR[key][value index]; some ties on purpose
DUR = {"a": [1.0, 2.0], "b": [1.0, 4.0], "c": [0.5, 2.0]}
SEQ_KEYS = ["a", "b", ["tt", "tt"], {"hk": [1, 0]}, {"hk": [1, 1]}, 0, 1, ["t", 2], "d", ["a"]]  # JSON lists become tuples
TOL = 1e-12


def exc_site(e: BaseException) -> str:
    """<ExceptionType>@<qualified name of the innermost pipefunc function on the traceback>."""
    if getattr(e, "remote_site", None):
        return e.remote_site
    tb, last = e.__traceback__, None
    root = os.path.join(boot.REPO, "pipefunc") + os.sep
    while tb is not None:
        code = tb.tb_frame.f_code
        if os.path.abspath(code.co_filename).startswith(root):
            last = code.co_qualname
        tb = tb.tb_next
    return f"{type(e).__name__}@{last or 'outside-pipefunc'}"


@dataclasses.dataclass(frozen=True)
class HiddenKey:
    """A hashable key whose printed form omits part of its state (two unequal keys print the same)."""

    a: int
    b: int = dataclasses.field(default=0, repr=False)


def _key(k):
    if isinstance(k, dict):
        return HiddenKey(*k["hk"])
    return tuple(_key(x) for x in k) if isinstance(k, list) else k


def _rekey(k, n: int):
    """An equal key with another object graph: a tuple of equal strings is rebuilt for every operation, alternately
    with all equal leaves being one shared object and with every leaf being an object of its own (what callers
    produce naturally: `(s, s)` vs. two strings read from different places)."""
    if not (isinstance(k, tuple) and len(k) >= 2 and all(isinstance(x, str) and len(x) >= 2 for x in k)):
        return k
    if n % 2:
        return tuple("".join(list(x)) for x in k)
    made: dict = {}
    return tuple(made.setdefault(x, "".join(list(x))) for x in k)


# =================================================================================================
# models (written from the documented policies; they never call pipefunc)
# =================================================================================================
class LRUModel:
    def __init__(self, max_size):
        self.max_size = max_size
        self.d: OrderedDict = OrderedDict()  # oldest first
        self.last_evicted = None

    def put(self, k, v):
        self.last_evicted = None
        if k in self.d:
            self.d[k] = v
            self.d.move_to_end(k)
            return
        if len(self.d) >= self.max_size:
            self.last_evicted, _ = self.d.popitem(last=False)
        self.d[k] = v

    def get(self, k):
        if k in self.d:
            self.d.move_to_end(k)
            return self.d[k]
        return None

    def __contains__(self, k):
        return k in self.d

    def __len__(self):
        return len(self.d)

    def clear(self):
        self.d.clear()

    def key(self):
        return ("lru", tuple(self.d.items()))

    def copy(self):
        new = LRUModel(self.max_size)
        new.d = OrderedDict(self.d)
        return new


class SimpleModel:
    max_size = None

    def __init__(self):
        self.d = {}

    def put(self, k, v):
        self.d[k] = v

    def get(self, k):
        return self.d.get(k)

    def __contains__(self, k):
        return k in self.d

    def __len__(self):
        return len(self.d)

    def clear(self):
        self.d.clear()

    def key(self):
        return ("simple", tuple(sorted(self.d.items(), key=repr)))

    def copy(self):
        new = SimpleModel()
        new.d = dict(self.d)
        return new


class DiskModel:
    """files: key -> value ordered by last write (oldest first); mem: independent LRU in front of it."""

    def __init__(self, max_size, lru_size, files=None):
        self.max_size = max_size
        self.files: OrderedDict = OrderedDict(files or ())
        self.mem = LRUModel(lru_size) if lru_size else None
        self.evicted_files: list = []

    def put(self, k, v):
        self.evicted_files = []
        self.files[k] = v
        self.files.move_to_end(k)
        if self.mem is not None:
            self.mem.put(k, v)
        if self.max_size is not None:
            while len(self.files) > self.max_size:
                self.evicted_files.append(self.files.popitem(last=False)[0])

    def get(self, k):
        if self.mem is not None and k in self.mem:
            return self.mem.get(k)
        if k in self.files:
            v = self.files[k]
            if self.mem is not None:
                self.mem.put(k, v)
            return v
        return None

    def __contains__(self, k):
        return (self.mem is not None and k in self.mem) or k in self.files

    def __len__(self):
        return len(self.files)

    def clear(self):
        self.files.clear()
        if self.mem is not None:
            self.mem.clear()

    def key(self):
        return ("disk", tuple(self.files.items()), None if self.mem is None else tuple(self.mem.d.items()))

    def copy(self):
        new = DiskModel(self.max_size, 0, files=self.files)
        new.mem = None if self.mem is None else self.mem.copy()
        return new

    @property
    def lru_cache(self):  # same attribute name as the implementation, for the shared observation code
        return self.mem


class HybridModel:
    def __init__(self, max_size, aw, dw):
        self.max_size, self.aw, self.dw = max_size, aw, dw
        self.e: dict = {}  # key -> [value, count, duration]

    def scores(self):
        tc = sum(x[1] for x in self.e.values())
        td = sum(x[2] for x in self.e.values())
        return {k: self.aw * x[1] / tc + self.dw * x[2] / td for k, x in self.e.items()}

    def candidates(self):
        """Keys that may legitimately be invalidated by the next put (None: no invalidation due)."""
        if len(self.e) < self.max_size:
            return None
        s = self.scores()
        lo = min(s.values())
        return {k for k, v in s.items() if v <= lo + TOL}

    def put(self, k, v, dur, victim=None):
        if victim is not None:
            del self.e[victim]
        self.e[k] = [v, 1, dur]

    def get(self, k):
        if k in self.e:
            self.e[k][1] += 1
            return self.e[k][0]
        return None

    def __contains__(self, k):
        return k in self.e

    def __len__(self):
        return len(self.e)

    def clear(self):
        self.e.clear()

    def key(self):
        return ("hybrid", tuple(sorted((k, tuple(x)) for k, x in self.e.items())))

    def copy(self):
        new = HybridModel(self.max_size, self.aw, self.dw)
        new.e = {k: list(x) for k, x in self.e.items()}
        return new

    @property
    def access_counts(self):
        return {k: x[1] for k, x in self.e.items()}

    @property
    def computation_durations(self):
        return {k: x[2] for k, x in self.e.items()}


MODELS = (LRUModel, SimpleModel, DiskModel, HybridModel)


# =================================================================================================
# environment: scratch area + file-system clock
# =================================================================================================
class Env:
    """Per-case scratch root (removed by close()) and the 'wait for the file-system clock' helper."""

    def __init__(self):
        base = "/dev/shm" if os.path.isdir("/dev/shm") and os.access("/dev/shm", os.W_OK) else boot.SCRATCH
        self.root = tempfile.mkdtemp(prefix=f"verif-c14-{os.getpid()}-", dir=base)
        self._tick = os.path.join(self.root, ".tick")
        with open(self._tick, "wb"):
            pass
        self._n = 0
        self._dirs: list = []
        self.managers: list = []

    def newdir(self) -> str:
        self._n += 1
        p = os.path.join(self.root, f"d{self._n}")
        self._dirs.append(p)
        return p

    def mark(self) -> int:
        return len(self._dirs)

    def release(self, mark: int) -> None:
        """Remove every directory handed out since mark (temporary copies made by observations)."""
        for p in self._dirs[mark:]:
            shutil.rmtree(p, ignore_errors=True)
        del self._dirs[mark:]

    def now(self) -> int:
        os.utime(self._tick)
        return os.stat(self._tick).st_ctime_ns

    def wait_after(self, t_ns: int) -> None:
        for _ in range(20_000_000):
            if self.now() > t_ns:
                return
        raise RuntimeError("file-system clock does not advance")

    def wait_after_dir(self, d) -> None:
        """Delay until the clock is strictly later than the ctime of every cache file in d (a delay, never a decision)."""
        t = 0
        try:
            with os.scandir(d) as it:
                for e in it:
                    if e.name.endswith(".pkl"):
                        t = max(t, e.stat().st_ctime_ns)
        except FileNotFoundError:
            return
        if t:
            self.wait_after(t)

    def copy_dir(self, src, dst) -> None:
        """Copy the cache files oldest first with a clock tick between them, so the copy has the same ctime order."""
        os.makedirs(dst, exist_ok=True)
        files = []
        with os.scandir(src) as it:
            for e in it:
                if e.name.endswith(".pkl"):
                    files.append((e.stat().st_ctime_ns, e.name))
        files.sort()
        last = 0
        for _, name in files:
            if last:
                self.wait_after(last)
            shutil.copyfile(os.path.join(src, name), os.path.join(dst, name))
            last = os.stat(os.path.join(dst, name)).st_ctime_ns

    def track(self, cache) -> None:
        """Remember the Manager server(s) behind a shared cache so that close() shuts them down."""
        for obj in (cache, getattr(cache, "lru_cache", None) if isinstance(cache, DiskCache) and cache.with_lru_cache else None):
            proxy = getattr(obj, "_cache_dict", None)
            m = getattr(proxy, "_manager", None)
            if m is not None and hasattr(m, "shutdown"):
                self.managers.append(m)

    def shutdown_managers(self) -> None:
        for m in self.managers:
            try:
                m.shutdown()
            except Exception:
                pass
        self.managers = []

    def close(self) -> None:
        self.shutdown_managers()
        shutil.rmtree(self.root, ignore_errors=True)


# =================================================================================================
# uniform access to a model or an implementation object
# =================================================================================================
def is_model(x) -> bool:
    return isinstance(x, MODELS)


_ATOMS = (str, int, float, bool, bytes, tuple, type(None))


def _copy_value(v):
    return v if type(v) in _ATOMS else copy.deepcopy(v)


def clone_impl(c):
    """State copy of a non-shared cache object (shares a DiskCache's directory; see clone_full).

    Containers are copied, immutable leaves (and Path / nullcontext attributes) are shared -- same result as a
    deepcopy of the instance __dict__, which the classes themselves refuse when not shared."""
    new = object.__new__(type(c))
    for k, v in c.__dict__.items():
        if isinstance(v, pc._CacheBase):
            v = clone_impl(v)
        elif type(v) is dict:
            v = {kk: _copy_value(x) for kk, x in v.items()}
        elif type(v) is list:
            v = [_copy_value(x) for x in v]
        elif type(v) not in _ATOMS and not isinstance(v, (Path, nullcontext)):
            v = copy.deepcopy(v)
        new.__dict__[k] = v
    return new


def clone_full(x, env: Env):
    if is_model(x):
        return x.copy()
    new = clone_impl(x)
    if isinstance(x, DiskCache):
        d = env.newdir()
        env.copy_dir(str(x.cache_dir), d)
        new.cache_dir = Path(d)
    return new


def clone_readonly(x):
    """Copy good enough for get/in/len (which never write files)."""
    return x.copy() if is_model(x) else clone_impl(x)


def disk_view(x, env: Env):
    """A second, LRU-less cache on a copy of the directory: the pure file-level state through the public API."""
    if is_model(x):
        return DiskModel(x.max_size, 0, files=x.files)
    d = env.newdir()
    env.copy_dir(str(x.cache_dir), d)
    return DiskCache(d, max_size=x.max_size, use_cloudpickle=x.use_cloudpickle, with_lru_cache=False)


def do_put(x, k, v, dur, env: Env):
    if isinstance(x, DiskCache) or getattr(x, "is_disk", False):
        env.wait_after_dir(x.cache_dir)
    if isinstance(x, (HybridCache, HybridModel)):
        raise TypeError("hybrid puts go through hybrid_put")
    return x.put(k, v)


class Raised:
    """Marker stored in an observation vector when a public call raised."""

    def __init__(self, e):
        self.e = e
        self.sig = f"{type(e).__name__}"

    def __eq__(self, other):
        return False  # never equal to anything the model predicts

    def __repr__(self):
        return f"<raised {exc_detail(self.e)[:80]}>"


def _try(fn):
    try:
        return fn()
    except Exception as e:  # noqa: BLE001
        return Raised(e)


def observe_lru(x, keys, env):
    """Complete public observation of an LRU-like object: len, membership, values, eviction order."""
    o = {"len": _try(lambda: len(x)), "in": [_try(lambda k=k: k in x) for k in keys]}
    o["val"] = [_try(lambda k=k: clone_readonly(x).get(k)) for k in keys]
    y = clone_full(x, env)
    order = []
    for i in range(x.max_size or 0):
        r = _try(lambda: do_put(y, FRESH[i], "p", None, env))
        order.append([r, [_try(lambda k=k: k in y) for k in keys], _try(lambda: len(y))])
    o["order"] = order
    return o


def dir_fingerprint(d):
    """Names and contents of the cache files in ctime order -- everything a second cache on the directory can see."""
    items = []
    with os.scandir(d) as it:
        for e in it:
            if e.name.endswith(".pkl"):
                with open(e.path, "rb") as f:
                    items.append((e.stat().st_ctime_ns, e.name, f.read()))
    items.sort()
    return [(n, b) for _, n, b in items]


def observe(x, keys, env, skip_disk=False):
    if isinstance(x, (LRUCache, LRUModel)):
        return {"top": observe_lru(x, keys, env)}
    if isinstance(x, (SimpleCache, SimpleModel)):
        o = {"len": _try(lambda: len(x)), "in": [_try(lambda k=k: k in x) for k in keys]}
        o["val"] = [_try(lambda k=k: clone_readonly(x).get(k)) for k in keys]
        o["order"] = []
        return {"top": o}
    if isinstance(x, (HybridCache, HybridModel)):
        o = {"len": _try(lambda: len(x)), "in": [_try(lambda k=k: k in x) for k in keys]}
        o["val"] = [_try(lambda k=k: clone_readonly(x).get(k)) for k in keys]
        o["counts"] = _try(lambda: dict(x.access_counts))
        o["durations"] = _try(lambda: dict(x.computation_durations))
        o["order"] = []
        return {"top": o}
    # DiskCache / DiskModel: top level, in-memory layer, file layer
    top = {"len": _try(lambda: len(x)), "in": [_try(lambda k=k: k in x) for k in keys]}
    top["val"] = [_try(lambda k=k: clone_readonly(x).get(k)) for k in keys]
    top["order"] = []
    out = {"top": top}
    mem = x.lru_cache if (is_model(x) or x.with_lru_cache) else None
    if mem is not None:
        out["mem"] = observe_lru(mem, keys, env)
    if not skip_disk:
        out["disk"] = observe_lru(disk_view(x, env), keys, env)
    return out


def first_difference(want, got):
    """(layer, symptom, text) of the first disagreement between two observation dicts, or None."""
    for layer in ("mem", "disk", "top"):  # layers first: the top level is a function of them
        if layer not in want and layer not in got:
            continue
        w, g = want.get(layer), got.get(layer)
        if w is None or g is None:
            return layer, "state", f"layer {layer}: want {w} got {g}"
        for part, sym in (("len", "state"), ("in", "state"), ("val", "state"), ("counts", "bookkeeping"),
                          ("durations", "bookkeeping"), ("order", "order")):  # fmt: skip
            if part in w and w[part] != g[part]:
                return layer, sym, f"{layer}.{part}: want {w[part]} got {g[part]}"
    return None


def find_raised(o):
    if isinstance(o, Raised):
        return o
    if isinstance(o, dict):
        o = list(o.values())
    if isinstance(o, (list, tuple)):
        for x in o:
            r = find_raised(x)
            if r is not None:
                return r
    return None


def fmt_op(op):
    if op[0] == "put":
        return f"put({op[1]!r},{op[2]!r}" + (f",{op[3]})" if len(op) > 3 and op[3] is not None else ")")
    if op[0] in ("get", "in"):
        return f"{op[0]}({op[1]!r})"
    return op[0] + ("" if len(op) == 1 else str(op[1:]))


def fmt_path(path):
    return " ; ".join(fmt_op(o) for o in path)


# ---- op classes (computed on the model *before* the op) -------------------------------------------
def _lru_class(m: LRUModel, kind, k):
    if kind == "put":
        return ("put-resident" if k in m else "put-new") + ("-full" if len(m) >= m.max_size else "")
    if kind == "get":
        return "get-hit" if k in m else "get-miss"
    return kind


def opclass(model, op):
    """{'top': ..., 'mem': ..., 'disk': ...} root-cause oriented class of the transition."""
    kind = op[0]
    k = op[1] if len(op) > 1 else None
    if isinstance(model, LRUModel):
        return {"top": _lru_class(model, kind, k)}
    if isinstance(model, SimpleModel):
        if kind == "put":
            return {"top": "put-resident" if k in model else "put-new"}
        if kind == "get":
            return {"top": "get-hit" if k in model else "get-miss"}
        return {"top": kind}
    if isinstance(model, HybridModel):
        return {"top": _lru_class(model, kind, k)}
    # disk
    mem = model.mem
    if kind == "put":
        nfiles = len(model.files) + (0 if k in model.files else 1)
        excess = 0 if model.max_size is None else max(0, nfiles - model.max_size)
        dc = "put-evict-multiple" if excess > 1 else ("put-file-resident" if k in model.files else "put-file-new") + ("-evict1" if excess else "")
        mc = "nomem" if mem is None else "put-mem-" + _lru_class(mem, "put", k)[4:]
        return {"top": f"{dc}/{mc}", "mem": mc, "disk": dc}
    if kind == "get":
        if mem is not None and k in mem:
            return {"top": "get-mem-hit", "mem": "get-hit", "disk": "untouched"}
        if k in model.files:
            mc = "nomem" if mem is None else "load-" + _lru_class(mem, "put", k)[4:]
            return {"top": "get-file-hit", "mem": mc, "disk": "read"}
        return {"top": "get-miss", "mem": "get-miss", "disk": "untouched"}
    return {"top": kind, "mem": kind, "disk": kind}


CLSNAME = {"lru": "LRUCache", "simple": "SimpleCache", "disk": "DiskCache", "hybrid": "HybridCache"}


# =================================================================================================
# one checked transition (shared by bfs and seq)
# =================================================================================================
def hybrid_put(out, name, model: HybridModel, impl, op, keys, where):
    """impl.put + validity predicate for the victim; the model follows the implementation's (valid) choice."""
    _, k, v, dur = op
    cands = model.candidates()
    before = set(model.e)
    oc = _lru_class(model, "put", k)
    try:
        impl.put(k, v, dur)
    except Exception as e:  # noqa: BLE001
        out.fail(f"{name}:{'put-full' if cands is not None else 'put'}:raised:{exc_site(e)}", f"{where}: {exc_detail(e)}")
        return False
    present = {x for x in set(keys) | before | {k} if _try(lambda x=x: x in impl) is True}
    missing = before - present - {k}
    if cands is None:
        if missing or k not in present:
            out.fail(f"{name}:{oc}:evicted-below-capacity", f"{where}: resident {sorted(before, key=repr)} -> present {sorted(present, key=repr)}")
            return False
        model.put(k, v, dur)
        return True
    if k not in present:
        out.fail(f"{name}:{oc}:put-key-absent", f"{where}: {k!r} not present after put")
        return False
    if len(missing) > 1:
        out.fail(f"{name}:{oc}:evicted-more-than-one", f"{where}: vanished {sorted(missing, key=repr)}")
        return False
    if not missing:
        if k in before:
            victim = k  # invalidated and stored again
        else:
            out.fail(f"{name}:{oc}:no-eviction-when-full", f"{where}: len now {_try(lambda: len(impl))} max_size {model.max_size}")
            return False
    else:
        victim = next(iter(missing))
    if victim not in cands:
        s = model.scores()
        out.fail(f"{name}:evicted-non-minimal-score", f"{where}: victim {victim!r} scores { {kk: round(vv, 6) for kk, vv in s.items()} }")
        return False
    model.put(k, v, dur, victim=victim)
    return True


def apply_checked(out, name, model, impl, op, keys, env, where):
    """Run op on implementation and model, compare the result. Returns True when they agree."""
    kind = op[0]
    if isinstance(model, HybridModel) and kind == "put":
        return hybrid_put(out, name, model, impl, op, keys, where)
    ocs = opclass(model, op)
    oc = ocs["top"]
    try:
        if kind == "put":
            got = do_put(impl, op[1], op[2], None, env)
        elif kind == "get":
            got = impl.get(op[1])
        elif kind == "in":
            got = op[1] in impl
        elif kind == "len":
            got = len(impl)
        elif kind == "clear":
            got = impl.clear()
        else:
            raise AssertionError(op)
    except Exception as e:  # noqa: BLE001
        site = exc_site(e)
        if "mem" in ocs:  # DiskCache: name the layer the exception comes from
            oc = ocs["mem"] if "@LRUCache." in site else ocs["disk"]
        out.fail(f"{name}:{oc}:raised:{site}", f"{where}: {exc_detail(e)}")
        return False
    if kind == "put":
        want = model.put(op[1], op[2])
    elif kind == "get":
        want = model.get(op[1])
    elif kind == "in":
        want = op[1] in model
    elif kind == "len":
        want = len(model)
    else:
        want = model.clear()
    if type(got) is not type(want) or got != want:
        out.fail(f"{name}:{oc}:result", f"{where}: returned {got!r}, model {want!r}")
        return False
    return True


# =================================================================================================
# (a) breadth-first exploration
# =================================================================================================
def make_pair(cfg, env: Env):
    cls, m = cfg["cls"], cfg.get("max_size")
    if cls == "lru":
        return LRUModel(m), LRUCache(max_size=m, shared=False)
    if cls == "simple":
        return SimpleModel(), SimpleCache()
    if cls == "hybrid":
        return HybridModel(m, cfg["aw"], cfg["dw"]), HybridCache(max_size=m, access_weight=cfg["aw"], duration_weight=cfg["dw"], shared=False)
    d = env.newdir()
    ls = cfg["lru_size"]
    impl = DiskCache(d, max_size=m, with_lru_cache=bool(ls), lru_cache_size=ls or 128, lru_shared=False)
    return DiskModel(m, ls), impl


def bfs_alphabet(cfg):
    ops = []
    for k in KEYS3:
        for i, v in enumerate(VALS2):
            ops.append(["put", k, v, DUR[k][i]] if cfg["cls"] == "hybrid" else ["put", k, v])
    ops += [["get", k] for k in KEYS3] + [["in", k] for k in KEYS3] + [["len"], ["clear"]]
    return ops


def body_bfs(cfg) -> Outcome:
    out = Outcome()
    name = CLSNAME[cfg["cls"]]
    depth_limit = cfg.get("depth") or 10**9
    env = Env()
    n_trans = n_states = 0
    seen_classes: set = set()
    reported: set = set()
    try:
        model0, impl0 = make_pair(cfg, env)
        alphabet = bfs_alphabet(cfg)
        seen = {model0.key()}
        n_states = 1
        frontier = [(model0, impl0, [])]
        depth = 0
        while frontier and depth < depth_limit:
            nxt = []
            for model, impl, path in frontier:
                for op in alphabet:
                    n_trans += 1
                    m2 = model.copy()
                    i2 = clone_full(impl, env)
                    mark = env.mark()
                    oc = opclass(model, op)
                    seen_classes.add(oc["top"])
                    where = fmt_path(path + [op])
                    local = Outcome()
                    # DiskCache, read-only op: if the directory (names, contents, ctime order) is untouched, its file
                    # layer is the one already compared in the predecessor state and is not probed again
                    fp0 = dir_fingerprint(i2.cache_dir) if isinstance(i2, DiskCache) and op[0] in ("get", "in", "len") else None
                    ok = apply_checked(local, name, m2, i2, op, KEYS3, env, where)
                    skip_disk = False
                    if ok and fp0 is not None:
                        if dir_fingerprint(i2.cache_dir) != fp0 or m2.files != model.files:
                            local.fail(f"{name}:{oc['top']}:directory-changed-by-read", f"after {where}")
                            ok = False
                        skip_disk = True
                    if ok:
                        want = observe(m2, KEYS3, env, skip_disk)
                        got = observe(i2, KEYS3, env, skip_disk)
                        diff = first_difference(want, got)
                        if diff is not None:
                            layer, sym, text = diff
                            r = find_raised(got.get(layer))
                            cls_part = oc.get(layer, oc["top"])
                            b = f"{name}:{cls_part}:{layer + '-' if layer != 'top' else ''}{sym}"
                            if r is not None and sym == "order":
                                b += f":probe-raised-{r.sig}"
                            if sym == "order":
                                text += "  (order = [put result, membership of a/b/c, len] after each of max_size puts of fresh keys on a copy)"
                            local.fail(b, f"after {where}: {text}")
                            ok = False
                    env.release(mark)
                    for f in local.failures:
                        if f.bucket not in reported or len(out.failures) < 40:
                            out.failures.append(f)
                        reported.add(f.bucket)
                    keep = False
                    if ok:
                        sk = m2.key()
                        if sk not in seen:
                            seen.add(sk)
                            n_states += 1
                            nxt.append((m2, i2, path + [op]))
                            keep = True
                    if not keep and isinstance(i2, DiskCache):
                        shutil.rmtree(i2.cache_dir, ignore_errors=True)
                if isinstance(impl, DiskCache) and path:
                    shutil.rmtree(impl.cache_dir, ignore_errors=True)
            frontier = nxt
            depth += 1
        closed = not frontier
        out.units = n_trans
        out.nontrivial = any("resident" in c and ("evict" in c or "full" in c) for c in seen_classes) and any(
            "new" in c and ("evict" in c or "full" in c) for c in seen_classes
        )
        out.labels = [
            f"{cfg['cls']}:{'closure' if closed else 'depth-' + str(depth)}",
            f"exact:{_cfg_id(cfg)}:states={n_states},transitions={n_trans},depth={depth}",
            f"{cfg['cls']}:states~{_bucket_n(n_states)}",
            f"{cfg['cls']}:transitions~{_bucket_n(n_trans)}",
        ] + [f"{cfg['cls']}:class:{c}" for c in sorted(seen_classes)]
        if not closed and not cfg.get("depth"):
            out.fail("bfs-closure-not-reached", f"{cfg}")
        BFS_STATS[_cfg_id(cfg)] = (n_states, n_trans, depth, closed)
    finally:
        env.close()
    return out


BFS_STATS: dict = {}


def _cfg_id(cfg):
    return ",".join(f"{k}={v}" for k, v in sorted(cfg.items()))


def _bucket_n(n):
    for b in (10, 30, 100, 300, 1000, 3000, 10000, 30000, 100000, 300000):
        if n <= b:
            return f"<={b}"
    return ">300000"


def enum_bfs():
    cases = []
    for m in (3, 2, 1):
        for ls in (2, 1, 0):
            cases.append({"cls": "disk", "max_size": m, "lru_size": ls})
    for m in (3, 2, 1):
        cases.append({"cls": "lru", "max_size": m})
    cases.append({"cls": "simple"})
    return cases


def enum_bfs_hybrid(tier):
    def gen():
        depth = 7 if tier == "quick" else 10
        for m in (3, 2, 1):
            for aw, dw in ((0.5, 0.5), (1.0, 0.0), (0.2, 0.8)):
                yield {"cls": "hybrid", "max_size": m, "aw": aw, "dw": dw, "depth": depth}

    return gen


# =================================================================================================
# (b) drawn operation sequences
# =================================================================================================
def _mk_value(v):
    return v  # values are JSON data (str / int / list); equality is the comparison


def seq_build(data, env: Env, max_size, lru_size):
    """Construct the cache under test from the recipe (real Manager when shared)."""
    cls, shared, cp = data["cls"], data["shared"], data["cloudpickle"]
    if cls == "lru":
        c = LRUCache(max_size=max_size, allow_cloudpickle=cp, shared=shared)
    elif cls == "simple":
        c = SimpleCache()
    elif cls == "hybrid":
        c = HybridCache(max_size=max_size, access_weight=data["aw"], duration_weight=data["dw"], allow_cloudpickle=cp, shared=shared)
    else:
        c = DiskCache(data["_dir"], max_size=max_size, use_cloudpickle=cp, with_lru_cache=bool(lru_size),
                      lru_cache_size=lru_size or 128, lru_shared=shared)  # fmt: skip
    if shared:
        env.track(c)
    return c


class RemoteError(Exception):
    """An exception raised by a cache operation in another process (type, site and message travel back)."""

    def __init__(self, type_name, site, msg):
        super().__init__(f"{type_name} in child process: {msg}")
        self.remote_site = site


def _remote_main(conn, cache, via):
    try:
        if via == "pickle":  # the route a cache takes into an executor's worker process
            cache = pickle.loads(pickle.dumps(cache))
        while True:
            msg = conn.recv()
            if msg is None:
                break
            try:
                conn.send(("ok", _remote_call(cache, *msg)))
            except Exception as e:  # noqa: BLE001
                conn.send(("exc", type(e).__name__, exc_site(e), str(e)[:200]))
    except (EOFError, OSError):
        pass
    finally:
        os._exit(0)


def _remote_call(cache, kind, args):
    if kind == "put":
        return cache.put(*args)
    if kind == "get":
        return cache.get(*args)
    if kind == "in":
        return args[0] in cache
    if kind == "len":
        return len(cache)
    if kind == "clear":
        return cache.clear()
    if kind == "counts":
        return dict(cache.access_counts)
    if kind == "durations":
        return dict(cache.computation_durations)
    raise AssertionError(kind)


class RemoteCache:
    """The cache under test, operated from several real processes, one operation at a time.

    Children are forked after the shared cache exists (they inherit it, or a pickled copy of it); `current`
    selects the process that issues the next operation (-1: the creating process itself)."""

    def __init__(self, cache, nprocs, via):
        self.cache = cache
        self.is_disk = isinstance(cache, DiskCache)
        self.cache_dir = getattr(cache, "cache_dir", None)
        self.max_size = cache.max_size
        self.current = -1
        ctx = multiprocessing.get_context("fork")
        self.children = []
        for _ in range(nprocs):
            a, b = ctx.Pipe()
            pr = ctx.Process(target=_remote_main, args=(b, cache, via), daemon=True)
            pr.start()
            b.close()
            self.children.append((pr, a))

    def _call(self, kind, *args):
        if self.current < 0:
            return _remote_call(self.cache, kind, args)
        pr, conn = self.children[self.current % len(self.children)]
        try:
            conn.send((kind, args))
            if not conn.poll(60.0):
                raise RemoteError("Timeout", "child-process-timeout", f"{kind}{args} did not return within 60 s")
            r = conn.recv()
        except (EOFError, OSError) as e:
            raise RemoteError(type(e).__name__, "child-process-died", str(e)) from None
        if r[0] == "ok":
            return r[1]
        raise RemoteError(r[1], r[2], r[3])

    def put(self, *a):
        return self._call("put", *a)

    def get(self, k):
        return self._call("get", k)

    def __contains__(self, k):
        return self._call("in", k)

    def __len__(self):
        return self._call("len")

    def clear(self):
        return self._call("clear")

    @property
    def access_counts(self):
        return self._call("counts")

    @property
    def computation_durations(self):
        return self._call("durations")

    def close(self):
        for pr, conn in self.children:
            try:
                conn.send(None)
            except Exception:  # noqa: BLE001
                pass
        for pr, conn in self.children:
            pr.join(2.0)
            if pr.is_alive():
                pr.kill()
                pr.join(5.0)
            conn.close()
        self.children = []


def body_seq(data) -> Outcome:
    out = Outcome()
    cls = data["cls"]
    name = CLSNAME[cls]
    keys = [_key(k) for k in SEQ_KEYS[: data["nkeys"]]]
    avoid, avoid_multi = data["avoid"], data.get("avoid_multi", data["avoid"])
    env = Env()
    labels = [cls, f"{cls}:{'shared' if data['shared'] else 'local'}", "cloudpickle" if data["cloudpickle"] else "plain",
              "avoid-reput" if avoid else "reput-allowed"]  # fmt: skip
    units = 0
    try:
        data = dict(data, _dir=env.newdir())
        max_size, lru_size = data.get("max_size"), data.get("lru_size", 0)
        if cls == "lru":
            model = LRUModel(max_size)
        elif cls == "simple":
            model = SimpleModel()
        elif cls == "hybrid":
            model = HybridModel(max_size, data["aw"], data["dw"])
        else:
            model = DiskModel(max_size, lru_size)
            labels.append("disk:lru" if lru_size else "disk:no-lru")
            labels.append("disk:avoid-multi-evict" if avoid_multi else "disk:multi-evict-allowed")
            labels.append("disk:unbounded" if max_size is None else "disk:bounded")
        mp_cfg = data.get("mp")
        remotes: list = []

        def wrap(c):
            if not mp_cfg:
                return c
            for r in remotes:
                r.close()
            del remotes[:]
            remotes.append(RemoteCache(c, mp_cfg["procs"], mp_cfg["via"]))
            return remotes[0]

        if mp_cfg:
            labels += [f"mp:procs-{mp_cfg['procs']}", f"mp:via-{mp_cfg['via']}"]
        impl = wrap(seq_build(data, env, max_size, lru_size))
        tainted = False  # an LRU-layer re-put of a resident key has happened
        pending_shrink = False
        evicted_ever: set = set()
        nt_reput_full = nt_get_victim = False
        n_evict = 0
        ops = [list(o) for o in data["ops"]]
        # final sweep + eviction-order probe
        tail = [["get", i] for i in range(len(keys))]
        nprobe = 0 if cls == "simple" else (max_size or 2) + (lru_size if cls == "disk" else 0) + 1
        tail += [["probe", j] for j in range(min(nprobe, len(FRESH)))]
        path = []
        for idx, raw in enumerate(ops + tail):
            kind = raw[0]
            is_tail = idx >= len(ops)
            op = None
            if kind == "reopen":
                if cls != "disk":
                    continue
                _, how, new_lru = raw
                new_max = max_size
                if how == "smaller1" and max_size is not None:
                    new_max = max(1, max_size - 1)
                elif how == "smaller2" and max_size is not None:
                    new_max = max(1, max_size - 2)
                elif how == "one" and max_size is not None:
                    new_max = 1
                elif how == "larger2" and max_size is not None:
                    new_max = max_size + 2
                elif how in ("below1", "below2"):  # relative to the number of files present: over capacity on purpose
                    new_max = max(1, len(model.files) - int(how[-1]))
                elif how == "none":
                    new_max = None
                if avoid_multi and new_max is not None:
                    new_max = max(new_max, len(model.files), 1)
                labels.append("disk:reopen-" + ("same" if new_max == max_size else "unbounded" if new_max is None else
                                                "smaller" if max_size is None or new_max < max_size else "larger"))  # fmt: skip
                for r in remotes:
                    r.close()
                del remotes[:]
                env.shutdown_managers()
                max_size, lru_size = new_max, new_lru
                model = DiskModel(max_size, lru_size, files=model.files)
                try:
                    for r in remotes:
                        r.close()
                    del remotes[:]
                    impl = wrap(seq_build(data, env, max_size, lru_size))
                except Exception as e:  # noqa: BLE001
                    out.fail(f"{name}:reopen:raised:{exc_site(e)}", f"{fmt_path(path)}: {exc_detail(e)}")
                    break
                pending_shrink = max_size is not None and len(model.files) > max_size
                if pending_shrink:
                    labels.append("disk:reopen-over-capacity")
                path.append(["reopen", max_size, lru_size])
                tainted = False  # the in-memory LRU is new
                op = None
            elif kind == "probe":
                op = ["put", FRESH[raw[1]], "p", 1.0] if cls == "hybrid" else ["put", FRESH[raw[1]], "p"]
            elif kind == "put":
                k = keys[raw[1] % len(keys)]
                if avoid:
                    lru_layer = model if cls == "lru" else model.mem if cls == "disk" else None
                    if lru_layer is not None and k in lru_layer:
                        free = [x for x in keys[raw[1] % len(keys):] + keys[: raw[1] % len(keys)] if x not in lru_layer]
                        if free:
                            k = free[0]
                        else:
                            raw = ["get", raw[1]]
                            kind = "get"
                if kind == "put":
                    op = ["put", k, _mk_value(raw[2])] + ([raw[3]] if cls == "hybrid" else [])
            if kind in ("get", "in"):
                op = [kind, keys[raw[1] % len(keys)]]
            elif kind in ("len", "clear"):
                op = [kind]
            if op is None:
                continue
            # ---- bookkeeping on the model before the op
            oc = opclass(model, op)
            if op[0] == "put":
                lru_layer = model if cls == "lru" else model.mem if cls == "disk" else None
                if lru_layer is not None and op[1] in lru_layer:
                    tainted = True
                    labels.append("lru-layer-reput")
                if "resident-full" in oc["top"] or (cls == "disk" and "file-resident" in oc["top"] and len(model.files) == (max_size or -1)):
                    nt_reput_full = True
                if cls == "disk" and "evict-multiple" in oc["top"]:
                    labels.append("disk:evict-multiple")
            if op[0] == "get":
                if op[1] in evicted_ever:
                    nt_get_victim = True
                if cls == "disk" and model.mem is not None and op[1] in model.mem and op[1] not in model.files:
                    labels.append("disk:served-from-memory-after-file-eviction")
            if len(op) > 1 and op[0] in ("put", "get", "in"):
                op = [op[0], _rekey(op[1], len(path)), *op[2:]]
            before = set(_resident(model))
            path.append(op)
            where = fmt_path(path[-12:]) + (f" (op {len(path)}{', tail' if is_tail else ''})")
            local = Outcome()
            if mp_cfg:
                route = mp_cfg["route"]
                impl.current = route[idx % len(route)] % mp_cfg["procs"] if route else 0
                if avoid and cls == "hybrid" and op[0] == "put" and len(model) >= max_size:
                    impl.current = -1  # constructed around: invalidation only ever happens in the creating process
                    labels.append("mp:eviction-in-creating-process")
                elif cls == "hybrid" and op[0] == "put" and len(model) >= max_size:
                    labels.append("mp:eviction-in-other-process")
                where += f" [process {impl.current}]"
            ok = apply_checked(local, name, model, impl, op, keys + FRESH[:nprobe], env, where)
            units += 1
            if ok:
                gone = before - set(_resident(model))
                if op[0] == "put":
                    n_evict += len(gone)
                    evicted_ever |= gone
                    pending_shrink = False
                # len + membership after every op (neither perturbs the policy state)
                universe = keys + (FRESH[:nprobe] if is_tail else [])
                got_len = _try(lambda: len(impl))
                got_in = [_try(lambda k=k: k in impl) for k in universe]
                want_in = [k in model for k in universe]
                if isinstance(got_len, Raised) or find_raised(got_in) is not None:
                    r = got_len if isinstance(got_len, Raised) else find_raised(got_in)
                    local.fail(f"{name}:{oc['top']}:observe-raised:{exc_site(r.e)}", f"after {where}: {r!r}")
                    ok = False
                elif got_len != len(model) or got_in != want_in:
                    local.fail(f"{name}:{oc['top']}:state", f"after {where}: len {got_len} (model {len(model)}), present "
                               f"{[k for k, p in zip(universe, got_in) if p]} (model {[k for k, p in zip(universe, want_in) if p]})")  # fmt: skip
                    ok = False
                elif max_size is not None and not pending_shrink and got_len > max_size:
                    local.fail(f"{name}:len-exceeds-max_size", f"after {where}: len {got_len} > {max_size}")
                    ok = False
                elif isinstance(model, HybridModel):
                    gc_, gd_ = _try(lambda: dict(impl.access_counts)), _try(lambda: dict(impl.computation_durations))
                    if gc_ != model.access_counts or gd_ != model.computation_durations:
                        local.fail(f"{name}:{oc['top']}:bookkeeping", f"after {where}: counts {gc_} durations {gd_}; model "
                                   f"{model.access_counts} {model.computation_durations}")  # fmt: skip
                        ok = False
            for f in local.failures:
                if tainted:
                    # the history contains an LRU-layer re-put of a resident key (confirmed deviation, located exactly
                    # by the bfs campaign): every later symptom is attributed to it; the avoid-known variant of the
                    # generator keeps the other oracles sharp
                    f.detail = f"[{f.bucket}] {f.detail}"[:600]
                    f.bucket = f"{name}:after-lru-layer-reput"
                out.failures.append(f)
            if not ok:
                labels.append("stopped-at-first-divergence")
                break
        out.units = max(1, units)
        out.nontrivial = nt_reput_full or nt_get_victim
        if nt_reput_full:
            labels.append("nt:reput-resident-at-capacity")
        if nt_get_victim:
            labels.append("nt:get-of-evicted-key")
        labels.append("evictions:" + ("0" if n_evict == 0 else "1-3" if n_evict <= 3 else "4+"))
        labels.append("ops:" + ("<=10" if len(ops) <= 10 else "<=25" if len(ops) <= 25 else ">25"))
        out.labels = sorted(set(labels))
    finally:
        for r in locals().get("remotes", []):
            r.close()
        env.close()
    return out


def _resident(model):
    if isinstance(model, DiskModel):
        return set(model.files) | (set(model.mem.d) if model.mem is not None else set())
    if isinstance(model, HybridModel):
        return set(model.e)
    return set(model.d)


_values = st.one_of(st.sampled_from(["v0", "v1", "v2", "", "x" * 40]), st.integers(-3, 3), st.lists(st.integers(0, 2), max_size=2))


@st.composite
def seq_cases(draw):
    cls = draw(st.sampled_from(["lru", "lru", "lru", "hybrid", "hybrid", "disk", "disk", "disk", "simple"]))
    shared = cls != "simple" and draw(st.integers(0, 19)) < 3
    nkeys = draw(st.integers(2, 8))
    d = {"cls": cls, "shared": shared, "cloudpickle": draw(st.booleans()), "nkeys": nkeys, "avoid": draw(st.booleans())}
    if cls != "simple":
        d["max_size"] = draw(st.integers(1, 5))
    if cls == "hybrid":
        d["aw"], d["dw"] = draw(st.sampled_from([[0.5, 0.5], [1.0, 0.0], [0.0, 1.0], [0.3, 0.7], [0.9, 0.1]]))
    if cls == "disk":
        d["max_size"] = draw(st.integers(1, 6))
        d["lru_size"] = draw(st.sampled_from([0, 0, 1, 2, 3, 128]))
        d["avoid_multi"] = draw(st.booleans())
        if draw(st.integers(0, 9)) == 0:
            d["max_size"] = None
    kinds = ["put"] * 5 + ["get"] * 3 + ["in", "len"] + (["reopen"] * 2 if cls == "disk" else [])
    n = draw(st.integers(1, 40 if not shared else 25))
    ops = []
    for _ in range(n):
        kind = draw(st.sampled_from(kinds))
        if draw(st.integers(0, 39)) == 0:
            kind = "clear"
        if kind == "put":
            op = ["put", draw(st.integers(0, nkeys - 1)), draw(_values)]
            if cls == "hybrid":
                op.append(draw(st.one_of(st.sampled_from([1e-3, 0.5, 1.0, 1.0, 2.0, 10.0]), st.floats(1e-3, 10.0))))
            ops.append(op)
        elif kind in ("get", "in"):
            ops.append([kind, draw(st.integers(0, nkeys - 1))])
        elif kind == "reopen":
            ops.append(["reopen", draw(st.sampled_from(["same", "smaller1", "smaller2", "one", "below1", "below2", "larger2", "none"])),
                        draw(st.sampled_from([0, 1, 2, 128]))])  # fmt: skip
        else:
            ops.append([kind])
    if cls == "disk" and draw(st.integers(0, 3)) == 0:
        # constructed scenario: fill, reopen below the number of files, keep writing (several files must go at once)
        d["avoid"], d["avoid_multi"] = True, False
        if d["max_size"] is not None:
            d["max_size"] = max(2, d["max_size"])
        ops = []
        for _ in range(draw(st.integers(1, 3))):
            for _ in range(draw(st.integers(2, 6))):
                ops.append(["put", draw(st.integers(0, nkeys - 1)), draw(_values)])
            ops.append(["reopen", draw(st.sampled_from(["below1", "below2", "below2", "one"])), draw(st.sampled_from([0, 1, 2, 128]))])
            for _ in range(draw(st.integers(1, 4))):
                kind = draw(st.sampled_from(["put", "put", "get", "in", "len"]))
                ops.append(["put", draw(st.integers(0, nkeys - 1)), draw(_values)] if kind == "put" else
                           [kind, draw(st.integers(0, nkeys - 1))] if kind != "len" else ["len"])  # fmt: skip
            if draw(st.booleans()):
                ops.append(["reopen", "larger2", draw(st.sampled_from([0, 2]))])
    d["ops"] = ops
    return d


@st.composite
def mp_cases(draw):
    """seq cases on shared caches whose operations are issued, one at a time, from 2-3 real processes."""
    cls = draw(st.sampled_from(["lru", "lru", "hybrid", "hybrid", "disk"]))
    nkeys = draw(st.integers(2, 5))
    d = {"cls": cls, "shared": True, "cloudpickle": draw(st.booleans()), "nkeys": nkeys, "avoid": draw(st.booleans()),
         "max_size": draw(st.integers(1, 3))}  # fmt: skip
    if cls == "hybrid":
        d["aw"], d["dw"] = draw(st.sampled_from([[0.5, 0.5], [1.0, 0.0], [0.3, 0.7]]))
    if cls == "disk":
        d["lru_size"] = draw(st.sampled_from([1, 2, 128]))
        d["avoid_multi"] = True
    ops = []
    for _ in range(draw(st.integers(2, 14))):
        kind = draw(st.sampled_from(["put", "put", "put", "get", "get", "in", "len", "clear"]))
        if kind == "put":
            op = ["put", draw(st.integers(0, nkeys - 1)), draw(_values)]
            if cls == "hybrid":
                op.append(draw(st.sampled_from([1e-3, 0.5, 1.0, 1.0, 2.0, 10.0])))
            ops.append(op)
        elif kind in ("get", "in"):
            ops.append([kind, draw(st.integers(0, nkeys - 1))])
        else:
            ops.append([kind])
    d["ops"] = ops
    d["mp"] = {"procs": draw(st.integers(2, 3)), "via": draw(st.sampled_from(["fork", "pickle"])),
               "route": draw(st.lists(st.integers(0, 2), min_size=1, max_size=8))}  # fmt: skip
    return d


# =================================================================================================
# (c) interleavings: fake Manager + baton scheduler
# =================================================================================================
class _Abort(BaseException):
    """Raised inside harness threads at a scheduling point when the controller gives up."""


_TLS = threading.local()


class Baton:
    """Exactly one harness thread runs between two scheduling points.

    The thread that reaches a scheduling point takes the scheduling decision itself (from the drawn schedule)
    and either continues or hands over to the chosen thread through that thread's semaphore, so the
    bookkeeping below is only ever touched by the single running thread.  The controller (the body's own
    thread) only starts the threads, waits for the end, and aborts everything on deadlock or time-out."""

    RUN_TIMEOUT = 60.0

    def __init__(self, schedule, cyclic=False):
        self.cyclic = cyclic and len(schedule) > 0
        self.ctrl = threading.Semaphore(0)
        self.sem: dict = {}
        self.n = 0
        self.started = False
        self.status = "ok"
        self.parked: dict = {}  # tid -> (label, lock or None)
        self.done: set = set()
        self.owner: dict = {}  # id(lock) -> tid
        self.schedule = list(schedule)
        self.pos = 0
        self.choices: list = []  # (index chosen, number of runnable) at each point with > 1 runnable thread
        self.trace: list = []  # (tid, label) in execution order
        self.aborting = False
        self.switches_inside = 0
        self._last = None

    def _decide(self):
        """Next thread to run (None: every live thread waits for a held lock)."""
        ready = [t for t in sorted(self.parked) if self.parked[t][1] is None or self.owner.get(id(self.parked[t][1])) is None]
        if not ready:
            return None
        i = 0
        if len(ready) > 1:
            if self.pos < len(self.schedule) or self.cyclic:
                i = self.schedule[self.pos % len(self.schedule)] % len(ready)
                self.pos += 1
            self.choices.append((i, len(ready)))
        t = ready[i]
        last = self._last
        if last is not None and t != last and last in self.parked and not self.parked[last][0].startswith("op"):
            self.switches_inside += 1
        self._last = t
        self.trace.append((t, self.parked[t][0]))
        return t

    def _deadlock(self):
        self.status = "deadlock"
        self.aborting = True
        self.ctrl.release()

    # ---- worker side
    def point(self, label, lock=None):
        tid = getattr(_TLS, "tid", None)
        if tid is None or getattr(_TLS, "baton", None) is not self:
            return
        if self.aborting:
            raise _Abort
        self.parked[tid] = (label, lock)
        if not self.started:  # registration: park until the controller has started every thread
            self.ctrl.release()
            self.sem[tid].acquire()
        else:
            nxt = self._decide()
            if nxt is None:
                self._deadlock()
                raise _Abort
            if nxt != tid:
                self.sem[nxt].release()
                self.sem[tid].acquire()
        self.parked.pop(tid, None)
        if self.aborting:
            raise _Abort

    def _worker(self, tid, fn):
        _TLS.tid, _TLS.baton = tid, self
        try:
            fn(tid)
        except _Abort:
            pass
        finally:
            _TLS.tid = _TLS.baton = None
            self.done.add(tid)
            self.parked.pop(tid, None)
            if not self.aborting:
                if len(self.done) == self.n:
                    self.ctrl.release()
                else:
                    nxt = self._decide()
                    if nxt is None:
                        self._deadlock()
                    else:
                        self.sem[nxt].release()

    # ---- controller side
    def run(self, fns) -> str:
        """Run fns[i](i) as harness threads under the schedule. Returns 'ok', 'deadlock' or 'stuck'.

        Threads come from a per-process pool (creating a thread costs ~4 ms here); a job's completion
        semaphore plays the role of join()."""
        self.n = n = len(fns)
        self.sem = {i: threading.Semaphore(0) for i in range(n)}
        pool = _pool()
        finished = threading.Semaphore(0)
        submitted = 0
        for i, fn in enumerate(fns):  # started one at a time: each runs to its first scheduling point and parks
            pool.submit(i, (lambda i=i, fn=fn: self._worker(i, fn)), finished)
            submitted += 1
            if not self.ctrl.acquire(timeout=self.RUN_TIMEOUT):
                self.status = "stuck"
                break
        if self.status == "ok":
            self.started = True
            first = self._decide()
            self.sem[first].release()
            if not self.ctrl.acquire(timeout=self.RUN_TIMEOUT):
                self.status = "stuck"
        if self.status != "ok":
            self.aborting = True
            for t in range(n):
                self.sem[t].release()
        for _ in range(submitted):
            if not finished.acquire(timeout=10.0):
                _discard_pool()
                return "stuck"
        return self.status


class _Pool:
    def __init__(self):
        self.pid = os.getpid()
        self.workers: list = []

    def submit(self, i, fn, finished):
        while len(self.workers) <= i:
            q: queue.SimpleQueue = queue.SimpleQueue()
            th = threading.Thread(target=self._loop, args=(q,), daemon=True)
            th.start()
            self.workers.append((th, q))
        self.workers[i][1].put((fn, finished))

    @staticmethod
    def _loop(q):
        while True:
            job = q.get()
            if job is None:
                return
            fn, finished = job
            try:
                fn()
            finally:
                finished.release()


_POOL: list = [None]


def _pool() -> _Pool:
    if _POOL[0] is None or _POOL[0].pid != os.getpid():  # threads do not survive fork
        _POOL[0] = _Pool()
    return _POOL[0]


def _discard_pool() -> None:
    p = _POOL[0]
    _POOL[0] = None
    if p is not None:
        for _, q in p.workers:
            q.put(None)


def _proxy_class(base, methods, snapshot=()):
    ns = {}

    def mk(m):
        def f(self, *a, **k):
            self._baton.point(f"{base.__name__}.{m}")
            r = getattr(self._o, m)(*a, **k)
            return list(r) if m in snapshot else r

        f.__name__ = m
        return f

    for m in methods:
        ns[m] = mk(m)

    def __init__(self, baton, *a):
        self._baton = baton
        self._o = base(*a)

    ns["__init__"] = __init__
    return type("Fake" + base.__name__.capitalize() + "Proxy", (), ns)


FakeDictProxy = _proxy_class(
    dict,
    ["__getitem__", "__setitem__", "__delitem__", "__contains__", "__len__", "__iter__", "pop", "keys", "items", "values",
     "clear", "get", "setdefault", "update", "popitem", "copy"],
    snapshot=("keys", "items", "values"),
)  # fmt: skip
_dict_iter = FakeDictProxy.__iter__
FakeDictProxy.__iter__ = lambda self: iter(list(_dict_iter(self)))
FakeListProxy = _proxy_class(
    list,
    ["append", "remove", "pop", "__len__", "__delitem__", "__getitem__", "__setitem__", "__contains__", "insert", "index",
     "count", "extend", "reverse", "sort", "__iter__"],
)  # fmt: skip
_list_iter = FakeListProxy.__iter__
FakeListProxy.__iter__ = lambda self: iter(list(_list_iter(self)))


class FakeLockProxy:
    """Non-reentrant lock; acquire is a scheduling point at which the thread is runnable only if the lock is free."""

    def __init__(self, baton):
        self._baton = baton

    def acquire(self, blocking=True, timeout=None):
        b = self._baton
        tid = getattr(_TLS, "tid", None)
        if tid is None:  # the harness's own sequential use (prelude, quiescence checks)
            if b.owner.get(id(self)) is not None:
                raise RuntimeError("lock still held at quiescence")
            b.owner[id(self)] = "main"
            return True
        while True:
            b.point("Lock.acquire", lock=self)
            if b.owner.get(id(self)) is None:
                b.owner[id(self)] = tid
                return True

    def release(self):
        self._baton.owner[id(self)] = None

    def __enter__(self):
        self.acquire()
        return self

    def __exit__(self, *a):
        self.release()


class FakeManager:
    def __init__(self, baton):
        self._baton = baton
        self.locks: list = []

    def dict(self, *a):
        return FakeDictProxy(self._baton, *a)

    def list(self, *a):
        return FakeListProxy(self._baton, *a)

    def Lock(self):
        lk = FakeLockProxy(self._baton)
        self.locks.append(lk)
        return lk


_PATCH_LOCK = threading.Lock()


def build_fake_shared(cls, max_size, cp, baton):
    fm = FakeManager(baton)
    with _PATCH_LOCK:
        real = pc.Manager
        pc.Manager = lambda: fm
        try:
            if cls == "lru":
                c = LRUCache(max_size=max_size, allow_cloudpickle=cp, shared=True)
            else:
                c = HybridCache(max_size=max_size, allow_cloudpickle=cp, shared=True)
        finally:
            pc.Manager = real
    return c, fm


ILV_KEYS = ["a", "b", "c"]


def _ilv_ops(data):
    """Concrete (kind, key, value) triples per thread + prelude; 'distinct' gives every put its own key."""
    distinct = data.get("distinct", False)
    put_keys = []
    threads = []
    pre = []
    for j, op in enumerate(data.get("prelude", [])):
        k = f"p{j}" if distinct and op[0] == "put" else ILV_KEYS[op[1] % 3] if len(op) > 1 else None
        if op[0] == "put":
            put_keys.append(k)
        pre.append([op[0], k, f"P.{j}"])
    for t, prog in enumerate(data["threads"]):
        ops = []
        for i, op in enumerate(prog):
            k = None
            if op[0] == "put":
                k = f"k{t}{i}" if distinct else ILV_KEYS[op[1] % 3]
            elif len(op) > 1:
                k = ILV_KEYS[op[1] % 3]
            ops.append([op[0], k, f"{t}.{i}", op[1] if len(op) > 1 else 0])
        threads.append(ops)
    if distinct:  # reads target keys that somebody puts
        allput = [o[1] for o in pre if o[0] == "put"] + [o[1] for ops in threads for o in ops if o[0] == "put"]
        for ops in threads:
            for o in ops:
                if o[0] in ("get", "in") and allput:
                    o[1] = allput[o[3] % len(allput)]
    return pre, threads


def _do(c, cls, kind, k, v):
    if kind == "put":
        return c.put(k, v, 1.0 + (ord(v[0]) + ord(v[-1])) % 3) if cls == "hybrid" else c.put(k, v)
    if kind == "get":
        return c.get(k)
    if kind == "in":
        return k in c
    if kind == "len":
        return len(c)
    if kind == "clear":
        return c.clear()
    raise AssertionError(kind)


def run_interleaving(data, schedule):
    """One execution. Returns (failures [(bucket, detail)], baton, info)."""
    cls, m = data["cls"], data["max_size"]
    name = CLSNAME[cls]
    baton = Baton(schedule, cyclic=data.get("cyclic", False))
    c, fm = build_fake_shared(cls, m, data.get("cloudpickle", False), baton)
    pre, threads = _ilv_ops(data)
    fails: list = []
    put_values: dict = {}
    put_count: dict = {}
    for kind, k, v in pre:
        if kind == "put":
            put_values.setdefault(k, set()).add(v)
            put_count[k] = put_count.get(k, 0) + 1
    for ops in threads:
        for kind, k, v, _ in ops:
            if kind == "put":
                put_values.setdefault(k, set()).add(v)
                put_count[k] = put_count.get(k, 0) + 1
    reput_history = cls == "lru" and any(n > 1 for n in put_count.values())
    taint = "reput-history:" if reput_history else ""
    try:
        for kind, k, v in pre:
            _do(c, cls, kind, k, v)
    except Exception as e:  # noqa: BLE001
        fails.append((f"{name}:{taint}prelude-raised:{exc_site(e)}", exc_detail(e)))
        return fails, baton, {"status": "prelude"}
    errors: list = []
    results: list = []

    def mk(ops):
        def fn(tid):
            for i, (kind, k, v, _) in enumerate(ops):
                baton.point(f"op{i}")
                n0 = len(baton.trace)
                try:
                    r = _do(c, cls, kind, k, v)
                    results.append((tid, i, kind, k, r))
                except Exception as e:  # noqa: BLE001
                    errors.append((tid, i, kind, k, e, n0, len(baton.trace)))

        return fn

    status = baton.run([mk(ops) for ops in threads])
    info = {"status": status, "switches_inside": baton.switches_inside, "choices": list(baton.choices)}
    if status == "stuck":
        raise RuntimeError(f"baton scheduler stuck (harness error): trace tail {baton.trace[-8:]} parked {baton.parked}")
    sched_txt = f"schedule choices {[c_ for c_, _ in baton.choices]}"
    if status == "deadlock":
        held = sorted(str(v) for v in baton.owner.values() if v is not None)
        fails.append((f"{name}:{taint}deadlock", f"all live threads wait for a lock held by {held}; trace tail {baton.trace[-6:]}; {sched_txt}"))
        return fails, baton, info
    for tid, i, kind, k, e, n0, n1 in errors:
        interrupted = any(t != tid for t, _ in baton.trace[n0:n1])
        site = exc_site(e)
        # a KeyError from get()'s own dict read means the key vanished after get's membership test: that needs another
        # thread in between and is independent of the queue state, so it is never attributed to the re-put deviation
        tp = "" if (kind == "get" and interrupted and site in ("KeyError@LRUCache.get", "KeyError@HybridCache.get")) else taint
        fails.append((f"{name}:{tp}{kind}-raised:{site}" + (":interleaved" if interrupted else ":uninterrupted"),
                      f"thread {tid} op {i} {kind}({k!r}): {exc_detail(e)}; {sched_txt}"))  # fmt: skip
    for tid, i, kind, k, r in results:
        if kind == "get" and r is not None and r not in put_values.get(k, ()):
            fails.append((f"{name}:{taint}get-returned-value-never-put", f"thread {tid} op {i} get({k!r}) -> {r!r}; {sched_txt}"))
    # ---- quiescence (harness thread, no scheduling)
    try:
        if any(baton.owner.get(id(lk)) is not None for lk in fm.locks):
            fails.append((f"{name}:{taint}lock-held-at-quiescence", sched_txt))
            for lk in fm.locks:
                baton.owner[id(lk)] = None
        universe = sorted(put_values)
        n = len(c)
        present = [k for k in universe if k in c]
        if n > m:
            fails.append((f"{name}:{taint}quiescent-len-exceeds-max_size", f"len {n} > {m}; {sched_txt}"))
        if n != len(present):
            fails.append((f"{name}:{taint}quiescent-len-differs-from-present-keys", f"len {n}, present {present}; {sched_txt}"))
        if cls == "hybrid":
            views = [set(c.cache), set(c.access_counts), set(c.computation_durations)]
            if not (views[0] == views[1] == views[2]):
                fails.append((f"{name}:quiescent-bookkeeping-views-differ", f"cache/access_counts/durations keys {views}; {sched_txt}"))
        else:
            if set(c.cache) != set(present):
                fails.append((f"{name}:{taint}quiescent-cache-view-differs", f"cache {sorted(c.cache)} present {present}; {sched_txt}"))
        for k in present:
            v = c.get(k)
            if v not in put_values[k]:
                fails.append((f"{name}:{taint}quiescent-value-never-put", f"get({k!r}) -> {v!r}, put {sorted(put_values[k])}; {sched_txt}"))
        # sequential eviction probe: max_size fresh keys must push every old key out, without raising
        for j in range(m):
            _do(c, cls, "put", FRESH[j], "zz")
        left = [k for k in universe if k in c]
        if cls == "lru" and left:
            fails.append((f"{name}:{taint}quiescent-probe-old-keys-survive", f"after {m} fresh puts still present {left}; {sched_txt}"))
        if len(c) > m:
            fails.append((f"{name}:{taint}quiescent-len-exceeds-max_size", f"after probe len {len(c)} > {m}; {sched_txt}"))
    except Exception as e:  # noqa: BLE001
        fails.append((f"{name}:{taint}quiescent-raised:{exc_site(e)}", f"{exc_detail(e)}; {sched_txt}"))
    return fails, baton, info


def body_interleave(data) -> Outcome:
    out = Outcome()
    fails, baton, info = run_interleaving(data, data["schedule"])
    seen = set()
    for b, d in fails:
        if b not in seen:
            out.fail(b, d)
        seen.add(b)
    _collapse_reput(out)
    sw = info.get("switches_inside", 0)
    out.nontrivial = sw >= 2
    out.units = max(1, len(baton.trace))
    out.labels = [data["cls"], "distinct-put-keys" if data.get("distinct") else "shared-put-keys",
                  f"threads:{len(data['threads'])}", "switches-inside:" + ("0" if sw == 0 else "1" if sw == 1 else "2-3" if sw <= 3 else "4+"),
                  "choices:" + ("0" if not baton.choices else "<=5" if len(baton.choices) <= 5 else "<=12" if len(baton.choices) <= 12 else ">12"),
                  "schedule-cyclic" if baton.cyclic else "schedule-exhausted" if baton.pos >= len(data["schedule"]) and baton.choices else "schedule-sufficient",
                  "status:" + info["status"]]  # fmt: skip
    return out


def _collapse_reput(out: Outcome) -> None:
    """Histories in which some key is put twice on an LRUCache contain the (sequential) re-put deviation; all
    their symptoms go to one bucket. Histories with distinct put keys keep the precise buckets."""
    first = True
    keep = []
    for f in out.failures:
        if ":reput-history:" in f.bucket:
            if first:
                f.detail = f"[{f.bucket}] {f.detail}"[:600]
                f.bucket = f.bucket.split(":")[0] + ":reput-history"
                keep.append(f)
                first = False
        else:
            keep.append(f)
    out.failures = keep


_ilv_op = st.one_of(
    st.tuples(st.sampled_from(["put", "put", "get", "get", "in"]), st.integers(0, 2)).map(list),
    st.sampled_from([["len"], ["clear"]]),
    st.tuples(st.sampled_from(["put", "get"]), st.integers(0, 2)).map(list),
)


@st.composite
def ilv_cases(draw):
    nthreads = draw(st.sampled_from([2, 2, 3]))
    d = {
        "cls": draw(st.sampled_from(["lru", "lru", "hybrid"])),
        "max_size": draw(st.sampled_from([1, 1, 2, 3])),
        "cloudpickle": draw(st.booleans()),
        "distinct": draw(st.booleans()),
        "prelude": draw(st.lists(st.tuples(st.just("put"), st.integers(0, 2)).map(list), max_size=2)),
        "threads": [draw(st.lists(_ilv_op, min_size=2, max_size=4)) for _ in range(nthreads)],
        "schedule": draw(st.lists(st.integers(0, 2), min_size=4, max_size=70)),
        "cyclic": draw(st.booleans()),  # reuse the schedule cyclically once it is used up (else: lowest runnable thread)
    }
    return d


# ---- systematic: every schedule of a small program ------------------------------------------------
def enum_ilv_sys(tier):
    def gen():
        single = [["put", 0], ["put", 1], ["get", 0], ["get", 1], ["in", 0], ["len"], ["clear"]]
        for cls in ("lru", "hybrid"):
            for m in (1, 2):
                for pre in ([["put", 0]], [["put", 0], ["put", 1]]):
                    for a, b in itertools.combinations_with_replacement(single, 2):
                        yield {"cls": cls, "max_size": m, "prelude": pre, "threads": [[a], [b]], "distinct": False, "cap": 400}
        # two ops per thread on a smaller op set, and three single-op threads
        two = [[["put", 1], ["get", 0]], [["get", 0], ["put", 2]], [["put", 2], ["put", 1]], [["get", 0], ["get", 1]], [["clear"], ["put", 0]]]
        for cls in ("lru", "hybrid"):
            for m in (1, 2):
                for a, b in itertools.combinations_with_replacement(two, 2):
                    yield {"cls": cls, "max_size": m, "prelude": [["put", 0]], "threads": [a, b], "distinct": False,
                           "cap": 150 if tier == "quick" else 2000}  # fmt: skip
                for a, b, c3 in itertools.combinations_with_replacement([["put", 1], ["get", 0], ["put", 2], ["clear"]], 3):
                    yield {"cls": cls, "max_size": m, "prelude": [["put", 0]], "threads": [[a], [b], [c3]], "distinct": False,
                           "cap": 150 if tier == "quick" else 2000}  # fmt: skip

    return gen


def body_ilv_sys(data) -> Outcome:
    out = Outcome()
    cap = data.get("cap", 400)
    schedule: list = []
    n = 0
    seen: set = set()
    complete = False
    max_sw = 0
    while n < cap:
        fails, baton, info = run_interleaving(dict(data, cyclic=False), schedule)
        n += 1
        max_sw = max(max_sw, info.get("switches_inside", 0))
        for b, d in fails:
            if b not in seen:
                out.fail(b, d + f" [replay: campaign interleave, same data plus schedule={schedule}, cyclic=false]")
            seen.add(b)
        ch = list(info.get("choices", []))
        while ch and ch[-1][0] + 1 >= ch[-1][1]:
            ch.pop()
        if not ch:
            complete = True
            break
        schedule = [c_ for c_, _ in ch[:-1]] + [ch[-1][0] + 1]
    _collapse_reput(out)
    out.units = n
    out.nontrivial = n >= 2
    out.labels = [data["cls"], "all-schedules" if complete else "capped", "schedules:" + _bucket_n(n),
                  f"threads:{len(data['threads'])}x{len(data['threads'][0])}", "max-switches-inside:" + str(min(max_sw, 4))]  # fmt: skip
    return out


# =================================================================================================
# =================================================================================================
# disk-overlap: a DiskCache put of another *process* is in flight (its value is being serialised) while this process
# operates on the same directory.  The harness owns the schedule: the in-flight value's __reduce__ reports
# "entered" and blocks until released, so the overlap is deterministic (never a timing accident).
# =================================================================================================
_GATE_FDS: list = []  # [entered_w, release_r] in the child that performs the in-flight put
_GATE_THREADS: dict = {}  # thread ident -> (entered, release) events for an in-flight put from a thread of this process


class _Gate:
    """Pickles to its payload string; the first serialisation in a gated process blocks until released."""

    def __init__(self, payload):
        self.payload = payload

    def __reduce__(self):
        ev = _GATE_THREADS.pop(threading.get_ident(), None)
        if ev is not None:
            ev[0].set()
            ev[1].wait(60)
        elif _GATE_FDS:
            entered_w, release_r = _GATE_FDS
            del _GATE_FDS[:]
            os.write(entered_w, b"e")
            os.read(release_r, 1)
        return (str, (self.payload,))


def _wait_fd(fd, timeout):
    import select

    r, _, _ = select.select([fd], [], [], timeout)
    return bool(r)


@st.composite
def overlap_cases(draw):
    nkeys = draw(st.integers(1, 3))
    op = st.one_of(
        st.tuples(st.just("put"), st.integers(0, nkeys - 1)),
        st.tuples(st.just("put"), st.just(0)),  # the in-flight key is key 0
        st.tuples(st.sampled_from(["get", "in"]), st.integers(0, nkeys - 1)),
        st.tuples(st.just("len")),
    )
    return {
        "max_size": draw(st.sampled_from([None, None, 1, 2, 3])),
        "cp": draw(st.booleans()),
        "pre": [list(o) for o in draw(st.lists(op, max_size=3))],
        "during": [list(o) for o in draw(st.lists(op, min_size=1, max_size=4))],
        "writers": draw(st.sampled_from([1, 1, 2])),  # 2: a second in-flight put of the same key from a third process
        "kind": draw(st.sampled_from(["process", "process", "thread"])),  # who has the put in flight
    }


def body_overlap(data) -> Outcome:
    out = Outcome()
    env = Env()
    keys = ["a", "b", "c"]
    kids: list = []
    try:
        d = env.newdir()
        c = DiskCache(d, data["max_size"], use_cloudpickle=data["cp"], with_lru_cache=False)
        model = DiskModel(data["max_size"], 0)
        n = [0]

        def apply(op, where):
            kind = op[0]
            k = keys[op[1]] if len(op) > 1 else None
            if kind == "put":
                n[0] += 1
                v = f"{where}{n[0]}"
                got = _try(lambda: do_put(c, k, v, None, env))
                model.put(k, v)
                want = None
            elif kind == "get":
                got, want = _try(lambda: c.get(k)), model.get(k)
            elif kind == "in":
                got, want = _try(lambda: k in c), k in model
            else:
                got, want = _try(lambda: len(c)), len(model)
            if isinstance(got, Raised):
                out.fail(f"overlap-{where}-{kind}-raised:{got.sig}", f"{op} {got!r}", {"op": op})
                return False
            if got != want:
                out.fail(f"overlap-{where}-{kind}-differs", f"{op}: got {got!r}, the sequential model says {want!r}", {"op": op})
                return False
            return True

        for op in data["pre"]:
            if not apply(op, "pre"):
                return out
        # in-flight puts of key 'a' by other processes
        threads: list = []
        for w in range(data["writers"] if data.get("kind") == "thread" else 0):
            entered, release, result = threading.Event(), threading.Event(), []

            def writer(w=w, entered=entered, release=release, result=result):
                _GATE_THREADS[threading.get_ident()] = (entered, release)
                try:
                    c.put("a", _Gate(f"inflight{w}"))
                    result.append("k")
                except BaseException as e:  # noqa: BLE001
                    result.append("x" + exc_detail(e)[:300])

            t = threading.Thread(target=writer, daemon=True)
            t.start()
            threads.append((t, release, result, w))
            if not entered.wait(60):
                out.labels.append("overlap-inconclusive-thread-never-entered")
                release.set()
                return out
        for w in range(data["writers"] if data.get("kind") != "thread" else 0):
            e_r, e_w = os.pipe()
            r_r, r_w = os.pipe()
            res_r, res_w = os.pipe()
            pid = os.fork()
            if pid == 0:
                code = b"k"
                try:
                    _GATE_FDS[:] = [e_w, r_r]
                    try:
                        c.put("a", _Gate(f"inflight{w}"))
                    except BaseException as e:  # noqa: BLE001
                        code = ("x" + exc_detail(e)[:300]).encode()
                    os.write(res_w, code)
                finally:
                    os._exit(0)
            os.close(e_w), os.close(r_r), os.close(res_w)
            kids.append({"pid": pid, "entered": e_r, "release": r_w, "result": res_r, "w": w})
            if not _wait_fd(e_r, 60):
                out.labels.append("overlap-inconclusive-child-never-entered")
                return out
        overlapped_same_key = False
        for op in data["during"]:
            overlapped_same_key |= op[0] == "put" and op[1] == 0
            if not apply(op, "during"):
                return out
        # release the in-flight puts one after the other: each linearises at its rename, i.e. now
        for kid in kids:
            env.wait_after_dir(d)
            os.write(kid["release"], b"r")
            if not _wait_fd(kid["result"], 60):
                out.labels.append("overlap-inconclusive-child-never-finished")
                return out
            msg = os.read(kid["result"], 400).decode(errors="replace")
            os.waitpid(kid["pid"], 0)
            kid["pid"] = None
            if msg != "k":
                out.fail(f"overlap-inflight-put-raised:{msg[1:].split(':')[0][:40]}", f"put of 'a' from process {kid['w']} raised {msg[1:]}",
                         {"writer": kid["w"]})
                return out
            model.put("a", f"inflight{kid['w']}")
        for t, release, result, w in threads:
            env.wait_after_dir(d)
            release.set()
            t.join(60)
            msg = result[0] if result else "xwriter thread did not finish"
            if msg != "k":
                out.fail(f"overlap-inflight-put-raised:{msg[1:].split(':')[0][:40]}", f"put of 'a' from thread {w} raised {msg[1:]}",
                         {"writer": w, "kind": "thread"})
                return out
            model.put("a", f"inflight{w}")
        for i, k in enumerate(keys):
            if not apply(["in", i], "post") or not apply(["get", i], "post"):
                return out
        apply(["len"], "post")
        out.labels.append(f"overlap-writers{data['writers']}-{data.get('kind', 'process')}")
        out.labels.append("overlap-same-key-put-during" if overlapped_same_key else "overlap-other-ops-during")
        out.labels.append(f"overlap-max{data['max_size']}")
        out.nontrivial = True
        out.units = len(data["pre"]) + len(data["during"]) + data["writers"] + 7
    finally:
        for kid in kids:
            if kid["pid"]:
                try:
                    os.kill(kid["pid"], 9)
                    os.waitpid(kid["pid"], 0)
                except OSError:
                    pass
            for fd in (kid["entered"], kid["release"], kid["result"]):
                try:
                    os.close(fd)
                except OSError:
                    pass
        env.close()
    return out


def _base_campaigns(tier):
    return [
        Campaign("bfs", body_bfs, enumerate=enum_bfs, quick=0, thorough=0, exhaustive=True, shards_quick=13, shards_thorough=13,
                 describe="model x implementation product explored breadth-first to closure: LRUCache max_size 1-3, SimpleCache, "
                          "DiskCache max_size 1-3 x lru_cache_size none/1/2; alphabet 6 puts, 3 gets, 3 in, len, clear"),
        Campaign("bfs-hybrid", body_bfs, enumerate=enum_bfs_hybrid(tier), quick=0, thorough=0, exhaustive=True, shards_quick=9,
                 shards_thorough=9,
                 describe="HybridCache max_size 1-3 x 3 weightings, every history up to depth 7 (quick) / 10 (thorough) modulo model state"),
        Campaign("seq", body_seq, seq_cases(), quick=2400, thorough=40000,
                 describe="drawn op lists on all four classes, shared (real Manager) ~15 %, DiskCache reopen"),
        Campaign("mp", body_seq, mp_cases(), quick=160, thorough=2400,
                 describe="seq oracle with the operations issued one at a time from 2-3 real processes (forked, or fork + pickle "
                          "round trip) on a real Manager-backed cache"),
        Campaign("interleave", body_interleave, ilv_cases(), quick=8000, thorough=120000,
                 describe="drawn programs and schedules on the fake Manager"),
        Campaign("disk-overlap", body_overlap, overlap_cases(), quick=400, thorough=8000,
                 describe="DiskCache: sequential-model oracle for this process's operations while one or two other processes "
                          "have a put of the same directory in flight (blocked inside the value's serialisation), then the "
                          "in-flight puts complete one by one"),
        Campaign("ilv-sys", body_ilv_sys, enumerate=enum_ilv_sys(tier), quick=0, thorough=0, exhaustive=False,
                 describe="all schedules (up to a cap) of small two/three-thread programs"),
    ]  # fmt: skip


PREDICATES = {}


def campaigns(tier):
    camps = list(_base_campaigns(tier))
    if tier == "thorough":  # coverage-guided search over the same structured cases (fuzz/hyp_fuzz.py)
        from vlib.core import cov_fuzz_campaign

        camps.append(cov_fuzz_campaign(PID, [('seq', 6000)]))
    return camps

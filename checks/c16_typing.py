"""C16 -- type-annotation validation agrees with subtype compatibility (DESIGN.md section 4, C16)."""

from __future__ import annotations

import functools
import itertools
import operator
import re
import typing
from typing import Annotated, Any, TypeVar, Union

import numpy as np
from hypothesis import strategies as st

from vlib import boot  # noqa: F401
from vlib.core import Campaign, Outcome, exc_bucket, exc_detail

from pipefunc import PipeFunc, Pipeline
from pipefunc.typing import Array, NoAnnotation, is_type_compatible

PID = "C16"
LEVEL = "exploration"
RULE = (
    "Annotation recipes (JSON) are built into real typing objects. Grammar, depth <= 3 (a leaf has depth 0, every "
    "constructor adds 1): leaves int,bool,float,str,bytes,NoneType,Any, plain object ndarray; list[T], set[T], "
    "tuple[T1..Tn] (n=1..3), dict[K,V], Union/`|`/Optional (2-3 members), Annotated[T, non-string metadata], Array[T]; "
    "on the required side additionally TypeVar (unconstrained / bound / 2-3 constraints); NoAnnotation at top level "
    "only. Pairs are drawn independently and as *related* pairs (the required side derived from the source by local "
    "edits: widen/narrow a leaf, Any, add/drop a union member, add/strip Annotated, change tuple arity, TypeVar with "
    "the node as bound/constraint), in both directions. Oracle: a reference relation ref(A,B) on recipes written "
    "from the property text; is_type_compatible(A,B) must equal ref(A,B). Laws are checked on the implementation "
    "alone (reflexivity; A <= A|X; A|B <= C iff A <= C and B <= C; F[A] <= F[B] iff A <= B for list/set/1-tuple/dict "
    "key/dict value/Array; Annotated[A,m] <= B iff A <= B iff A <= Annotated[B,m]). The depth-1 grammar is "
    "enumerated exhaustively (all ordered pairs). Pipelines: 2-3 functions whose __annotations__ come from recipes, "
    "wired directly, element-wise, and through reductions (consumer without MapSpec, consumer MapSpec not naming "
    "the argument, ':' axis, partial reduction of a 2-d output), optional tuple output and renames; expected "
    "outcome = all edges ref-compatible (source wrapped in Array[.] on reduced edges) <=> construction succeeds, "
    "else TypeError whose message names an edge that is incompatible by ref; with validate_type_annotations=False "
    "construction always succeeds. A mismatch that is exactly "
    "explained by a smallest set of modelled deviations (DEV_NAMES: tuple zip truncation, swapped arguments for a "
    "required-only Annotated, Annotated[union] source not split, constrained-TypeVar miss falling through, both-"
    "Annotated primaries compared out of context) is reported once per deviation in that deviation's own DEV-* bucket; "
    "anything else lands in compat-mismatch-* / law-*-violated / pipeline-* buckets. Non-trivial = pair whose two sides both have depth >= 2 or that "
    "involves Union/Annotated/Array/TypeVar; for pipelines, a pipeline with an edge through a reduction; distinct "
    "by sha1 of the recipe."
)
ASSUMPTIONS = [
    "source-side TypeVars are outside the grammar (pipefunc documents 'returns True for now'); TypeVar bounds and constraints are TypeVar-free",
    "variadic tuple[T, ...], the empty tuple type and bare unparametrised generics (list, dict, numpy.ndarray) are outside the grammar",
    "only builtin generic origins list/set/tuple/dict (no collections.abc origins): the property text does not say how tuple[A, B] relates to Sequence[T]",
    "Annotated metadata is an int or a class object; string metadata (evaluated by pipefunc as a forward reference) is outside the grammar",
    "classes are related by issubclass only: bool <= int is True, int <= float is False; no numeric-tower claim beyond issubclass",
    "None is built as NoneType (what typing.get_type_hints produces); the literal None object as a top-level argument of is_type_compatible is not exercised",
    "NoAnnotation occurs only as a whole annotation, never nested; Any as a source is compatible only with targets that accept everything (pinned by tests/test_typing.py)",
    "a union target is satisfied only by a single member accepting the whole (non-union) source, as the property text states; a union source is split first, also against TypeVars (value reading: every value of A is acceptable)",
    "on reduced edges the producer's return annotation is never itself an object-array type (Array[..] / plain object ndarray, also under Annotated): "
    "pipefunc deliberately does not wrap those (tests/map/test_map.py::test_return_2d_from_step pins it) while the property text says 'Array of its element type' -- undetermined, excluded",
    "all MapSpecs are user-written and every output index occurs among the inputs (no auto-generated MapSpecs, no internal shapes: pipefunc documents that it skips the check there)",
    "a multi-output function is annotated with tuple[...] of exactly as many members as outputs, or not at all",
    "the deviation models (devmodel/DEV_NAMES) are used only to name the bucket of a mismatch, never to accept one; devmodel with no deviation switched on is asserted equal to ref",
]

PY = {"int": int, "bool": bool, "float": float, "str": str, "bytes": bytes, "none": type(None)}
OBJARRAY_T = np.ndarray[Any, np.dtype[np.object_]]
ANN = ("annotated", "array")
GENERIC = {"list": list, "set": set, "dict": dict, "tuple": tuple}


# ---- recipes -> typing objects ------------------------------------------------------------------
def meta(m):
    if isinstance(m, dict):
        return PY[m["cls"]]
    return m


def build(r):
    k = r["k"]
    if k in PY:
        return PY[k]
    if k == "any":
        return Any
    if k == "objarray":
        return OBJARRAY_T
    if k == "noannotation":
        return NoAnnotation
    if k == "list":
        return list[build(r["a"][0])]
    if k == "set":
        return set[build(r["a"][0])]
    if k == "tuple":
        return tuple[tuple(build(x) for x in r["a"])]
    if k == "dict":
        return dict[build(r["a"][0]), build(r["a"][1])]
    if k == "union":
        args = tuple(build(x) for x in r["a"])
        if r.get("bar"):
            try:
                return functools.reduce(operator.or_, args)
            except TypeError:
                pass
        return Union[args]  # noqa: UP007
    if k == "annotated":
        ms = [meta(r["m"])] + ([meta(r["m2"])] if "m2" in r else [])
        return Annotated[(build(r["a"][0]), *ms)]
    if k == "array":
        return Array[build(r["a"][0])]
    if k == "typevar":
        cons = tuple(build(x) for x in r.get("constraints") or ())
        bound = r.get("bound")
        if cons:
            return TypeVar("T", *cons)
        if bound is not None:
            return TypeVar("T", bound=build(bound))
        return TypeVar("T")
    raise ValueError(k)


def show(r) -> str:
    k = r["k"]
    if k in ("list", "set", "tuple", "dict", "array"):
        return f"{k if k != 'array' else 'Array'}[{', '.join(show(x) for x in r['a'])}]"
    if k == "union":
        return "(" + " | ".join(show(x) for x in r["a"]) + ")"
    if k == "annotated":
        return f"Annotated[{show(r['a'][0])}, {r['m']}{', ' + str(r['m2']) if 'm2' in r else ''}]"
    if k == "typevar":
        if r.get("constraints"):
            return f"T({', '.join(show(x) for x in r['constraints'])})"
        if r.get("bound") is not None:
            return f"T(bound={show(r['bound'])})"
        return "T"
    return k


def children(r):
    k = r["k"]
    if k == "typevar":
        return list(r.get("constraints") or ()) + ([r["bound"]] if r.get("bound") is not None else [])
    return r.get("a", [])


def depth(r) -> int:
    ch = children(r)
    return 0 if not ch else 1 + max(depth(c) for c in ch)  # an unconstrained TypeVar is a leaf


def kinds(r) -> set:
    s = {r["k"]}
    for c in children(r):
        s |= kinds(c)
    return s


def key(r) -> str:
    """Canonical text of a recipe: union members flattened, sorted and de-duplicated, spelling ('bar') ignored."""
    k = r["k"]
    if k == "union":
        return "U(" + ",".join(sorted({key(m) for m in _flat(r)})) + ")"
    if k == "typevar":
        return "T(" + ",".join(key(c) for c in r.get("constraints") or ()) + ";" + (key(r["bound"]) if r.get("bound") else "") + ")"
    if k == "annotated":
        return f"An({key(r['a'][0])};{r['m']};{r.get('m2')})"
    return k + ("[" + ",".join(key(c) for c in r["a"]) + "]" if "a" in r else "")


def _flat(r):
    for m in r["a"]:
        m = canon(m)
        if m["k"] == "union":
            yield from m["a"]
        else:
            yield m


def canon(r):
    """The recipe of what typing actually builds: Union[X, X] is X, nested unions are flat (so the recipe's structure
    is the structure of the built object; the relation itself does not depend on it)."""
    k = r["k"]
    if k == "union":
        seen, ms = set(), []
        for m in _flat(r):
            if key(m) not in seen:
                seen.add(key(m))
                ms.append(m)
        return ms[0] if len(ms) == 1 else dict(r, a=ms)
    if k == "typevar":
        new = dict(r)
        if r.get("constraints"):
            new["constraints"] = [canon(c) for c in r["constraints"]]
        if r.get("bound") is not None:
            new["bound"] = canon(r["bound"])
        return new
    if "a" in r:
        return dict(r, a=[canon(c) for c in r["a"]])
    return r


# ---- the reference relation (written from the property text) -----------------------------------
def strip(r):
    """Annotated is transparent; Array[T] is a plain object ndarray that remembers its element type."""
    while r["k"] == "annotated":
        r = r["a"][0]
    if r["k"] == "array":
        return {"k": "objarray"}, r["a"][0]
    return r, None


def ref(a, b) -> bool:
    """True iff every value of type ``a`` is acceptable where ``b`` is required (covariant generics)."""
    if a["k"] == "noannotation" or b["k"] == "noannotation":  # a missing annotation is compatible with everything
        return True
    ca, ea = strip(a)
    cb, eb = strip(b)
    ka, kb = ca["k"], cb["k"]
    if kb == "any":  # Any as a requirement accepts everything
        return True
    if ka == "union":  # a union source needs all members accepted
        return all(ref(m, b) for m in ca["a"])
    if kb == "union":  # a union target needs one member
        return any(ref(a, m) for m in cb["a"])
    if kb == "typevar":
        if cb.get("constraints"):
            return any(ref(a, c) for c in cb["constraints"])
        if cb.get("bound") is not None:
            return ref(a, cb["bound"])
        return True
    if ka == "any":  # an unknown value is acceptable only where everything is
        return False
    if ka == "objarray" or kb == "objarray":  # Array[S] <= Array[T] iff S <= T; Array[T] <-> plain object ndarray
        if ka != kb:
            return False
        return ref(ea, eb) if (ea is not None and eb is not None) else True
    if ka in GENERIC or kb in GENERIC:  # same origin, equal arity, covariant element-wise
        if ka != kb or len(ca["a"]) != len(cb["a"]):
            return False
        return all(ref(x, y) for x, y in zip(ca["a"], cb["a"]))
    return issubclass(PY[ka], PY[kb])


# ---- models of the confirmed deviations: used ONLY to name the bucket of a mismatch --------------
DEV_NAMES = {
    "zip": "tuple-arity-zip-truncation",
    "swap": "required-only-Annotated-args-swapped",
    "annunion": "Annotated-union-source-not-split",
    "tvnone": "constrained-TypeVar-miss-falls-through",
    "annprim": "both-Annotated-primaries-compared-out-of-context",
}


def devmodel(a, b, dev) -> bool:
    """ref() with the deviations named in ``dev`` switched on; devmodel(a, b, {}) == ref(a, b) (asserted in the bodies)."""
    ka, kb = a["k"], b["k"]
    if ka == "noannotation" or kb == "noannotation":
        return True
    if ka == "typevar":  # never generated as a source; reachable only through 'swap' (pipefunc: "return True for now")
        return True
    if ka == "union":
        return all(devmodel(m, b, dev) for m in a["a"])
    a_ann, b_ann = ka in ANN, kb in ANN
    ca, ea = strip(a)
    cb, eb = strip(b)
    if "swap" in dev and b_ann and not a_ann:
        # only the required side is Annotated -> its primary type is used as the *incoming* type
        return devmodel(cb, a, dev)
    if "annunion" in dev and a_ann and ca["k"] == "union":
        # Annotated[X | Y, m] as a source is not split before a union / TypeVar target is taken apart
        if kb == "union":
            return any(devmodel(a, m, dev) for m in b["a"])
        if kb == "typevar":
            if b.get("constraints"):
                return any(devmodel(a, c, dev) for c in b["constraints"]) or all(devmodel(m, b, dev) for m in ca["a"])
            if b.get("bound") is not None:
                return devmodel(a, b["bound"], dev)
            return True
    if "annprim" in dev and a_ann and b_ann:
        # both Annotated: the primary types are compared on their own (the source's Array element type is dropped when
        # the required primary is a Union/TypeVar that only contains an Array; a union primary is not split first)
        if not devmodel(ca, cb, dev):
            return False
        return devmodel(ea, eb, dev) if (ea is not None and eb is not None) else True
    ka, kb = ca["k"], cb["k"]
    if ka == "typevar":
        return True
    if kb == "any":
        return True
    if ka == "union":
        return all(devmodel(m, b, dev) for m in ca["a"])
    if kb == "union":
        return any(devmodel(a, m, dev) for m in cb["a"])
    if kb == "typevar":
        if cb.get("constraints"):
            r = any(devmodel(a, c, dev) for c in cb["constraints"])
            if not r and "tvnone" in dev and a_ann:
                # no constraint matched -> None instead of False -> Annotated stripped (element type lost) and retried
                r = devmodel(ca, cb, dev)
            return r
        if cb.get("bound") is not None:
            return devmodel(a, cb["bound"], dev)
        return True
    if ka == "any":
        return False
    if ka == "objarray" or kb == "objarray":
        if ka != kb:
            return False
        return devmodel(ea, eb, dev) if (ea is not None and eb is not None) else True
    if ka in GENERIC or kb in GENERIC:
        if ka != kb:
            return False
        if len(ca["a"]) != len(cb["a"]) and "zip" not in dev:
            return False
        return all(devmodel(x, y, dev) for x, y in zip(ca["a"], cb["a"]))
    return issubclass(PY[ka], PY[kb])


DEVS = [frozenset(c) for n in range(1, len(DEV_NAMES) + 1) for c in itertools.combinations(DEV_NAMES, n)]
NODEV = frozenset()


def explain(pred) -> list[str]:
    """Names of a smallest set of modelled deviations for which ``pred(model)`` holds (model(a, b) -> bool); [] if none."""
    for dev in DEVS:
        if pred(lambda a, b, dev=dev: devmodel(a, b, dev)):
            return ["DEV-" + DEV_NAMES[x] for x in DEV_NAMES if x in dev]
    return []


def diagnose(calls) -> list[str] | None:
    """calls: [(a, b, got)].  None if every call agrees with ref; else the deviation buckets explaining all of them."""
    calls = [(canon(a), canon(b), got) for a, b, got in calls]
    for a, b, _ in calls:
        assert devmodel(a, b, NODEV) == ref(a, b), (a, b)  # harness self-check
    if all(ref(a, b) == got for a, b, got in calls):
        return None
    return explain(lambda model: all(model(a, b) == got for a, b, got in calls))


def itc(out, a, b):
    """Call the implementation on freshly built objects; None (and a failure) if it raises."""
    a, b = canon(a), canon(b)
    try:
        return bool(is_type_compatible(build(a), build(b)))
    except Exception as e:  # noqa: BLE001
        out.fail(exc_bucket(e, "is_type_compatible-raised"), f"{show(a)} -> {show(b)}: {exc_detail(e)}")
        return None


def nontrivial_pair(a, b) -> bool:
    special = {"union", "annotated", "array", "typevar"}
    return (depth(a) >= 2 and depth(b) >= 2) or bool((kinds(a) | kinds(b)) & special)


# ---- bodies: pairs and laws ---------------------------------------------------------------------
def body_pair(data) -> Outcome:
    out = Outcome()
    a, b = canon(data["a"]), canon(data["b"])
    want = ref(a, b)
    assert devmodel(a, b, NODEV) == want, (a, b)  # harness self-check: the bucket-naming model extends ref
    out.nontrivial = nontrivial_pair(a, b)
    out.labels += [f"ref={want}", f"src:{a['k']}", f"req:{b['k']}", f"depth:{depth(a)}x{depth(b)}"]
    if want and a != b:
        out.labels.append("ref=True,non-identical")
    got = itc(out, a, b)
    if got is None:
        return out
    if got != want:
        ds = diagnose([(a, b, got)])
        for d in ds:  # one failure per modelled deviation involved (a case may need two of them)
            out.labels.append(d)
            out.fail(d, f"{show(a)} -> {show(b)}: is_type_compatible={got}, reference={want}")
        if not ds:
            which = "accepts-incompatible" if got else "rejects-compatible"
            out.fail(f"compat-mismatch-{which}", f"{show(a)} -> {show(b)}: is_type_compatible={got}, reference={want}")
    return out


def U(*xs):
    return {"k": "union", "a": list(xs)}


CTORS = {
    "list": lambda x: {"k": "list", "a": [x]},
    "set": lambda x: {"k": "set", "a": [x]},
    "tuple1": lambda x: {"k": "tuple", "a": [x]},
    "tuple2nd": lambda x: {"k": "tuple", "a": [{"k": "str"}, x]},
    "dictkey": lambda x: {"k": "dict", "a": [x, {"k": "int"}]},
    "dictval": lambda x: {"k": "dict", "a": [{"k": "str"}, x]},
    "array": lambda x: {"k": "array", "a": [x]},
}


def body_laws(data) -> Outcome:
    out = Outcome()
    a, b, c, x, m, ctor = data["a"], data["b"], data["c"], data["x"], data["m"], data["ctor"]
    out.nontrivial = nontrivial_pair(a, c)
    out.labels += [f"ctor:{ctor}"]
    units = 0

    def law(name, calls, holds):
        nonlocal units
        units += len(calls)
        if any(g is None for _, _, g in calls):
            return
        if not holds:
            txt = f"law {name}: " + "; ".join(f"{show(p)} -> {show(q)} = {g}" for p, q, g in calls)
            ds = diagnose(calls)
            if ds is None:  # every call agrees with ref and the law still fails: ref itself breaks the law
                out.fail(f"law-{name}-violated-by-reference", txt)
            elif not ds:
                out.fail(f"law-{name}-violated", txt)
            for d in ds or []:
                out.labels.append(d)
                out.fail(d, txt)

    # reflexivity (two separately built, equal objects)
    g = itc(out, a, a)
    law("reflexivity", [(a, a, g)], g is True)
    # union introduction
    for u in (U(a, x), U(x, a)):
        g = itc(out, a, u)
        law("union-introduction", [(a, u, g)], g is True)
    # union elimination on the source side
    u = U(a, b)
    g0, g1, g2 = itc(out, u, c), itc(out, a, c), itc(out, b, c)
    out.labels.append(f"elim:{g0}")
    law("union-elimination", [(u, c, g0), (a, c, g1), (b, c, g2)], g0 == (bool(g1) and bool(g2)))
    # covariance of one generic position
    f = CTORS[ctor]
    h0, h1 = itc(out, f(a), f(c)), g1
    out.labels.append(f"cov:{h1}")
    law(f"covariance-{ctor}", [(f(a), f(c), h0), (a, c, h1)], h0 == h1)
    # Annotated transparency
    an = lambda t: {"k": "annotated", "a": [t], "m": m}  # noqa: E731
    s0 = itc(out, an(a), c)
    law("annotated-source-transparent", [(an(a), c, s0), (a, c, g1)], s0 == g1)
    r0 = itc(out, a, an(c))
    law("annotated-required-transparent", [(a, an(c), r0), (a, c, g1)], r0 == g1)
    b0 = itc(out, an(a), an(c))
    law("annotated-both-transparent", [(an(a), an(c), b0), (a, c, g1)], b0 == g1)
    out.units = units
    return out


# ---- pipelines ----------------------------------------------------------------------------------
_SPEC = re.compile(r"\s*(\w+)\[([^\]]*)\]\s*")


def parse_mapspec(s):
    """'x[i], v[j] -> y[i, j]' -> ({name: axes}, {name: axes}); an independent, minimal parser."""
    lhs, rhs = s.split("->")
    def side(t):
        res = {}
        for m in _SPEC.finditer(t):
            res[m.group(1)] = [x.strip() for x in m.group(2).split(",")]
        return res
    return side(lhs), side(rhs)


def make_func(spec):
    name = spec["name"]
    params = spec["params"]  # [[pyname, recipe], ...]
    ns: dict = {}
    exec(f"def {name}({', '.join(p for p, _ in params)}):\n    return 0\n", ns)  # noqa: S102
    fn = ns[name]
    ann = {p: build(r) for p, r in params if r["k"] != "noannotation"}
    if spec["ret"]["k"] != "noannotation":
        ann["return"] = build(spec["ret"])
    fn.__annotations__ = ann
    out = spec["out"]
    renames = dict(spec.get("renames") or {})
    out_py = spec.get("out_py")  # python-level output names that are renamed to `out` (position by position)
    if out_py:
        finals = out if isinstance(out, list) else [out]
        renames.update({p: o for p, o in zip(out_py, finals) if p != o})
        out = list(out_py) if isinstance(out, list) else out_py[0]
    return PipeFunc(
        fn,
        output_name=tuple(out) if isinstance(out, list) else out,
        mapspec=spec.get("mapspec"),
        renames=renames,
    )


def edges_of(funcs):
    """[(producer, consumer, argument, source recipe, required recipe, reduced?)] computed from the recipe alone."""
    produced = {}
    for f in funcs:
        outs = f["out"] if isinstance(f["out"], list) else [f["out"]]
        for i, o in enumerate(outs):
            if isinstance(f["out"], list):
                r = f["ret"]["a"][i] if f["ret"]["k"] == "tuple" else {"k": "noannotation"}
            else:
                r = f["ret"]
            produced[o] = (f, r)
    res = []
    for g in funcs:
        ren = g.get("renames") or {}
        g_in = parse_mapspec(g["mapspec"])[0] if g.get("mapspec") else None
        for pyname, req in g["params"]:
            arg = ren.get(pyname, pyname)
            if arg not in produced:
                continue
            f, src = produced[arg]
            f_out = parse_mapspec(f["mapspec"])[1] if f.get("mapspec") else {}
            reduced = arg in f_out and (g_in is None or arg not in g_in or ":" in g_in[arg])
            res.append((f["name"], g["name"], arg, src, req, reduced))
    return res


def body_pipeline(data) -> Outcome:
    out = Outcome()
    funcs, validate = data["funcs"], data["validate"]
    edges = edges_of(funcs)
    eff = []
    for _, _, _, src, req, reduced in edges:
        s = {"k": "array", "a": [src]} if (reduced and src["k"] != "noannotation") else src
        eff.append((canon(s), canon(req)))
    if any(e[5] and e[3]["k"] != "noannotation" and _is_objarray_like(e[3]) for e in edges):
        out.labels.append("excluded:object-array-producer-on-reduced-edge")  # see ASSUMPTIONS; never generated
        return out
    compat = [ref(s, r) for s, r in eff]
    explicit_bad =[i for i, ok in enumerate(compat) if not ok]
    want_ok = (not validate) or not explicit_bad
    n_red = sum(1 for e in edges if e[5])
    out.nontrivial = n_red > 0
    out.units = len(edges)
    out.labels += [
        f"mode:{data.get('mode')}",
        f"validate={validate}",
        f"expect={'ok' if want_ok else 'TypeError'}",
        f"nfunc:{len(funcs)}",
        f"edges:{len(edges)}",
        "reduced-edge" if n_red else "no-reduced-edge",
    ]
    if any(isinstance(f["out"], list) for f in funcs):
        out.labels.append("tuple-output")
    if any(f.get("renames") for f in funcs):
        out.labels.append("renames")
    if any(f.get("out_py") for f in funcs):
        out.labels.append("output-renamed" + ("-multi" if isinstance(funcs[0]["out"], list) else ""))
    if validate and explicit_bad and any(edges[i][5] for i in explicit_bad):
        out.labels.append("incompatible-reduced-edge")
    if validate and n_red and not explicit_bad and any(
        e[5] and e[3]["k"] != "noannotation" and e[4]["k"] != "noannotation" for e in edges
    ):
        out.labels.append("compatible-annotated-reduced-edge")
    try:
        pfs = [make_func(f) for f in funcs]
    except Exception as e:  # noqa: BLE001
        out.fail(exc_bucket(e, "PipeFunc-refused"), exc_detail(e))
        return out
    got_ok, err = True, None
    try:
        Pipeline(pfs, validate_type_annotations=validate)
    except TypeError as e:
        if "Inconsistent type annotations" in str(e):
            got_ok, err = False, e
        else:
            out.fail(exc_bucket(e, "construction-raised"), exc_detail(e))
            return out
    except Exception as e:  # noqa: BLE001
        out.fail(exc_bucket(e, "construction-raised" if validate else "unvalidated-construction-raised"), exc_detail(e))
        return out
    desc = "; ".join(
        f"{p}->{c}:{arg}{'(reduced)' if red else ''} {show(s)} -> {show(r)} ref={ok}"
        for (p, c, arg, _, _, red), (s, r), ok in zip(edges, eff, compat)
    )
    if not validate:
        if not got_ok:
            out.fail("rejected-although-validation-disabled", desc + f" :: {exc_detail(err)}")
        return out
    if got_ok:
        # accepted: the implementation found every edge compatible
        if explicit_bad:
            ds = diagnose([(s, r, True) for s, r in eff])
            for d in ds:  # exactly what modelled deviations predict: their own buckets
                out.labels.append(d)
                out.fail(d, f"pipeline accepted :: {desc}")
            if not ds:
                out.fail("pipeline-accepts-incompatible-edge", desc)
        return out
    # rejected: the error names the edge the implementation found incompatible
    m = _ERR.search(str(err))
    idx = [
        i for i, e in enumerate(edges) if m and (e[2], e[0], e[1]) == (m.group(1), m.group(2), m.group(3))
    ]
    if len(idx) != 1:
        out.fail("pipeline-error-names-no-edge-of-the-pipeline", desc + f" :: {str(err)[:300]}")
        return out
    (i,) = idx
    if compat[i]:
        ds = diagnose([(eff[i][0], eff[i][1], False)])
        for d in ds:
            out.labels.append(d)
            out.fail(d, f"pipeline rejected for {edges[i][2]} :: {desc}")
        if not ds:
            out.fail("pipeline-rejects-compatible-edge", f"rejected for {edges[i][2]} :: {desc}")
    return out


_ERR = re.compile(r"Argument `(\w+)`\s+- Function `(\w+)\(\.\.\.\)` returns:.*?- Function `(\w+)\(\.\.\.\)` expects:", re.S)


# ---- strategies ---------------------------------------------------------------------------------
LEAF_LIST = [{"k": k} for k in ("int", "bool", "float", "str", "bytes", "none", "any", "objarray")]
LEAF = st.sampled_from(LEAF_LIST + [{"k": "int"}, {"k": "bool"}, {"k": "str"}])
META = st.sampled_from([1, 2, 3, {"cls": "float"}])


def _annot(sub):
    one = st.builds(lambda t, m: {"k": "annotated", "a": [t], "m": m}, sub, META)
    two = st.builds(lambda t, m, m2: {"k": "annotated", "a": [t], "m": m, "m2": m2}, sub, META, META)
    return st.one_of(one, one, two)


def _union(sub):
    return st.builds(
        lambda xs, bar: {"k": "union", "a": xs, "bar": bar}, st.lists(sub, min_size=2, max_size=3, unique_by=key), st.booleans()
    )


def _typevar(sub):
    return st.one_of(
        st.just({"k": "typevar"}),
        st.builds(lambda t: {"k": "typevar", "bound": t}, sub),
        st.builds(lambda xs: {"k": "typevar", "constraints": xs}, st.lists(sub, min_size=2, max_size=3)),
    )


@functools.lru_cache(maxsize=None)
def ty(d: int, req: bool):
    """Nested-safe annotation recipes of depth <= d; TypeVars only when ``req``."""
    if d <= 0:
        return LEAF
    sub = ty(d - 1, req)
    plain = ty(d - 1, False)
    alts = [
        LEAF,
        st.builds(lambda t: {"k": "list", "a": [t]}, sub),
        st.builds(lambda t: {"k": "set", "a": [t]}, sub),
        st.builds(lambda xs: {"k": "tuple", "a": xs}, st.lists(sub, min_size=1, max_size=3)),
        st.builds(lambda k, v: {"k": "dict", "a": [k, v]}, sub, sub),
        _union(sub),
        st.builds(lambda t, bar: {"k": "union", "a": [t, {"k": "none"}], "bar": bar}, sub, st.booleans()),
        _annot(sub),
        st.builds(lambda t: {"k": "array", "a": [t]}, sub),
    ]
    if req:
        alts.append(_typevar(plain))
    return st.one_of(*alts)


def derive(draw, node, req: bool, level: int):
    """A recipe related to ``node`` by local edits; total depth stays <= 3 (``level`` = nesting level of node)."""
    room = 3 - level - depth(node)
    k = node["k"]
    ops = ["same"] * 5 + ["leafswap", "any", "fresh"]
    if room >= 1:
        ops += ["union+", "annot", "optional"] + (["tvar-bound", "tvar-constr"] if req else [])
    if req:
        ops.append("tvar")
    if k == "tuple":
        ops += ["arity", "arity"]
    if k == "union":
        ops += ["drop-member", "permute"]
    if k == "annotated":
        ops += ["strip", "strip"]
    if k == "array":
        ops += ["strip-array"]
    op = draw(st.sampled_from(ops))
    if op == "same":
        if k in ("list", "set", "tuple", "dict", "union", "annotated", "array"):
            new = dict(node)
            new["a"] = [derive(draw, c, req, level + 1) for c in node["a"]]
            return new
        if k in PY:
            return draw(st.sampled_from([node, node, {"k": "int"}, {"k": "bool"}]))
        return node
    if op == "leafswap":
        return draw(LEAF) if not children(node) else node
    if op == "any":
        return {"k": "any"}
    if op == "fresh":
        return draw(ty(max(0, min(2, 3 - level)), req))
    if op == "union+":
        other = draw(LEAF)
        return {"k": "union", "a": draw(st.permutations([node, other])), "bar": draw(st.booleans())}
    if op == "optional":
        return {"k": "union", "a": [node, {"k": "none"}], "bar": draw(st.booleans())}
    if op == "annot":
        return {"k": "annotated", "a": [derive(draw, node, req, level + 1)], "m": draw(META)}
    if op == "tvar":
        return {"k": "typevar"}
    if op == "tvar-bound":
        return {"k": "typevar", "bound": derive(draw, node, False, level + 1)}
    if op == "tvar-constr":
        return {"k": "typevar", "constraints": draw(st.permutations([derive(draw, node, False, level + 1), draw(LEAF)]))}
    if op == "arity":
        xs = list(node["a"])
        if len(xs) > 1 and draw(st.booleans()):
            xs = xs[:-1]
        elif len(xs) < 3:
            xs = xs + [draw(LEAF)]
        else:
            xs = xs[:-1]
        return {"k": "tuple", "a": xs}
    if op == "drop-member":
        xs = list(node["a"])
        xs.pop(draw(st.integers(0, len(xs) - 1)))
        return xs[0] if len(xs) == 1 else dict(node, a=xs)
    if op == "permute":
        return dict(node, a=draw(st.permutations(node["a"])))
    if op in ("strip", "strip-array"):
        return node["a"][0]
    raise AssertionError(op)


NOANN = {"k": "noannotation"}


@st.composite
def related_pair(draw):
    flip = draw(st.booleans())
    base = draw(ty(2, False))
    other = derive(draw, base, not flip, 0)
    a, b = (other, base) if flip else (base, other)
    r = draw(st.integers(0, 39))
    if r == 0:
        a = NOANN
    elif r == 1:
        b = NOANN
    return {"a": a, "b": b}


def pair_strategy():
    indep = st.fixed_dictionaries(
        {"a": st.one_of(*[ty(3, False)] * 9, st.just(NOANN)), "b": st.one_of(*[ty(3, True)] * 9, st.just(NOANN))}
    )
    return st.one_of(related_pair(), related_pair(), related_pair(), indep)


@st.composite
def laws_case(draw):
    a = draw(ty(2, False))
    how = draw(st.integers(0, 3))
    c = derive(draw, a, True, 1) if how else draw(ty(2, True))
    b = derive(draw, a, False, 1) if draw(st.booleans()) else draw(ty(2, False))
    return {
        "a": a,
        "b": b,
        "c": c,
        "x": draw(ty(1, True)),
        "m": draw(META),
        "ctor": draw(st.sampled_from(sorted(CTORS))),
    }


# -- exhaustive depth-1 grammar
def depth1_grammar(leaves, triple_leaves, req: bool):
    res = list(leaves)
    res += [{"k": "list", "a": [x]} for x in leaves]
    res += [{"k": "set", "a": [x]} for x in leaves]
    res += [{"k": "tuple", "a": [x]} for x in leaves]
    res += [{"k": "tuple", "a": [x, y]} for x in leaves for y in leaves]
    res += [{"k": "tuple", "a": [x, y, z]} for x in triple_leaves for y in triple_leaves for z in triple_leaves]
    res += [{"k": "dict", "a": [x, y]} for x in leaves for y in leaves]
    res += [{"k": "union", "a": [x, y]} for x, y in itertools.combinations(leaves, 2)]
    res += [{"k": "annotated", "a": [x], "m": 3} for x in leaves]
    res += [{"k": "array", "a": [x]} for x in leaves]
    res.append(NOANN)
    if req:
        res.append({"k": "typevar"})
        res += [{"k": "typevar", "bound": x} for x in leaves]
        res += [{"k": "typevar", "constraints": [x, y]} for x, y in itertools.combinations(leaves, 2)]
    return res


def enum_depth1():
    leaves = LEAF_LIST
    tl = [{"k": "int"}, {"k": "bool"}, {"k": "str"}]
    srcs, reqs = depth1_grammar(leaves, tl, False), depth1_grammar(leaves, tl, True)
    for a in srcs:
        for b in reqs:
            yield {"a": a, "b": b}


def enum_depth2():
    """Thorough only: all ordered pairs of a depth-2 grammar over leaves {int,bool,Any} and list/tuple/union/Annotated/Array."""
    lv = [{"k": "int"}, {"k": "bool"}, {"k": "any"}]

    def level(prev):
        res = list(prev)
        res += [{"k": "list", "a": [x]} for x in prev]
        res += [{"k": "tuple", "a": [x]} for x in prev]
        res += [{"k": "tuple", "a": [x, y]} for x in prev for y in lv]
        res += [{"k": "union", "a": [x, y]} for x, y in itertools.combinations(prev, 2) if "union" not in (x["k"], y["k"])]
        res += [{"k": "annotated", "a": [x], "m": 3} for x in prev]
        res += [{"k": "array", "a": [x]} for x in prev]
        return res

    g = level(level(lv))
    for a in g:
        for b in g:
            yield {"a": a, "b": b}


# -- pipelines
MODES = {
    # mode: (f params, f mapspec (with {outs}), g extra params, g mapspec, [h variants: (params, mapspec)])
    "direct": (["x"], None, [], None, [(["y", "z"], None)]),
    "elementwise": (
        ["x"], "x[i] -> {y}", [], "y[i] -> z[i]",
        [(["y", "z"], None), (["y", "z"], "y[i], z[i] -> u[i]"), (["y", "z"], "z[i] -> u[i]")],
    ),
    "reduce-whole": (["x"], "x[i] -> {y}", [], None, [(["y", "z"], None)]),
    "reduce-colon": (
        ["x"], "x[i] -> {y}", ["w"], "y[:], w[j] -> z[j]",
        [(["y", "z"], None), (["y", "z"], "z[j] -> u[j]")],
    ),
    "reduce-partial": (
        ["x", "v"], "x[i], v[j] -> {y2d}", [], "y[i, :] -> z[i]",
        [(["y", "z"], None), (["y", "z"], "y[i, j], z[i] -> u[i, j]"), (["y", "z"], "y[i, :], z[i] -> u[i]")],
    ),
}


def _is_objarray_like(r) -> bool:
    """The built annotation is (Annotated over) the plain object ndarray type, e.g. also Array[int] | Array[int]."""
    t = build(r)
    while typing.get_origin(t) is Annotated:
        t = typing.get_args(t)[0]
    return t == OBJARRAY_T


@st.composite
def edge_required(draw, src, reduced: bool):
    """Required annotation for an edge whose (unwrapped) source recipe is ``src``."""
    if src["k"] == "noannotation":
        return draw(st.one_of(ty(1, True), st.just(NOANN)))
    r = draw(st.integers(0, 19))
    if r == 0:
        return NOANN
    if not reduced:
        return derive(draw, src, True, 0) if r < 17 else draw(ty(2, True))
    el = derive(draw, src, True, 1) if depth(src) <= 1 else src
    arr = {"k": "array", "a": [el]}
    if r < 9:
        return arr
    if r < 11:
        return {"k": "objarray"}
    if r < 13:
        return {"k": "annotated", "a": [arr], "m": draw(META)}
    if r < 15:
        return {"k": "union", "a": draw(st.permutations([arr, draw(LEAF)])), "bar": draw(st.booleans())}
    if r < 16:
        return {"k": "any"}
    if r < 17:
        return {"k": "typevar", "bound": arr}
    if r < 19:
        return el  # forgot the Array wrapper
    return {"k": "list", "a": [el]}


@st.composite
def pipeline_case(draw):
    mode = draw(st.sampled_from(sorted(MODES)))
    fparams, fms, gextra, gms, hvars = MODES[mode]
    multi = draw(st.integers(0, 3)) == 0
    three = draw(st.booleans())
    mapped_f = fms is not None

    def ret(no_array: bool):
        if draw(st.integers(0, 11)) == 0:
            return NOANN
        r = draw(ty(2, False))
        if no_array and _is_objarray_like(r):
            r = {"k": "list", "a": [r]} if depth(r) < 3 else {"k": "int"}
        return r

    leafann = st.one_of(LEAF, st.just(NOANN))
    # f
    ry = ret(mapped_f)
    outs = ["y", "y2"] if multi else "y"
    if multi:
        ry2 = ret(mapped_f)
        fret = NOANN if NOANN in (ry, ry2) else {"k": "tuple", "a": [ry, ry2]}
        if fret is NOANN:
            ry = ry2 = NOANN
    else:
        ry2, fret = None, ry
    f = {"name": "f", "params": [[p, draw(leafann)] for p in fparams], "ret": fret, "out": outs}
    if fms:
        idx = "[i, j]" if "{y2d}" in fms else "[i]"
        names = ", ".join(o + idx for o in (outs if multi else [outs]))
        f["mapspec"] = fms.replace("{y}", names).replace("{y2d}", names)
    # g consumes y
    g_in = parse_mapspec(gms)[0] if gms else None
    y_red_g = mapped_f and (g_in is None or "y" not in g_in or ":" in g_in["y"])
    mapped_g = gms is not None
    rz = ret(mapped_g)
    rename = draw(st.integers(0, 4)) == 0
    g = {
        "name": "g",
        "params": [["q" if rename else "y", draw(edge_required(ry, y_red_g))]] + [[p, draw(leafann)] for p in gextra],
        "ret": rz,
        "out": "z",
    }
    if rename:
        g["renames"] = {"q": "y"}
    if gms:
        g["mapspec"] = gms
    funcs = [f, g]
    if three:
        hp, hms = draw(st.sampled_from(hvars))
        h_in = parse_mapspec(hms)[0] if hms else None

        def red(name, mapped):
            return mapped and (h_in is None or name not in h_in or ":" in h_in[name])

        params = [["y", draw(edge_required(ry, red("y", mapped_f)))], ["z", draw(edge_required(rz, red("z", mapped_g)))]]
        if multi and draw(st.booleans()):
            # y2 has the same axes as y: use it exactly like y in h's MapSpec (or not at all)
            params.append(["y2", draw(edge_required(ry2, red("y", mapped_f)))])
            if hms and "y[" in hms:
                spec_y = re.search(r"y\[[^\]]*\]", hms).group(0)
                hms = hms.replace(spec_y, spec_y + ", " + spec_y.replace("y[", "y2[", 1), 1)
        h = {"name": "h", "params": params, "ret": ret(False), "out": "u"}
        if hms:
            h["mapspec"] = hms
        funcs.append(h)
    validate = draw(st.sampled_from([True, True, True, True, False]))
    out_rename = draw(st.sampled_from([None, None, "plain", "swap"]))
    if out_rename == "plain":
        f["out_py"] = ["w", "w2"] if multi else ["w"]
    elif out_rename == "swap" and multi:
        f["out_py"] = ["y2", "y"]  # the outputs exchange their names: the tuple members stay with their positions
    return {"mode": mode, "funcs": funcs, "validate": validate}


def _base_campaigns(tier):
    cs = [
        Campaign("pairs", body_pair, pair_strategy(), quick=16000, thorough=300000,
                 describe="is_type_compatible(A,B) == ref(A,B) on independent and related pairs, depth <= 3"),
        Campaign("laws", body_laws, laws_case(), quick=5000, thorough=80000,
                 describe="reflexivity, union introduction/elimination, covariance, Annotated transparency (implementation only)"),
        Campaign("depth1", body_pair, enumerate=enum_depth1, quick=0, thorough=0, exhaustive=True,
                 describe="all ordered pairs of the depth-1 grammar over 8 leaves (3-tuples over int/bool/str)"),
        Campaign("pipelines", body_pipeline, pipeline_case(), quick=5000, thorough=80000,
                 describe="2-3 function pipelines: direct / element-wise / reductions; TypeError iff an incompatible edge"),
    ]  # fmt: skip
    if tier == "thorough":
        cs.append(
            Campaign("depth2", body_pair, enumerate=enum_depth2, quick=0, thorough=0, exhaustive=True,
                     describe="all ordered pairs of the depth-2 grammar over {int,bool,Any} x list/tuple/union/Annotated/Array")
        )  # fmt: skip
    return cs


def _has_annotated_union(node) -> bool:
    """an Annotated[...] recipe node whose (possibly again annotated) primary type is a Union"""
    if isinstance(node, dict):
        if node.get("k") == "annotated":
            inner = (node.get("a") or [None])[0]
            while isinstance(inner, dict) and inner.get("k") == "annotated":
                inner = (inner.get("a") or [None])[0]
            if isinstance(inner, dict) and inner.get("k") == "union":
                return True
        return any(_has_annotated_union(v) for v in node.values())
    if isinstance(node, list):
        return any(_has_annotated_union(v) for v in node)
    return False


def _pred_annotated_union_source(case, failure) -> bool:
    """C16-Annotated-union-source-not-split in any disguise: the *source* side contains Annotated[A | B, m]; the
    bucket-naming model of this check sometimes attributes such a case to another (already repaired) deviation."""
    if not (failure.bucket.startswith("DEV-") or "compat-mismatch" in failure.bucket or failure.bucket.startswith("law-") or failure.bucket.startswith("pipeline-")):
        return False
    d = case["data"]
    src = d.get("a") if "a" in d else [f.get("ret") for f in d.get("funcs", [])] if "funcs" in d else d
    return _has_annotated_union(src)


def _has_constrained_typevar(node) -> bool:
    if isinstance(node, dict):
        if node.get("k") == "typevar" and node.get("constraints"):
            return True
        return any(_has_constrained_typevar(v) for v in node.values())
    if isinstance(node, list):
        return any(_has_constrained_typevar(v) for v in node)
    return False


def _pred_constrained_typevar_required(case, failure) -> bool:
    """C16-constrained-TypeVar-miss-falls-through in any disguise: the *required* side contains a constrained TypeVar
    (a miss does not return False but falls through to weaker comparisons, so incompatible sources are accepted)."""
    if not (failure.bucket.startswith("DEV-") or "compat-mismatch" in failure.bucket or failure.bucket.startswith("law-") or failure.bucket.startswith("pipeline")):
        return False
    d = case["data"]
    req = d.get("b") if "b" in d else [p[1] for f in d.get("funcs", []) for p in f.get("params", [])] if "funcs" in d else d
    return _has_constrained_typevar(req)


PREDICATES = {
    "annotated_union_on_source_side": _pred_annotated_union_source,
    "constrained_typevar_on_required_side": _pred_constrained_typevar_required,
}


def campaigns(tier):
    camps = list(_base_campaigns(tier))
    if tier == "thorough":  # coverage-guided search over the same structured cases (fuzz/hyp_fuzz.py)
        from vlib.core import cov_fuzz_campaign

        camps.append(cov_fuzz_campaign(PID, [('laws', 40000), ('pairs', 60000), ('pipelines', 20000)]))
    return camps

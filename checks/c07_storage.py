"""C07 -- every storage backend behaves as a masked n-d object array (DESIGN.md section 4, C07)."""

from __future__ import annotations

import gc
import os
import itertools

import numpy as np
from hypothesis import strategies as st

from vlib import boot
from vlib.core import Campaign, Outcome, exc_bucket, exc_detail

from pipefunc.map._storage_array._base import storage_registry

PID = "C07"
LEVEL = "exploration"
RULE = (
    "Operation histories (dump with int/negative/slice external keys and list/ndarray blocks, __getitem__ with "
    "full-rank int/negative/slice keys incl. negative steps, to_array with/without splat_internal, mask, "
    "mask_linear, has_index, get_from_index, persist+reopen, out-of-range and wrong-rank keys) over every geometry "
    "of rank 1-3, sizes 1-3 and every external/internal mask, applied to every class in storage_registry and to a "
    "reference masked NumPy object array; after every step each backend is compared with the reference. "
    "Exhaustive campaign: for all geometries of rank <= 2 with sizes <= 2 (thorough: rank 3 sizes <= 2, rank 2 "
    "sizes <= 3), every subset of written external positions and every key tuple over {ints, negative ints, ':', "
    "'0:1', '1:', '::-1', '::2', first out-of-range int} (external shapes with more than 4 positions: a fixed family of "
    "written-sets - none, all, singles, all-but-one, stripes, halves - instead of every subset). Non-trivial = geometry with an internal axis and two axes "
    "of different size, history with >= 1 slice key and >= 1 read of an unwritten position; distinct by sha1 of the "
    "history (exhaustive campaign: per (geometry, written-set))."
)
ASSUMPTIONS = [
    "reference semantics = NumPy basic indexing on a masked object array",
    "maskedness is normalised: an element counts as masked if it is numpy.ma.masked or lies under a true mask",
    "get_from_index on an unwritten index and linear indices outside 0..N-1 are not exercised (unspecified)",
    "reopen is only exercised after persist() (memory backends without persist have nothing to reopen)",
    "zarr backends are not registered in this environment (zarr import blocked, see DESIGN.md section 1)",
]

M = "<M>"


# ---- helpers ------------------------------------------------------------------------------------
def dec_key(k):
    return tuple(slice(*x["s"]) if isinstance(x, dict) else x for x in k)


def norm(v):
    """Nested-list normal form with masked elements rendered as M; returns (shape, nested)."""
    if v is np.ma.masked:
        return ((), M)
    if isinstance(v, np.ma.MaskedArray):
        data = np.asarray(v.data, dtype=object)
        mask = np.ma.getmaskarray(v)
        outv = np.empty(data.shape, dtype=object)
        for idx in np.ndindex(*data.shape):
            outv[idx] = M if (mask[idx] or data[idx] is np.ma.masked) else _leaf(data[idx])
        return (tuple(data.shape), outv.tolist())
    if isinstance(v, np.ndarray):
        outv = np.empty(v.shape, dtype=object)
        for idx in np.ndindex(*v.shape):
            outv[idx] = M if v[idx] is np.ma.masked else _leaf(v[idx])
        return (tuple(v.shape), outv.tolist() if v.shape else outv[()])
    return ((), _leaf(v))


def _leaf(x):
    if x is np.ma.masked:
        return M
    if isinstance(x, np.ma.MaskedArray):
        return norm(x)[1]
    if isinstance(x, np.ndarray):
        return norm(x)[1]
    if isinstance(x, (list, tuple)):
        return [_leaf(y) for y in x]
    return x


class Ref:
    def __init__(self, sizes, mask):
        self.sizes = tuple(sizes)
        self.mask = tuple(mask)
        self.ext_shape = tuple(s for s, m in zip(sizes, mask) if m)
        self.int_shape = tuple(s for s, m in zip(sizes, mask) if not m)
        self.data = np.empty(self.sizes, dtype=object)
        self.written = np.zeros(self.ext_shape, dtype=bool)
        self.blocks: dict = {}

    def merge(self, e, i):
        e, i = iter(e), iter(i)
        return tuple(next(e) if m else next(i) for m in self.mask)

    def ext_positions(self, key):
        rngs = [range(n)[k] if isinstance(k, slice) else [range(n)[k]] for k, n in zip(key, self.ext_shape)]
        return list(itertools.product(*rngs))

    def dump(self, key, block):
        for e in self.ext_positions(key):
            self.written[e] = True
            self.blocks[e] = block
            if self.int_shape:
                arr = np.asarray(block, dtype=object)
                for i in np.ndindex(*self.int_shape):
                    self.data[self.merge(e, i)] = arr[i]
            else:
                self.data[e] = block

    def masked(self):
        fm = np.empty(self.sizes, dtype=bool)
        for e in np.ndindex(*self.ext_shape):
            for i in np.ndindex(*self.int_shape):
                fm[self.merge(e, i)] = not self.written[e]
        return np.ma.MaskedArray(self.data.copy(), mask=fm, dtype=object)


def make_block(int_shape, tag, kind):
    if not int_shape:
        # without internal axes an element is an arbitrary object: a string, or a (same length) list of strings
        # ... or None (a function that legitimately returns None for this element)
        return None if kind == "none" else [tag + "/0", tag + "/1"] if kind == "list" else tag
    arr = np.empty(int_shape, dtype=object)
    for i in np.ndindex(*int_shape):
        arr[i] = f"{tag}@{','.join(map(str, i))}"
    if kind == "none":
        arr[(0,) * len(int_shape)] = None
        return arr
    return arr.tolist() if kind == "list" else arr


def open_store(cls, folder, ref: Ref):
    return cls(folder, ref.ext_shape, ref.int_shape, ref.mask)


def compare(out: Outcome, tag: str, backend: str, got, want, geom_label: str):
    g, w = norm(got), norm(want)
    if g != w:
        kind = "shape" if g[0] != w[0] else "value"
        out.fail(f"{_strip(tag)}-{kind}:{backend}:{geom_label}", f"[{tag}] got {g} want {w}")
        return False
    return True


def geom_label(mask) -> str:
    """Structural class of the geometry used in bucket names (root-cause oriented)."""
    if all(mask):
        return "all-external"
    if not any(mask):
        return "all-internal"
    first_int = mask.index(False)
    if any(mask[first_int:]):
        return "internal-before-external"
    return "internal-trailing"


def _strip(tag: str) -> str:
    for pre in ("final-", "after-debris-", "after-dump-", "after-reopen-", "after-bad-dump-", "tiny-state-", "tiny-after-dump-", "state-"):
        if tag.startswith(pre):
            return tag[len(pre):]
    return tag


def _call(out, tag, backend, glabel, fn):
    try:
        return True, fn()
    except Exception as e:
        out.fail(exc_bucket(e, f"{_strip(tag)}-raised:{backend}:{glabel}"), f"[{tag}] " + exc_detail(e))
        return False, None


def full_check(out, stores, ref: Ref, glabel, tag="state"):
    """Compare complete observable state of every backend with the reference."""
    want_full = ref.masked()
    notw = ~ref.written
    for name, s in stores.items():
        if ref.int_shape:
            ok, got = _call(out, f"{tag}-to_array", name, glabel, lambda: s.to_array())
            if ok:
                compare(out, f"{tag}-to_array", name, got, want_full, glabel)
        ok, got = _call(out, f"{tag}-to_array-nosplat", name, glabel, lambda: s.to_array(splat_internal=False))
        if ok:
            want = np.empty(ref.ext_shape, dtype=object)
            for e in np.ndindex(*ref.ext_shape):
                want[e] = ref.blocks[e] if ref.written[e] else np.ma.masked
            g = norm(got)
            w = (tuple(ref.ext_shape), _nest(want, ref))
            if g != w:
                out.fail(f"to_array-nosplat-{'shape' if g[0] != w[0] else 'value'}:{name}:{glabel}", f"[{tag}] got {g} want {w}")
        ok, got = _call(out, f"{tag}-mask", name, glabel, lambda: s.mask)
        if ok:
            gm = np.asarray(np.ma.getdata(got), dtype=bool)
            if gm.shape != notw.shape or (gm != notw).any():
                out.fail(f"mask:{name}:{glabel}", f"[{tag}] got {gm.tolist()} want {notw.tolist()}")
        ok, got = _call(out, f"{tag}-mask_linear", name, glabel, lambda: s.mask_linear())
        if ok and [bool(x) for x in got] != [bool(x) for x in notw.flat]:
            out.fail(f"mask_linear:{name}:{glabel}", f"[{tag}] got {list(got)} want {notw.flatten().tolist()}")


def _nest(want, ref):
    outv = np.empty(want.shape, dtype=object)
    for e in np.ndindex(*want.shape):
        outv[e] = M if want[e] is np.ma.masked else _leaf(want[e])
    return outv.tolist() if want.shape else outv[()]


# ---- history campaign -----------------------------------------------------------------------------
def _backends(which):
    names = sorted(storage_registry)
    if which == "no-shared":
        names = [n for n in names if "shared" not in n]
    return names


def body_history(data) -> Outcome:
    out = Outcome()
    sizes, mask, ops = data["sizes"], data["mask"], data["ops"]
    ref = Ref(sizes, mask)
    glabel = geom_label(tuple(mask))
    out.labels = [glabel, f"rank{len(sizes)}"]
    names = _backends(data.get("backends", "all"))
    folders = {n: boot.fresh_path(f"c07-{n}") for n in names}
    stores = {}
    try:
        for n in names:
            try:
                stores[n] = open_store(storage_registry[n], folders[n], ref)
            except Exception as e:
                out.fail(exc_bucket(e, f"open-raised:{n}:{glabel}"), exc_detail(e))
        names = list(stores)
        n_dump = 0
        saw_slice = saw_unwritten_read = False
        every = data.get("observe", "every-step") == "every-step"
        out.labels.append("observe:" + data.get("observe", "every-step"))

        def step_check(visible, tag):
            if every:
                full_check(out, visible, ref, glabel, tag)

        for op in ops:
            kind = op["op"]
            if kind == "dump":
                key = dec_key(op["key"])
                n_dump += 1
                blk = make_block(ref.int_shape, f"t{n_dump}", op["kind"])
                saw_slice |= any(isinstance(k, slice) for k in key)
                for n in names:
                    _call(out, "dump", n, glabel, lambda: stores[n].dump(key, make_block(ref.int_shape, f"t{n_dump}", op["kind"])))
                ref.dump(key, blk)
                step_check({n: stores[n] for n in names}, "after-dump")
            elif kind == "get":
                key = dec_key(op["key"])
                saw_slice |= any(isinstance(k, slice) for k in key)
                want = ref.masked()[key]
                if norm(want)[1] == M or (isinstance(norm(want)[1], list) and M in str(norm(want)[1])):
                    saw_unwritten_read = True
                for n in names:
                    ok, got = _call(out, "getitem", n, glabel, lambda: stores[n][key])
                    if ok:
                        compare(out, "getitem", n, got, want, glabel)
            elif kind == "index":
                size = int(np.prod(ref.ext_shape)) if ref.ext_shape else 1
                i = op["i"] % size
                e = np.unravel_index(i, ref.ext_shape) if ref.ext_shape else ()
                e = tuple(int(x) for x in e)
                w = bool(ref.written[e])
                for n in names:
                    ok, got = _call(out, "has_index", n, glabel, lambda: stores[n].has_index(i))
                    if ok and bool(got) != w:
                        out.fail(f"has_index:{n}:{glabel}", f"index {i}: got {got} want {w}")
                    if w:
                        ok, got = _call(out, "get_from_index", n, glabel, lambda: stores[n].get_from_index(i))
                        if ok and _leaf(got) != _leaf(ref.blocks[e]):
                            out.fail(f"get_from_index:{n}:{glabel}", f"index {i}: got {_leaf(got)} want {_leaf(ref.blocks[e])}")
            elif kind == "debris":
                # what a writer that died inside dump() leaves behind: the temporary file of an element
                if "file_array" in names and os.path.isdir(folders["file_array"]):
                    size = int(np.prod(ref.ext_shape)) if ref.ext_shape else 1
                    with open(os.path.join(folders["file_array"], f".__{op['i'] % size}__.pickle.4242.tmp"), "wb") as fh:
                        fh.write(b"\x80\x05partial")
                    out.labels.append("debris-of-an-interrupted-dump")
                    step_check({n: stores[n] for n in names}, "after-debris")
            elif kind == "reopen":
                for n in names:
                    ok, _ = _call(out, "persist", n, glabel, lambda: stores[n].persist())
                    if not ok:
                        continue
                    ok, s2 = _call(out, "reopen", n, glabel, lambda: open_store(storage_registry[n], folders[n], ref))
                    if ok:
                        stores[n] = s2
                visible = {n: stores[n] for n in names}
                step_check(visible, "after-reopen")
            elif kind in ("bad_get", "bad_dump"):
                rank = len(sizes) if kind == "bad_get" else len(ref.ext_shape)
                shape = ref.sizes if kind == "bad_get" else ref.ext_shape
                key = list(dec_key(op["key"]))[:rank]
                key += [0] * (rank - len(key))
                why = op["why"]
                if why == "rank+":
                    key.append(0)
                elif why == "rank-":
                    if not key:
                        continue
                    key.pop()
                else:
                    if not rank:
                        continue
                    ax = op["axis"] % rank
                    key[ax] = shape[ax] + op["off"] if why == "hi" else -shape[ax] - 1 - op["off"]
                key = tuple(key)
                for n in names:
                    try:
                        if kind == "bad_get":
                            r = stores[n][key]
                        else:
                            r = stores[n].dump(key, make_block(ref.int_shape, "bad", "ndarray"))
                        out.fail(f"{kind}-accepted-{why}:{n}:{glabel}", f"key {key} sizes {sizes} mask {mask} -> {norm(r) if kind == 'bad_get' else 'stored'}")
                    except IndexError:
                        pass
                    except Exception as e:
                        out.fail(exc_bucket(e, f"{kind}-wrong-exception-{why}:{n}:{glabel}"), exc_detail(e))
                if kind == "bad_dump":
                    step_check({n: stores[n] for n in names}, "after-bad-dump")
        if not every:
            full_check(out, {n: stores[n] for n in names}, ref, glabel, "final")
        diff_sizes = len(set(sizes)) >= 2
        out.nontrivial = bool(ref.int_shape) and diff_sizes and saw_slice and saw_unwritten_read
    finally:
        stores.clear()
        gc.collect()
        for f in folders.values():
            boot.rm(f)
    return out


def _axis_key(n):
    ints = st.integers(-n, n - 1)
    bound = st.one_of(st.none(), st.integers(-n - 1, n + 1))
    sl = st.tuples(bound, bound, st.sampled_from([None, None, 1, 2, -1, -2])).map(lambda t: {"s": list(t)})
    return st.one_of(ints, ints, sl)


@st.composite
def histories(draw):
    rank = draw(st.integers(1, 3))
    sizes = [draw(st.integers(1, 3)) for _ in range(rank)]
    mask = [draw(st.booleans()) for _ in range(rank)]
    ext = [s for s, m in zip(sizes, mask) if m]
    n_ops = draw(st.integers(1, 14))
    ops = []
    for _ in range(n_ops):
        kind = draw(st.sampled_from(["dump", "dump", "dump", "get", "get", "get", "index", "reopen", "bad_get", "bad_dump",
                                     "dump", "get", "debris"]))  # fmt: skip
        if kind == "dump":
            ops.append({"op": "dump", "key": [draw(_axis_key(n)) for n in ext], "kind": draw(st.sampled_from(["list", "ndarray", "none"]))})
        elif kind == "get":
            ops.append({"op": "get", "key": [draw(_axis_key(n)) for n in sizes]})
        elif kind == "index":
            ops.append({"op": "index", "i": draw(st.integers(0, 26))})
        elif kind == "debris":
            ops.append({"op": "debris", "i": draw(st.integers(0, 26))})
        elif kind == "reopen":
            ops.append({"op": "reopen"})
        else:
            shape = sizes if kind == "bad_get" else ext
            ops.append({"op": kind, "key": [draw(st.integers(0, n - 1)) for n in shape],
                        "why": draw(st.sampled_from(["hi", "lo", "rank+", "rank-"])),
                        "axis": draw(st.integers(0, 2)), "off": draw(st.integers(0, 2))})  # fmt: skip
    backends = draw(st.sampled_from(["all", "no-shared", "no-shared", "no-shared"]))
    # observe="every-step": the complete observation after every mutation; "explicit": only the history's own get/index
    # operations read between mutations (a read can itself change a lazily loading backend), the complete
    # observation comes once at the end
    observe = draw(st.sampled_from(["every-step", "explicit", "explicit"]))
    return {"sizes": sizes, "mask": mask, "ops": ops, "backends": backends, "observe": observe}


# ---- exhaustive campaign ----------------------------------------------------------------------------
def _alphabet(n):
    ks = list(range(n)) + list(range(-n, 0))
    ks += [{"s": [None, None, None]}, {"s": [0, 1, None]}, {"s": [1, None, None]}, {"s": [None, None, -1]}, {"s": [None, None, 2]}]
    return ks


def enum_tiny(tier):
    def gen():
        geoms = []
        if tier == "quick":
            specs = [(r, 2) for r in (1, 2)]
        else:
            specs = [(1, 3), (2, 3), (3, 2)]
        for rank, maxs in specs:
            for sizes in itertools.product(range(1, maxs + 1), repeat=rank):
                for mask in itertools.product([True, False], repeat=rank):
                    geoms.append((list(sizes), list(mask)))
        for sizes, mask in geoms:
            ext = [s for s, m in zip(sizes, mask) if m]
            positions = list(itertools.product(*map(range, ext)))
            npos = len(positions)
            if npos <= 4:
                patterns = range(2**npos)
            else:  # representative written-sets for larger external shapes (all / none / singles / stripes / halves)
                full = 2**npos - 1
                patterns = sorted({0, full, 0x55555555 & full, 0xAAAAAAAA & full, full >> (npos // 2), full & ~(full >> (npos // 2)),
                                   *[1 << k for k in range(npos)], *[full & ~(1 << k) for k in range(npos)]})
            for bits in patterns:
                yield {"sizes": sizes, "mask": mask, "written": [list(p) for k, p in enumerate(positions) if bits >> k & 1]}

    return gen


def body_tiny(data) -> Outcome:
    out = Outcome()
    sizes, mask = data["sizes"], data["mask"]
    glabel = geom_label(tuple(mask))
    out.labels = [glabel]
    ref = Ref(sizes, mask)
    names = [n for n in sorted(storage_registry) if "shared" not in n]
    folders = {n: boot.fresh_path(f"c07t-{n}") for n in names}
    stores = {}
    units = 0
    try:
        for n in names:
            stores[n] = open_store(storage_registry[n], folders[n], ref)
        for k, e in enumerate(data["written"]):
            blk = make_block(ref.int_shape, f"w{k}", "ndarray" if k % 2 else "list")
            ref.dump(tuple(e), blk)
            for n in names:
                _call(out, "dump", n, glabel, lambda: stores[n].dump(tuple(e), make_block(ref.int_shape, f"w{k}", "ndarray" if k % 2 else "list")))
        full_check(out, stores, ref, glabel, "tiny-state")
        masked = ref.masked()
        # every full-rank read key over the alphabet (+ first out-of-range int per axis)
        alph = [_alphabet(n) + [n, -n - 1] for n in sizes]
        for key in itertools.product(*alph):
            units += 1
            k = dec_key(key)
            bad = any(isinstance(x, int) and not (-n <= x < n) for x, n in zip(k, sizes))
            for n in names:
                try:
                    got = stores[n][k]
                except IndexError as e:
                    if not bad:
                        out.fail(f"tiny-getitem-raised:{n}:{glabel}", f"{key}: {exc_detail(e)}")
                    continue
                except Exception as e:
                    out.fail(exc_bucket(e, f"tiny-getitem-raised:{n}:{glabel}"), f"{key}: {exc_detail(e)}")
                    continue
                if bad:
                    out.fail(f"tiny-getitem-accepted-out-of-range:{n}:{glabel}", f"{key} sizes {sizes}")
                else:
                    compare(out, "tiny-getitem", n, got, masked[k], glabel)
        # every external dump key over the alphabet, applied to a copy of the state
        ext = list(ref.ext_shape)
        alph = [_alphabet(n) + [n, -n - 1] for n in ext]
        for key in itertools.product(*alph) if ext else [()]:
            units += 1
            k = dec_key(key)
            bad = any(isinstance(x, int) and not (-n <= x < n) for x, n in zip(k, ext))
            ref2 = Ref(sizes, mask)
            ref2.data, ref2.written, ref2.blocks = ref.data.copy(), ref.written.copy(), dict(ref.blocks)
            if not bad:
                ref2.dump(k, make_block(ref.int_shape, "X", "ndarray"))
            st2 = {}
            f2 = {n: boot.fresh_path(f"c07u-{n}") for n in names}
            try:
                for n in names:
                    s = open_store(storage_registry[n], f2[n], ref)
                    for kk, e in enumerate(data["written"]):
                        _call(out, "dump", n, glabel, lambda: s.dump(tuple(e), make_block(ref.int_shape, f"w{kk}", "ndarray" if kk % 2 else "list")))
                    try:
                        s.dump(k, make_block(ref.int_shape, "X", "ndarray"))
                        if bad:
                            out.fail(f"tiny-dump-accepted-out-of-range:{n}:{glabel}", f"{key} ext {ext}")
                    except IndexError as e:
                        if not bad:
                            out.fail(f"tiny-dump-raised:{n}:{glabel}", f"{key}: {exc_detail(e)}")
                    except Exception as e:
                        out.fail(exc_bucket(e, f"tiny-dump-raised:{n}:{glabel}"), f"{key}: {exc_detail(e)}")
                    st2[n] = s
                full_check(out, st2, ref2, glabel, "tiny-after-dump")
            finally:
                st2.clear()
                for f in f2.values():
                    boot.rm(f)
        out.units = units
        out.nontrivial = bool(ref.int_shape) or len(sizes) >= 2
    finally:
        stores.clear()
        gc.collect()
        for f in folders.values():
            boot.rm(f)
    return out


def campaigns(tier):
    return [
        Campaign("history", body_history, histories(), quick=1600, thorough=24000,
                 describe="random operation histories on all registered backends"),
        Campaign("tiny", body_tiny, enumerate=enum_tiny(tier), quick=0, thorough=0, exhaustive=True,
                 describe="exhaustive key alphabets on tiny geometries (dict + file_array)"),
    ]  # fmt: skip


def _pred_nosplat_all_internal(case, failure) -> bool:
    """C07 finding: DictArray family, to_array(splat_internal=False) on a geometry without external axes."""
    b = failure.bucket
    return (
        b.startswith("to_array-nosplat-")
        and ":all-internal" in b
        and (":dict:" in b or ":shared_memory_dict:" in b)
        and not any(case["data"]["mask"])
    )


PREDICATES = {"dict_nosplat_all_internal": _pred_nosplat_all_internal}

"""C10 -- structural rewrites preserve what a pipeline computes (DESIGN.md section 4, C10).

A case is a program plus a sequence of <= 3 rewrite *recipes*.  The body keeps

* ``cur``    the pipeline being rewritten (built from the AST, never the object used as the metamorphic reference),
* ``State``  an independent structural model of ``cur``: one node per function (parameters, bound names, exposed
             outputs, python-level names) and the name map ``nm`` original name -> current name,
* ``frozen`` every pipeline that was the *input* of an operation documented to return a new pipeline, with its
             structural snapshot and sample outputs.

Expected values never come from ``cur``: they come from the reference evaluator (DagModel / MapSpec denotation)
on the original-name AST and from the untouched ORIGINAL pipeline objects.
"""

from __future__ import annotations

import copy as _copy
import itertools
import json

import numpy as np
from hypothesis import strategies as st

from vlib import boot  # noqa: F401
from vlib import mapprog as mp
from vlib.core import Campaign, Outcome, exc_bucket, exc_detail
from vlib.dag import DagModel, Missing, dag_programs, make_pipefunc
from vlib.dag import labels as dag_labels

PID = "C10"
LEVEL = "exploration"
RULE = (
    "Campaign dag: Hypothesis DagProgram (1-5 tracer functions over 1-4 roots: tuple outputs, diamonds, nullary, "
    "signature/PipeFunc defaults, bound values, initial renames) + a name-disjoint second DagProgram (all names "
    "prefixed) + a sequence of 1-3 rewrite recipes from {copy, cloudpickle round trip, join/| with the second program "
    "or 1-2 fresh PipeFuncs, update_renames (pipeline level or function by function; update_from current/original; "
    "plain or dotted targets), update_scope (inputs/outputs '*'/subset/None, exclude) and its removal, nest_funcs "
    "(set / '*') or NestedPipeFunc(...) on a convex single-leaf subset with new_output_name None/minimal/some/all in a "
    "drawn order, simplified_pipeline(out|None, conservatively_combine), split_disconnected, add_mapspec_axis(1-2 "
    "roots, axis=new)}; each recipe is resolved against an independent structural model that also carries the induced "
    "renaming. Oracle: after every step (eager cases) or only at the end (lazy cases) every retained output equals the "
    "reference DAG evaluator and the ORIGINAL pipeline object on the correspondingly renamed keyword arguments (dotted "
    "keys, nested dicts, mixed; root-only and with one supplied intermediate), and at the end under "
    "Pipeline.map(parallel=False) (after add_mapspec_axis: p=[v0..] gives, for every output depending on p, an array "
    "over the new axes whose slice n is the original result for p=v_n; all other outputs unchanged). "
    "split_disconnected must return exactly the model's connected components; simplified_pipeline must keep the "
    "requested output and may refuse only when no predecessor shares the target's root arguments. Non-interference: "
    "structural snapshot (output names, parameters, defaults, bound, renames, MapSpec) and sample outputs of every "
    "pipeline that was the input of copy/pickle/join/|/simplified_pipeline/split_disconnected/NestedPipeFunc(...) are "
    "equal before/after the operation, after all later rewrites and a final update_defaults+update_renames of the "
    "result; then each such input is itself mutated and the result must not change. Campaign map: small MapPrograms "
    "x 1-3 rewrites from {copy, pickle, rename, scope, unscope, join with an element-wise PipeFunc, "
    "add_mapspec_axis} checked under map against the MapSpec denotation and the original pipeline's own map. "
    "Non-trivial = (graph with a tuple-output or interior multi-consumer node and >= 2 applied rewrites) or a scoped "
    "call made with a nested dict; distinct by sha1 of the case."
)
ASSUMPTIONS = [
    "custom name-keyed output pickers are replaced by the default tuple picker: a picker receives the *renamed* output name, so a user picker keyed on names is outside what renaming can preserve",
    "function-level update_renames is applied to every function that mentions the name (renaming one mention only changes the graph and is not a semantics-preserving rewrite)",
    "pipeline-level update_renames(update_from='original') is only used for a python-level name that denotes one and the same pipeline name in every function that has it",
    "scope names never coincide with parameter/output names; rewrites never make two names equal (fresh targets, unique base names)",
    "nest_funcs/NestedPipeFunc only on >= 2 functions forming a convex subset with a single leaf; new_output_name always contains every output consumed outside the subset; never after add_mapspec_axis (MapSpec combination has its own documented restrictions)",
    "simplified_pipeline is not applied after add_mapspec_axis (documented NotImplementedError) and may refuse with 'No combinable nodes' unless a direct predecessor shares the target's root arguments",
    "add_mapspec_axis always introduces a NEW axis name on root arguments with a non-bound consumer; the order of axes of a lifted output is read from pipeline.mapspec_axes, only the set of axes is predicted",
    "after a function was nested, an intermediate produced inside a nest is no longer supplied by keyword (nesting documents no interception of inner values)",
    "data['around']=True cases construct around the confirmed defects (own buckets) so that exploration continues behind them; around=False cases are strict",
]

SCOPES = ["sA", "sB"]


def at_tuple(x):
    return x if isinstance(x, tuple) else (x,)


def base(n: str) -> str:
    return n.split(".", 1)[1] if "." in n else n


def bits(n: int, k: int) -> list[int]:
    return [i for i in range(k) if n >> i & 1]


# ------------------------------------------------------------------------------------------------
# AST helpers


def norm_prog(prog: dict) -> dict:
    prog = json.loads(json.dumps(prog))
    for fn in prog["funcs"]:
        if fn["picker"] == "dict":
            fn["picker"] = "tuple"
        fn["cache"] = False
    return prog


def prefix_prog(prog: dict, pre: str) -> dict:
    def r(n):
        return pre + n

    funcs = []
    for fn in prog["funcs"]:
        funcs.append(
            {
                "name": pre + fn["name"],
                "params": [r(p) for p in fn["params"]],
                "orig": [r(o) if o == p else o for o, p in zip(fn["orig"], fn["params"])],
                "outs": [r(o) for o in fn["outs"]],
                "orig_outs": [r(oo) if oo == o else oo for oo, o in zip(fn["orig_outs"], fn["outs"])],
                "sig_defaults": {r(k): v for k, v in fn["sig_defaults"].items()},
                "pf_defaults": {r(k): v for k, v in fn["pf_defaults"].items()},
                "bound": {r(k): v for k, v in fn["bound"].items()},
                "picker": fn["picker"],
                "cache": False,
            }
        )
    return {"roots": [r(x) for x in prog["roots"]], "funcs": funcs, "order": list(prog["order"])}


def build_dag(prog: dict, funcs=None):
    from pipefunc import Pipeline

    pfs = [make_pipefunc(fn, None) for fn in prog["funcs"]]
    return Pipeline([pfs[i] for i in prog["order"]])


# ------------------------------------------------------------------------------------------------
# structural model


class Node:
    __slots__ = ("members", "params", "bound", "outs", "py", "nested", "inner_bound", "leaf_multi", "out_renamed", "multi_member")

    def __init__(self, members, params, bound, outs, py):
        self.members = list(members)
        self.params = list(params)  # current names, bound ones included
        self.bound = set(bound)
        self.outs = list(outs)  # exposed current output names
        self.py = dict(py)  # python-level name (update_from="original") -> current name
        self.nested = False
        self.inner_bound: set[str] = set()  # names bound inside a nest (implementation exposes them as parameters)
        self.leaf_multi = False  # nested: the inner leaf is a tuple-output function
        self.out_renamed = False  # nested: an exposed output was renamed after nesting
        self.multi_member = False  # nested: contains a tuple-output function

    def free(self) -> list[str]:
        return [p for p in self.params if p not in self.bound]

    def names(self) -> list[str]:
        return list(dict.fromkeys(self.params + self.outs))

    def clone(self) -> "Node":
        n = Node(self.members, self.params, self.bound, self.outs, self.py)
        n.nested, n.inner_bound, n.leaf_multi = self.nested, set(self.inner_bound), self.leaf_multi
        n.out_renamed, n.multi_member = self.out_renamed, self.multi_member
        return n


def node_from_dag(fn: dict) -> Node:
    py = {o: p for o, p in zip(fn["orig"], fn["params"])}
    py.update({oo: o for oo, o in zip(fn["orig_outs"], fn["outs"])})
    return Node([fn["name"]], fn["params"], fn["bound"], fn["outs"], py)


def node_from_map(fn: dict) -> Node:
    names = [p["name"] for p in fn["params"]] + list(fn["outs"])
    return Node([fn["name"]], [p["name"] for p in fn["params"]], (), fn["outs"], {n: n for n in names})


class State:
    def __init__(self, nodes: list[Node]):
        self.nodes = nodes
        self.nm: dict[str, str] = {}
        for n in nodes:
            for x in n.names():
                self.nm[x] = x
        self.axes: list[dict] = []  # {"axis": name, "roots": [orig names], "n": N}
        self.opaque = False
        self.fresh = 0

    def clone(self) -> "State":
        s = State([])
        s.nodes = [n.clone() for n in self.nodes]
        s.nm = dict(self.nm)
        s.axes = _copy.deepcopy(self.axes)
        s.opaque = self.opaque
        s.fresh = self.fresh
        return s

    # --- queries
    def produced(self) -> dict[str, Node]:
        return {o: n for n in self.nodes for o in n.outs}

    def all_names(self) -> list[str]:
        return sorted({x for n in self.nodes for x in n.names()})

    def eff_roots(self) -> list[str]:
        prod = self.produced()
        return sorted({p for n in self.nodes for p in n.free() if p not in prod})

    def inv(self) -> dict[str, str]:
        return {v: k for k, v in self.nm.items()}

    def retained(self) -> list[str]:
        """original names of the outputs the current pipeline exposes"""
        inv = self.inv()
        return sorted(inv[o] for o in self.produced())

    def deps(self, n: Node) -> list[Node]:
        prod = self.produced()
        out = []
        for p in n.free():
            m = prod.get(p)
            if m is not None and m is not n and m not in out:
                out.append(m)
        return out

    def ancestors(self, n: Node) -> list[Node]:
        seen: list[Node] = []
        stack = [n]
        while stack:
            x = stack.pop()
            for d in self.deps(x):
                if d not in seen:
                    seen.append(d)
                    stack.append(d)
        return seen

    def root_args(self, n: Node) -> set[str]:
        prod = self.produced()
        ra = set()
        for x in [n, *self.ancestors(n)]:
            ra |= {p for p in x.free() if p not in prod}
        return ra

    def leaves(self, nodes=None) -> list[Node]:
        nodes = self.nodes if nodes is None else nodes
        used = set()
        for n in nodes:
            for d in self.deps(n):
                if d in nodes:
                    used.add(id(d))
        return [n for n in nodes if id(n) not in used]

    def components(self) -> list[list[Node]]:
        parent = list(range(len(self.nodes)))

        def find(i):
            while parent[i] != i:
                parent[i] = parent[parent[i]]
                i = parent[i]
            return i

        owner: dict[str, int] = {}
        for i, n in enumerate(self.nodes):
            for x in n.free() + n.outs:
                if x in owner:
                    parent[find(i)] = find(owner[x])
                else:
                    owner[x] = i
        groups: dict[int, list[Node]] = {}
        for i, n in enumerate(self.nodes):
            groups.setdefault(find(i), []).append(n)
        return list(groups.values())

    def has_nested(self) -> bool:
        return any(n.nested for n in self.nodes)

    def axis_roots(self) -> set[str]:
        return {r for a in self.axes for r in a["roots"]}

    # --- updates
    def rename(self, old: str, new: str) -> None:
        if old == new:
            return
        for n in self.nodes:
            if n.nested and old in n.outs:
                n.out_renamed = True
            n.params = [new if p == old else p for p in n.params]
            n.outs = [new if p == old else p for p in n.outs]
            if old in n.bound:
                n.bound.discard(old)
                n.bound.add(new)
            if old in n.inner_bound:
                n.inner_bound.discard(old)
                n.inner_bound.add(new)
            n.py = {k: (new if v == old else v) for k, v in n.py.items()}
        for k, v in list(self.nm.items()):
            if v == old:
                self.nm[k] = new

    def restrict(self, nodes: list[Node]) -> None:
        self.nodes = list(nodes)
        keep = {x for n in nodes for x in n.names()}
        self.nm = {k: v for k, v in self.nm.items() if v in keep}

    def new_name(self) -> str:
        self.fresh += 1
        return f"n{self.fresh}"


# ------------------------------------------------------------------------------------------------
# calling conventions


def restyle(kw: dict, style: str) -> dict:
    if style == "dotted":
        return dict(kw)
    out: dict = {}
    seen: set[str] = set()
    for k, v in kw.items():
        if "." in k:
            sc, name = k.split(".", 1)
            if style == "mixed" and sc in seen:
                out[k] = v  # the second and later names of a scope stay dotted
            else:
                out.setdefault(sc, {})[name] = v
                seen.add(sc)
        else:
            out[k] = v
    return out


def snapshot(p) -> list[str]:
    rows = []
    for f in p.functions:
        try:
            rows.append(
                json.dumps(
                    [
                        list(at_tuple(f.output_name)),
                        list(f.parameters),
                        sorted((k, str(v)) for k, v in f.defaults.items()),
                        sorted((k, str(v)) for k, v in f.bound.items()),
                        sorted(f.renames.items()),
                        str(f.mapspec),
                    ]
                )
            )
        except Exception as e:  # a snapshot never raises
            rows.append(f"EXC:{type(e).__name__}:{e}"[:200])
    return sorted(rows)


# ------------------------------------------------------------------------------------------------
# case context


class Ctx:
    def __init__(self, kind: str, out: Outcome, data: dict):
        self.kind = kind
        self.out = out
        self.pick = data["pick"]
        self.around = bool(data["around"])
        self.eager = bool(self.pick & 1)
        self.applied: list[str] = []
        self.frozen: list[dict] = []
        self.gs: list = []
        self.labels: list[str] = []
        self.nested_dict_call = False
        self.units = 0
        self.p2_in = False
        self.n_join = 0
        self.sources: list = []  # (pipeline object, set of original output names)
        self.src_checked: set = set()
        self.ext: dict = {}
        self._model = None
        self.state: State = None  # type: ignore[assignment]
        self.cur = None
        self.map_base_inputs: dict = {}
        self.broken = False
        self.unpickled = False  # ctx.cur came out of cloudpickle.loads and no new Pipeline object was built since
        self.frozen_pending: dict = {}
        self.prog2: dict = {}
        self.prog0: dict = {}
        self.orig_map: dict = {}
        self.orig_inputs: set = set()
        self.orig_pipe = None

    # ---- reference
    def model(self) -> DagModel:
        if self._model is None:
            self._model = DagModel(self.ext)
        return self._model

    def ext_changed(self) -> None:
        self._model = None

    def tag(self) -> str:
        return "+".join(self.applied) or "none"

    # ---- failure classification: confirmed defects get one precise bucket each
    def classify(self, e: BaseException | None, detail: str = "") -> str | None:
        st_ = self.state
        if e is None:
            return None
        msg = str(e)
        import traceback

        tb = traceback.extract_tb(e.__traceback__)
        frames = [(f.filename.rsplit("/", 1)[-1], f.name) for f in tb]
        if isinstance(e, AttributeError) and "internal_shape" in msg and "NestedPipeFunc" in msg:
            return "DEFECT-nested-map-no-internal_shape"
        if isinstance(e, KeyError) and ("_pipefunc.py", "__call__") in frames[-2:] and st_.has_nested():
            key = e.args[0] if e.args else None
            if any(n.nested and n.out_renamed and key in n.outs for n in st_.nodes):
                return "DEFECT-nested-output-renamed-KeyError"
            if any(n.nested and n.leaf_multi for n in st_.nodes):
                return "DEFECT-nested-tuple-leaf-KeyError"
        if "Missing" in msg or "missing" in msg:
            ib = {x for n in st_.nodes for x in n.inner_bound}
            if ib and any(f"`{x}`" in msg or f"'{x}'" in msg for x in ib):
                return "DEFECT-nested-inner-bound-becomes-required"
        return None

    def fail_exc(self, e: BaseException, prefix: str, extra: str = "") -> None:
        b = self.classify(e) or exc_bucket(e, prefix)
        self.out.fail(b, f"[{self.tag()}] {extra} {exc_detail(e)}")

    # ---- non-interference bookkeeping
    def freeze(self, obj, state: State, why: str) -> None:
        self.frozen.append({"obj": obj, "state": state.clone(), "snap": snapshot(obj), "vals": self.sample(obj, state), "why": why})

    def sample(self, obj, state: State):
        if self.kind == "map" or state.axes:
            return sample_map(self, obj, state)
        return sample_calls(self, obj, state)


# ------------------------------------------------------------------------------------------------
# DAG: values


def dag_kwargs(ctx: Ctx, state: State, o: str, oi: int, cut=()) -> dict:
    m = ctx.model()
    kw = {}
    for i, r in enumerate(m.needed_roots(o, tuple(cut))):
        if r in m.defaults and (ctx.pick >> (1 + (oi + i) % 12)) & 1:
            continue
        kw[r] = f"V{r}"
    return kw


def sample_calls(ctx: Ctx, obj, state: State):
    vals = []
    outs = state.retained()
    m = ctx.model()
    for oi, o in enumerate(outs[:3]):
        kw = {r: f"V{r}" for r in m.needed_roots(o)}
        try:
            vals.append([o, str(obj(state.nm[o], **{state.nm[r]: v for r, v in kw.items()}))])
        except Exception as e:
            vals.append([o, f"EXC:{type(e).__name__}"])
    return vals


def axis_values(r: str, n: int) -> list[str]:
    return [f"V{r}#{i}" for i in range(n)]


def dag_map_inputs(ctx: Ctx, state: State, skip_defaults: bool) -> tuple[dict, dict]:
    """(inputs keyed by current name, base keyword values keyed by original name)"""
    m = ctx.model()
    inv = state.inv()
    ax = {r: a["n"] for a in state.axes for r in a["roots"]}
    inputs, basekw = {}, {}
    for i, rc in enumerate(state.eff_roots()):
        r = inv[rc]
        if r in ax:
            inputs[rc] = axis_values(r, ax[r])
            continue
        if skip_defaults and r in m.defaults and (ctx.pick >> (3 + i % 10)) & 1:
            continue
        inputs[rc] = f"V{r}"
        basekw[r] = f"V{r}"
    return inputs, basekw


def dag_expected_map(ctx: Ctx, state: State, o: str, basekw: dict):
    """(axes names, nested expected) for output o under map"""
    m = ctx.model()
    need = set(m.needed_roots(o))
    axes = [a for a in state.axes if set(a["roots"]) & need]
    if not axes:
        return [], m.evaluate(o, {k: v for k, v in basekw.items()})[0]
    shape = [a["n"] for a in axes]
    arr = np.empty(shape, dtype=object)
    for idx in itertools.product(*map(range, shape)):
        kw = dict(basekw)
        for a, i in zip(axes, idx):
            for r in a["roots"]:
                kw[r] = axis_values(r, a["n"])[i]
        arr[idx] = m.evaluate(o, kw)[0]
    return [a["axis"] for a in axes], arr


def sample_map(ctx: Ctx, obj, state: State):
    try:
        if ctx.kind == "map":
            inputs = map_inputs_cur(ctx, state)
            res = obj.map(inputs, internal_shapes=map_internal_shapes(ctx, state), parallel=False, storage="dict")
        else:
            inputs, _ = dag_map_inputs(ctx, state, False)
            res = obj.map(inputs, parallel=False, storage="dict")
        return [[k, mp.canon_text(res[k].output)] for k in sorted(res)]
    except Exception as e:
        return [["EXC", type(e).__name__]]


def check_calls(ctx: Ctx, cur, state: State, full: bool) -> None:
    """pipeline(out', **kw') == reference(out, **kw) for every retained output that pipeline(...) can compute."""
    out = ctx.out
    m = ctx.model()
    axr = state.axis_roots()
    prod = state.produced()
    for oi, o in enumerate(state.retained()):
        c = state.nm[o]
        if axr & set(m.needed_roots(o)):
            continue  # documented: needs Pipeline.map
        plans = [("root", dag_kwargs(ctx, state, o, oi), ())]
        if full and not state.opaque:
            # one supplied intermediate: output of a single-output, un-nested function in another node
            cone = [f for f in m.cone(o) if f != m.producer[o]["name"]]
            cands = []
            for f in cone:
                fn = m.funcs[f]
                if len(fn["outs"]) != 1 or fn["outs"][0] not in state.nm:
                    continue
                node = prod.get(state.nm[fn["outs"][0]])
                if node is None or node.nested or node is prod[c]:
                    continue
                cands.append(fn["outs"][0])
            if cands:
                i = cands[(ctx.pick >> 5) % len(cands)]
                kw = dag_kwargs(ctx, state, o, oi, cut=(i,))
                kw[i] = f"S:{i}"
                try:
                    used = m.evaluate(o, kw)[5]
                    if i in used:
                        plans.append(("cut", kw, (i,)))
                except Missing:
                    pass
        for pname, kw, _ in plans:
            try:
                want = m.evaluate(o, kw)[0]
            except Missing as e:  # model bug guard
                raise AssertionError(f"model: {e}") from e
            if pname == "root" and o not in ctx.src_checked:
                ctx.src_checked.add(o)
                for src, names in ctx.sources:
                    if o in names:
                        try:
                            w2 = src(o, **kw)
                            if w2 != want:
                                out.fail("original-differs-from-model", f"{o}: original {w2!r} model {want!r}")
                        except Exception as e:
                            out.fail(exc_bucket(e, "original-raised"), exc_detail(e))
            kwc = {state.nm[r]: v for r, v in kw.items()}
            styles = ["dotted"]
            if any("." in k for k in kwc):
                styles = ["dotted", "nested", "mixed"] if full else [["dotted", "nested", "mixed"][(ctx.pick >> 7) % 3]]
            for sty in styles:
                ctx.units += 1
                if sty != "dotted":
                    ctx.nested_dict_call = True
                    ctx.labels.append(f"call:{sty}")
                try:
                    got = cur(c, **restyle(kwc, sty))
                except Exception as e:
                    ctx.fail_exc(e, f"call-{pname}-{sty}-after:{ctx.tag()}", f"{c} {sorted(kwc)}")
                    continue
                if got != want:
                    out.fail(f"value-{pname}-{sty}-after:{ctx.tag()}", f"{c}({sorted(kwc)}): got {got!r} want {want!r}")


def check_map_dag(ctx: Ctx, cur, state: State) -> None:
    out = ctx.out
    inputs, basekw = dag_map_inputs(ctx, state, True)
    sty = ["dotted", "nested", "mixed"][(ctx.pick >> 9) % 3] if any("." in k for k in inputs) else "dotted"
    if sty != "dotted":
        ctx.nested_dict_call = True
        ctx.labels.append(f"map:{sty}")
    ctx.units += 1
    try:
        res = cur.map(restyle(inputs, sty), parallel=False, storage="dict")
    except Exception as e:
        ctx.fail_exc(e, f"map-raised-after:{ctx.tag()}", f"{sorted(inputs)}")
        return
    names = set()
    for o in state.retained():
        c = state.nm[o]
        names.add(c)
        axes, want = dag_expected_map(ctx, state, o, basekw)
        if c not in res:
            out.fail(f"map-missing-output-after:{ctx.tag()}", c)
            continue
        got = res[c].output
        ctx.units += 1
        if not axes:
            if isinstance(got, np.ndarray) or got != want:
                out.fail(f"map-value-after:{ctx.tag()}", f"{c}: got {got!r} want {want!r}")
            continue
        ctx.labels.append("lifted-output")
        try:
            have = tuple(cur.mapspec_axes[c])
        except Exception as e:
            out.fail(exc_bucket(e, "mapspec_axes-raised"), exc_detail(e))
            continue
        if sorted(have) != sorted(axes):
            out.fail(f"axis-set-after:{ctx.tag()}", f"{c}: axes {have} want {axes}")
            continue
        got = np.asarray(got, dtype=object)
        want_t = np.transpose(want, [axes.index(a) for a in have]) if len(axes) > 1 else want
        if got.shape != want_t.shape or mp.canon(got) != mp.canon(want_t):
            out.fail(f"axis-slice-after:{ctx.tag()}", f"{c}{list(have)}: got {mp.canon(got)} want {mp.canon(want_t)}")
    extra = [k for k in res if k not in names]
    if extra:
        out.fail(f"map-invented-output-after:{ctx.tag()}", extra)


# ------------------------------------------------------------------------------------------------
# MAP campaign: values


def map_inputs_orig(ctx: Ctx, state: State) -> dict:
    """inputs keyed by ORIGINAL name (the lifted root stacked along a trailing axis)"""
    inputs = dict(ctx.map_base_inputs)
    for a in state.axes:
        for r in a["roots"]:
            inputs[r] = lifted_input(ctx, r, a["n"])
    return inputs


def lifted_slices(ctx: Ctx, r: str, n: int) -> list:
    prog = ctx.ext
    spec = prog["roots"][r]
    vals = []
    for i in range(n):
        v = mp.root_value(r, spec, prog["sizes"])
        if isinstance(v, str):
            vals.append(f"{v}#{i}")
        else:
            a = np.asarray(v, dtype=object)
            b = np.empty(a.shape, dtype=object)
            for idx in np.ndindex(a.shape):
                b[idx] = f"{a[idx]}#{i}"
            vals.append(b)
    return vals


def lifted_input(ctx: Ctx, r: str, n: int):
    vals = lifted_slices(ctx, r, n)
    if isinstance(vals[0], str):
        return list(vals)
    return np.stack(vals, axis=-1)


def map_inputs_cur(ctx: Ctx, state: State) -> dict:
    used = set(state.eff_roots())
    return {state.nm[r]: v for r, v in map_inputs_orig(ctx, state).items() if r in state.nm and state.nm[r] in used}


def map_internal_shapes(ctx: Ctx, state: State):
    ish = mp.internal_shapes_arg(ctx.ext)
    if not ish:
        return None
    return {state.nm[k]: v for k, v in ish.items() if k in state.nm} or None


def check_map_map(ctx: Ctx, cur, state: State) -> None:
    out = ctx.out
    prog = ctx.ext
    inputs = map_inputs_cur(ctx, state)
    sty = ["dotted", "nested", "mixed"][(ctx.pick >> 9) % 3] if any("." in k for k in inputs) else "dotted"
    if sty != "dotted":
        ctx.nested_dict_call = True
        ctx.labels.append(f"map:{sty}")
    ctx.units += 1
    try:
        res = cur.map(restyle(inputs, sty), internal_shapes=map_internal_shapes(ctx, state), parallel=False, storage="dict")
    except Exception as e:
        ctx.fail_exc(e, f"map-raised-after:{ctx.tag()}", f"{sorted(inputs)}")
        return
    if not state.axes:
        ref = mp.denotation(prog, dict(ctx.map_base_inputs))
        for o in state.retained():
            c = state.nm[o]
            ctx.units += 1
            if c not in res:
                out.fail(f"map-missing-output-after:{ctx.tag()}", c)
            elif mp.canon(res[c].output) != mp.canon(ref[o]):
                out.fail(f"map-value-after:{ctx.tag()}", f"{c}: got {str(mp.canon(res[c].output))[:200]} want {str(mp.canon(ref[o]))[:200]}")
            elif o in ctx.orig_map and mp.canon(ctx.orig_map[o]) != mp.canon(ref[o]):
                out.fail("original-differs-from-model", o)
        return
    a = state.axes[0]
    r, n = a["roots"][0], a["n"]
    slices = lifted_slices(ctx, r, n)
    prod = mp.func_of_output(prog)

    def depends(o, seen=None):
        seen = seen or set()
        fn = prod[o]
        for p_ in fn["params"]:
            if p_["name"] == r:
                return True
            if p_["name"] in prod and p_["name"] not in seen:
                seen.add(p_["name"])
                if depends(p_["name"], seen):
                    return True
        return False

    refs = []
    origs = []
    for i in range(n):
        inp = dict(ctx.map_base_inputs)
        inp[r] = slices[i]
        refs.append(mp.denotation(prog, inp))
        try:
            origs.append(ctx.orig_pipe.map({k: v for k, v in inp.items() if k in ctx.orig_inputs}, internal_shapes=mp.internal_shapes_arg(ctx.prog0), parallel=False, storage="dict"))
        except Exception as e:
            out.fail(exc_bucket(e, "original-map-raised"), exc_detail(e))
            origs.append(None)
    for o in state.retained():
        c = state.nm[o]
        ctx.units += 1
        if c not in res:
            out.fail(f"map-missing-output-after:{ctx.tag()}", c)
            continue
        got = res[c].output
        try:
            have = tuple(cur.mapspec_axes.get(c, ()))
        except Exception as e:
            out.fail(exc_bucket(e, "mapspec_axes-raised"), exc_detail(e))
            continue
        if not depends(o):
            if a["axis"] in have:
                out.fail(f"axis-on-independent-output-after:{ctx.tag()}", f"{c}: axes {have}")
            elif mp.canon(got) != mp.canon(refs[0][o]):
                out.fail(f"axis-changed-independent-output-after:{ctx.tag()}", f"{c}: got {str(mp.canon(got))[:200]} want {str(mp.canon(refs[0][o]))[:200]}")
            continue
        ctx.labels.append("lifted-output")
        if have.count(a["axis"]) != 1:
            out.fail(f"axis-set-after:{ctx.tag()}", f"{c}: axes {have} lack {a['axis']}")
            continue
        want_axes = [x for x in prod[o]["out_axes"]]
        if [x for x in have if x != a["axis"]] != want_axes and prod[o]["mapspec"]:
            out.fail(f"axis-reordered-existing-after:{ctx.tag()}", f"{c}: axes {have} original {want_axes}")
            continue
        pos = have.index(a["axis"])
        arr = np.asarray(got, dtype=object) if not isinstance(got, np.ma.MaskedArray) else got
        if arr.ndim <= pos or arr.shape[pos] != n:
            out.fail(f"axis-shape-after:{ctx.tag()}", f"{c}: shape {arr.shape} axes {have}")
            continue
        for i in range(n):
            sl = np.take(arr, i, axis=pos)
            if mp.canon(sl) != mp.canon(refs[i][o]):
                out.fail(f"axis-slice-after:{ctx.tag()}", f"{c}[{have}] n={i}: got {str(mp.canon(sl))[:200]} want {str(mp.canon(refs[i][o]))[:200]}")
                break
            if origs[i] is not None and o in origs[i] and mp.canon(origs[i][o].output) != mp.canon(refs[i][o]):
                out.fail("original-differs-from-model", f"{o} slice {i}")
                break


def check_values(ctx: Ctx, full: bool) -> None:
    if ctx.kind == "dag":
        check_calls(ctx, ctx.cur, ctx.state, full)
        if full:
            if ctx.around and ctx.state.has_nested():
                ctx.labels.append("map-skipped-around-nested")
            else:
                check_map_dag(ctx, ctx.cur, ctx.state)
    elif full or ctx.eager:
        check_map_map(ctx, ctx.cur, ctx.state)


# ------------------------------------------------------------------------------------------------
# rewrites.  Each returns True when it was applied.


def op_copy(ctx: Ctx, rec: dict) -> bool:
    try:
        new = ctx.cur.copy()
    except Exception as e:
        ctx.fail_exc(e, "copy-raised")
        return False
    _after_new(ctx, new, "copy")
    return True


def _after_new(ctx: Ctx, new, why: str, state_before: State | None = None) -> None:
    """`new` was derived from ctx.cur by an operation documented to return a new pipeline."""
    fr = ctx.frozen_pending
    if snapshot(ctx.cur) != fr["snap"]:
        ctx.out.fail(f"{why}-mutated-its-input", f"before {fr['snap']} after {snapshot(ctx.cur)}")
    ctx.frozen.append(fr)
    ctx.cur = new
    ctx.unpickled = why == "pickle"


def op_pickle(ctx: Ctx, rec: dict) -> bool:
    import cloudpickle

    try:
        new = cloudpickle.loads(cloudpickle.dumps(ctx.cur))
    except Exception as e:
        ctx.fail_exc(e, "pickle-raised")
        return False
    _after_new(ctx, new, "pickle")
    return True


def _join_func_dag(ctx: Ctx, rec: dict, k: int):
    st_ = ctx.state
    sel = rec["sel"] >> (4 * k)
    j = ctx.n_join
    ctx.n_join += 1
    inv = st_.inv()
    if st_.axes:
        cands = []
    else:
        cands = [c for c in sorted(set(st_.produced()) | set(st_.eff_roots())) if c in inv]
    chosen = []
    if cands and sel & 1:
        chosen.append(cands[(sel >> 2) % len(cands)])
        if len(cands) > 1 and sel & 2:
            c2 = cands[(sel >> 5) % len(cands)]
            if c2 not in chosen:
                chosen.append(c2)
    newroot = f"jr{j}"
    if not chosen or (sel >> 8) & 1:
        chosen.append(newroot)
    outn = f"jo{j}"
    fn_cur = {
        "name": f"g{j}", "params": list(chosen), "orig": [f"q{i}" for i in range(len(chosen))], "outs": [outn],
        "orig_outs": [outn], "sig_defaults": {}, "pf_defaults": {}, "bound": {}, "picker": None, "cache": False,
    }  # fmt: skip
    fn_orig = dict(fn_cur, params=[inv.get(c, c) for c in chosen])
    g = make_pipefunc(fn_cur, None)
    return g, fn_cur, fn_orig


def _join_func_map(ctx: Ctx, rec: dict, k: int):
    """element-wise consumer of one output (or whole-value consumer of a rank-0 one)"""
    from pipefunc import PipeFunc

    st_ = ctx.state
    prog = ctx.ext
    j = ctx.n_join
    ctx.n_join += 1
    prod = mp.func_of_output(prog)
    if st_.axes:
        return None  # an element-wise consumer of a lifted output would need the new axis as well
    cands = st_.retained()
    if not cands:
        return None
    o = cands[(rec["sel"] >> (4 * k)) % len(cands)]
    axes = list(prod[o]["out_axes"])
    fn = {
        "name": f"g{j}", "outs": [f"jo{j}"], "picker": None, "mapspec": bool(axes),
        "params": [{"name": o, "spec": list(axes) if axes else None}], "out_axes": list(axes), "int_axes": [],
        "ret": "list", "shape_via": "map",
    }  # fmt: skip
    body = mp.make_body(prog, fn)
    c = st_.nm[o]
    ms = None
    if axes:
        ms = f"{c}[{', '.join(axes)}] -> jo{j}[{', '.join(axes)}]"
    g = PipeFunc(body, f"jo{j}", renames=({o: c} if c != o else None), mapspec=ms)
    return g, fn


def op_join(ctx: Ctx, rec: dict) -> bool:
    st_ = ctx.state
    what = rec["what"]
    if ctx.kind == "map":
        what = "func"
    if what == "prog" and (ctx.p2_in or st_.axes):
        what = "func"
    via = rec["via"]
    if what == "prog":
        p2 = build_dag(ctx.prog2)
        st2 = State([node_from_dag(fn) for fn in ctx.prog2["funcs"]])
        fr2 = {"obj": p2, "state": st2, "snap": snapshot(p2), "vals": ctx.sample(p2, st2), "why": "join-operand"}
        try:
            new = ctx.cur.join(p2) if via == "join" else ctx.cur | p2
        except Exception as e:
            ctx.fail_exc(e, "join-raised")
            return False
        if snapshot(p2) != fr2["snap"]:
            ctx.out.fail("join-mutated-its-operand", "second pipeline")
        ctx.frozen.append(fr2)
        _after_new(ctx, new, "join")
        for n in st2.nodes:
            st_.nodes.append(n.clone())
            for x in n.names():
                st_.nm[x] = x
        ctx.p2_in = True
        ctx.sources.append((p2, {o for fn in ctx.prog2["funcs"] for o in fn["outs"]}))
        ctx.labels.append("join:prog")
        return True
    nfun = 2 if (what == "funcs2" and via == "join") else 1
    gs = []
    for k in range(nfun):
        if ctx.kind == "dag":
            g, fn_cur, fn_orig = _join_func_dag(ctx, rec, k)
            gs.append((g, fn_cur, fn_orig))
        else:
            r = _join_func_map(ctx, rec, k)
            if r is None:
                return False
            gs.append((r[0], None, r[1]))
    try:
        new = ctx.cur.join(*[g for g, _, _ in gs]) if via == "join" else ctx.cur | gs[0][0]
    except Exception as e:
        ctx.fail_exc(e, "join-func-raised")
        return False
    _after_new(ctx, new, "join")
    for g, fn_cur, fn_orig in gs:
        if ctx.kind == "dag":
            ctx.ext["funcs"].append(fn_orig)
            node = node_from_dag(fn_cur)
        else:
            ctx.ext["funcs"].append(fn_orig)
            c = st_.nm[fn_orig["params"][0]["name"]]
            node = Node([fn_orig["name"]], [c], (), fn_orig["outs"], {fn_orig["params"][0]["name"]: c, fn_orig["outs"][0]: fn_orig["outs"][0]})
        st_.nodes.append(node)
        known = set(st_.nm.values())
        for x in node.names():
            if x not in known:
                st_.nm[x] = x  # new root / new output: original name == current name
        ctx.ext_changed()
        # the operand PipeFunc is copied by add(): mutating it afterwards must not reach the result
        on = at_tuple(g.output_name)[0]
        try:
            g.update_renames({on: on + "_mut"})
            ctx.gs.append((g, on + "_mut"))
        except Exception as e:
            ctx.fail_exc(e, "operand-update_renames-raised")
    ctx.labels.append(f"join:func{nfun}")
    return True


def _funcs_with(cur, st_: State, name: str):
    return [(cur[n.outs[0]], n) for n in st_.nodes if name in n.names()]


def op_rename(ctx: Ctx, rec: dict) -> bool:
    st_ = ctx.state
    cur = ctx.cur
    inner = {x for n in st_.nodes for x in n.inner_bound}
    cands = [x for x in st_.all_names() if x not in inner]
    iface = set(st_.produced()) | set(st_.eff_roots())
    if ctx.around:
        cands = [x for x in cands if not any(n.nested and x in n.outs for n in st_.nodes)]
    if not cands:
        return False
    sel = rec["sel"]
    chosen = []
    for k in range(rec["n"]):
        x = cands[(sel >> (3 * k)) % len(cands)]
        if x not in chosen:
            chosen.append(x)
    level, frm = rec["level"], rec["frm"]
    if ctx.around and ctx.unpickled and level == "function":
        level = "pipeline"
        ctx.labels.append("rename:function->pipeline-around-unpickled")
    if st_.opaque and frm == "original":
        frm = "current"
    renames: dict[str, str] = {}
    for x in chosen:
        if rec["style"] == "dotted" and x in iface:
            renames[x] = f"sC.{base(x)}" if not x.startswith("sC.") else st_.new_name()
        else:
            renames[x] = st_.new_name()
    ctx.labels.append(f"rename:{level}:{frm}")
    if level == "pipeline":
        arg = {}
        if frm == "original":
            for x, new in renames.items():
                keys = {k for n in st_.nodes for k, v in n.py.items() if v == x}
                ok = len(keys) == 1
                if ok:
                    (k,) = keys
                    ok = all(n.py[k] == x for n in st_.nodes if k in n.py)
                if not ok:
                    arg = None
                    break
                arg[k] = new
            if arg is None:
                frm = "current"
                ctx.labels.append("rename:original-fallback")
        if frm == "current":
            arg = dict(renames)
        try:
            cur.update_renames(arg, update_from=frm)
        except Exception as e:
            ctx.fail_exc(e, f"update_renames-{frm}-raised", str(arg))
            return False
    else:
        for x, new in renames.items():
            try:
                targets = _funcs_with(cur, st_, x)
            except Exception as e:
                ctx.fail_exc(e, "getitem-raised", x)
                return False
            for f, n in targets:
                key = x
                if frm == "original":
                    key = next(k for k, v in n.py.items() if v == x)
                try:
                    f.update_renames({key: new}, update_from=frm)
                except Exception as e:
                    ctx.fail_exc(e, f"func-update_renames-{frm}-raised", f"{key}->{new}")
                    return False
            st_.rename(x, new)
        _stale_check(ctx)
        return True
    for x, new in renames.items():
        st_.rename(x, new)
    return True


def _stale_check(ctx: Ctx) -> None:
    """After function-level updates the pipeline's public views must show the new names."""
    st_ = ctx.state
    cur = ctx.cur
    try:
        have = set(cur.topological_generations.root_args) | set(cur.all_output_names)
    except Exception as e:
        ctx.fail_exc(e, "views-after-function-level-update-raised")
        return
    inner = {x for n in st_.nodes for x in n.inner_bound}
    want = set(st_.eff_roots()) | set(st_.produced())
    if have - inner != want:
        b = "DEFECT-unpickled-pipeline-stale-after-function-level-update" if ctx.unpickled else "pipeline-stale-after-function-level-update"
        ctx.out.fail(b, f"[{ctx.tag()}] pipeline shows {sorted(have)} functions have {sorted(want)}")
        try:
            cur.update_renames({})  # a pipeline-level call refreshes the views; keeps exploring behind the defect
        except Exception as e:
            ctx.fail_exc(e, "empty-update_renames-raised")


def _scope_apply(ctx: Ctx, scope, inputs_sel, outputs_sel, exclude_sel, in_arg, out_arg, ex_arg, label) -> bool:
    st_ = ctx.state
    R, O = st_.eff_roots(), sorted(st_.produced())
    selected = [x for x in R if inputs_sel is not None and x in inputs_sel] + [x for x in O if outputs_sel is not None and x in outputs_sel]
    selected = [x for x in selected if x not in (exclude_sel or ())]
    if scope is None:
        renames = {x: base(x) for x in selected}
    else:
        renames = {x: f"{scope}.{base(x)}" for x in selected}
    ctx.labels.append(label)
    try:
        ctx.cur.update_scope(scope, inputs=in_arg, outputs=out_arg, exclude=ex_arg)
    except Exception as e:
        ctx.fail_exc(e, f"{label}-raised", f"inputs={in_arg} outputs={out_arg} exclude={ex_arg}")
        return False
    for x, new in renames.items():
        st_.rename(x, new)
    return True


def _scope_sets(ctx: Ctx, rec: dict, mode_in, mode_out, with_exclude: bool):
    st_ = ctx.state
    R, O = st_.eff_roots(), sorted(st_.produced())
    sel = rec["sel"]
    protect = set()
    if ctx.around:
        protect = {x for n in st_.nodes if n.nested for x in n.outs}
    ins = set(R) if mode_in == "*" else ({R[i] for i in bits(sel, len(R))} if mode_in == "some" else None)
    outs = set(O) if mode_out == "*" else ({O[i] for i in bits(sel >> 6, len(O))} if mode_out == "some" else None)
    in_arg = "*" if mode_in == "*" else (set(ins) if ins is not None else None)
    out_arg = "*" if mode_out == "*" else (set(outs) if outs is not None else None)
    pool = R + O
    ex = {pool[i] for i in bits(sel >> 12, len(pool))} if with_exclude else set()
    ex |= protect & set(O) if outs is not None else set()
    ex_arg = set(ex) if (with_exclude or ex) else None
    return ins, outs, ex, in_arg, out_arg, ex_arg


def op_scope(ctx: Ctx, rec: dict) -> bool:
    ins, outs, ex, in_arg, out_arg, ex_arg = _scope_sets(ctx, rec, rec["inputs"], rec["outputs"], rec["exclude"])
    return _scope_apply(ctx, rec["scope"], ins, outs, ex, in_arg, out_arg, ex_arg, "scope")


def op_unscope(ctx: Ctx, rec: dict) -> bool:
    mode = rec["part"]
    ins, outs, ex, in_arg, out_arg, ex_arg = _scope_sets(ctx, rec, mode, mode, False)
    return _scope_apply(ctx, None, ins, outs, ex, in_arg, out_arg, ex_arg, "unscope")


def _nest_candidates(st_: State) -> list[list[Node]]:
    nodes = st_.nodes
    n = len(nodes)
    if n < 2 or n > 9:
        return []
    anc = {id(x): {id(a) for a in st_.ancestors(x)} for x in nodes}
    res = []
    for mask in range(3, 1 << n):
        S = [nodes[i] for i in range(n) if mask >> i & 1]
        if len(S) < 2:
            continue
        if len(st_.leaves(S)) != 1:
            continue
        ids = {id(x) for x in S}
        convex = True
        for x in nodes:
            if id(x) in ids:
                continue
            below = bool(anc[id(x)] & ids)  # x depends on S
            above = any(id(x) in anc[id(s)] for s in S)  # S depends on x
            if below and above:
                convex = False
                break
        if convex:
            res.append(S)
    return res


def op_nest(ctx: Ctx, rec: dict) -> bool:
    from pipefunc import NestedPipeFunc, Pipeline

    st_ = ctx.state
    if st_.axes or st_.opaque or ctx.kind == "map":
        return False
    cands = _nest_candidates(st_)
    via = rec["via"]
    if via == "star":
        cands = [S for S in cands if len(S) == len(st_.nodes)]
        if not cands:
            via = "nest_funcs"
            cands = _nest_candidates(st_)

    def risky(S):
        leaf = st_.leaves(S)[0]
        return (
            len(leaf.outs) > 1
            or any(n.bound or n.inner_bound for n in S)
            or any("." in x for n in S for x in n.names())
        )

    if ctx.around:
        cands = [S for S in cands if not risky(S)]
    if not cands:
        ctx.labels.append("nest:na")
        return False
    sel = rec["sel"]
    S = cands[sel % len(cands)]
    ids = {id(x) for x in S}
    leaf = st_.leaves(S)[0]
    inner_outs = [o for n in S for o in n.outs]
    needed = [o for o in inner_outs if any(o in x.free() for x in st_.nodes if id(x) not in ids)]
    mode = rec["new"]
    if mode == "none":
        exposed = sorted(inner_outs)
        new_arg = None
    else:
        if mode == "min":
            exposed = list(needed) or [leaf.outs[0]]
        elif mode == "some":
            extra = [o for i, o in enumerate(inner_outs) if o not in needed and (sel >> (4 + i)) & 1]
            exposed = list(needed) + extra or [leaf.outs[0]]
        else:
            exposed = list(inner_outs)
        rot = (sel >> 10) % len(exposed)
        exposed = exposed[rot:] + exposed[:rot]
        if (sel >> 13) & 1:
            exposed.reverse()
        new_arg = exposed[0] if len(exposed) == 1 else tuple(exposed)
    scoped = any("." in x for n in S for x in n.names())
    ctx.labels.append(f"nest:{via}:{mode}")
    try:
        if via == "ctor":
            funcs = [ctx.cur[n.outs[0]] for n in S]
            nested = NestedPipeFunc(funcs, output_name=new_arg)
            new = Pipeline([f for f in ctx.cur.functions if not any(f is g for g in funcs)] + [nested])
        elif via == "star":
            ctx.cur.nest_funcs("*", new_arg)
        else:
            names = set()
            for i, n in enumerate(S):
                names.add(tuple(n.outs) if len(n.outs) > 1 and (sel >> (16 + i)) & 1 and not n.nested else n.outs[(sel >> i) % len(n.outs)])
            ctx.cur.nest_funcs(names, new_arg)
    except Exception as e:
        if scoped and isinstance(e, ValueError) and "not a valid parameter name" in str(e):
            ctx.out.fail("DEFECT-nest-scoped-name-invalid-parameter", f"[{ctx.tag()}] {exc_detail(e)}")
        else:
            ctx.fail_exc(e, f"nest-{via}-raised", f"{[n.outs for n in S]} new={new_arg}")
        if via != "ctor":
            ctx.broken = True  # nest_funcs drops the functions before it fails: the pipeline is unusable now
        return False
    if via == "ctor":
        _after_new(ctx, new, "NestedPipeFunc")
    # structural model
    params: list[str] = []
    for n in S:
        for p in n.free():
            if p not in inner_outs and p not in params:
                params.append(p)
    free_names = {p for n in S for p in n.free()}
    inner_bound = {p for n in S for p in (set(n.bound) | n.inner_bound) if p not in free_names and p not in inner_outs}
    node = Node([m for n in S for m in n.members], params + sorted(inner_bound), inner_bound, exposed, {x: x for x in params + sorted(inner_bound) + exposed})
    node.nested = True
    node.inner_bound = set(inner_bound)
    node.leaf_multi = len(leaf.outs) > 1 or leaf.leaf_multi
    node.multi_member = any(len(n.outs) > 1 or n.multi_member for n in S)
    st_.nodes = [x for x in st_.nodes if id(x) not in ids] + [node]
    keep = {x for n in st_.nodes for x in n.names()}
    st_.nm = {k: v for k, v in st_.nm.items() if v in keep}
    return True


def op_simplify(ctx: Ctx, rec: dict) -> bool:
    from pipefunc import NestedPipeFunc

    st_ = ctx.state
    if st_.axes or ctx.kind == "map":
        return False
    prod = st_.produced()
    leaves = st_.leaves()
    names = sorted(prod)
    sel = rec["sel"]
    if sel & 3:  # prefer the output of a leaf node
        lo = sorted(o for n in leaves for o in n.outs)
        target = lo[(sel >> 2) % len(lo)]
    else:
        target = names[(sel >> 2) % len(names)]
    T = prod[target]
    cone = [T, *st_.ancestors(T)]
    if ctx.around and (
        any(len(n.outs) > 1 for n in cone)
        or any(n.bound or n.inner_bound for n in cone)
        or any("." in x for n in cone for x in n.names())
        or any(n.nested for n in cone)
    ):
        ctx.labels.append("simplify:skipped-around")
        return False
    use_default = rec["default_out"] and len(leaves) == 1 and target in leaves[0].outs and len(leaves[0].outs) == 1
    ctx.labels.append("simplify:" + ("default" if use_default else "named") + (":conservative" if rec["conservative"] else ""))
    must = any(st_.root_args(P) == st_.root_args(T) for P in st_.deps(T))
    if rec["conservative"]:
        must = bool(st_.deps(T)) and all(st_.root_args(P) == st_.root_args(T) for P in st_.deps(T))
    try:
        if use_default:
            new = ctx.cur.simplified_pipeline(conservatively_combine=rec["conservative"])
        else:
            new = ctx.cur.simplified_pipeline(target, conservatively_combine=rec["conservative"])
    except ValueError as e:
        if "No combinable nodes" in str(e):
            if must:
                ctx.out.fail("simplify-refused-although-combinable", f"[{ctx.tag()}] target {target}")
            ctx.labels.append("simplify:refused")
            return False
        if "not a valid parameter name" in str(e) and any("." in x for n in cone for x in n.names()):
            ctx.out.fail("DEFECT-nest-scoped-name-invalid-parameter", f"[{ctx.tag()}] simplified_pipeline: {exc_detail(e)}")
            return False
        ctx.fail_exc(e, "simplify-raised", target)
        return False
    except TypeError as e:
        if "not supported between" in str(e) and any(len(n.outs) > 1 for n in cone):
            ctx.out.fail("DEFECT-simplify-tuple-output-TypeError", f"[{ctx.tag()}] target {target}: {exc_detail(e)}")
        else:
            ctx.fail_exc(e, "simplify-raised", target)
        return False
    except Exception as e:
        ctx.fail_exc(e, "simplify-raised", target)
        return False
    try:
        kept = set(new.all_output_names)
    except Exception as e:
        ctx.fail_exc(e, "simplify-result-unusable")
        return False
    if target not in kept:
        ctx.out.fail("simplify-dropped-requested-output", f"{target} not in {sorted(kept)}")
    if kept - set(prod):
        ctx.out.fail("simplify-invented-output", sorted(kept - set(prod)))
    pre_known = set(st_.eff_roots()) | set(prod)
    pre_nodes = list(st_.nodes)
    _after_new(ctx, new, "simplified_pipeline")
    nodes = []
    for f in new.functions:
        outs = list(at_tuple(f.output_name))
        old = next((n for n in pre_nodes if n.outs == outs and set(n.params) == set(f.parameters)), None)
        if old is not None:
            nodes.append(old)
            continue
        ps = list(f.parameters)
        ib = {p for p in ps if p not in pre_known}
        node = Node(["<simplified>"], ps, set(f.bound) | ib, [o for o in outs if o in prod], {x: x for x in ps + outs})
        node.nested = isinstance(f, NestedPipeFunc)
        node.inner_bound = ib
        node.leaf_multi = any(len(n.outs) > 1 and set(n.outs) <= set(outs) for n in pre_nodes)
        node.multi_member = node.leaf_multi
        nodes.append(node)
    st_.nodes = nodes
    keep = {x for n in nodes for x in n.names()}
    st_.nm = {k: v for k, v in st_.nm.items() if v in keep}
    st_.opaque = True
    return True


def op_split(ctx: Ctx, rec: dict) -> bool:
    st_ = ctx.state
    if ctx.kind == "map":
        return False
    comps = st_.components()
    ctx.labels.append("split:" + ("1" if len(comps) == 1 else "n"))
    try:
        parts = ctx.cur.split_disconnected()
    except ValueError as e:
        if len(comps) == 1 and "fully connected" in str(e):
            return False
        ctx.fail_exc(e, "split-raised")
        return False
    except Exception as e:
        ctx.fail_exc(e, "split-raised")
        return False
    if len(comps) == 1:
        ctx.out.fail("split-of-connected-pipeline-returned", f"{len(parts)} parts")
        return False
    try:
        got = sorted(sorted(p.all_output_names) for p in parts)
    except Exception as e:
        ctx.fail_exc(e, "split-result-unusable")
        return False
    want = sorted(sorted(o for n in comp for o in n.outs) for comp in comps)
    if got != want:
        ctx.out.fail("split-partition-differs", f"got {got} want {want}")
        return False
    comps.sort(key=lambda comp: sorted(o for n in comp for o in n.outs))
    k = rec["sel"] % len(comps)
    comp = comps[k]
    part = next(p for p in parts if sorted(p.all_output_names) == sorted(o for n in comp for o in n.outs))
    if ctx.eager:  # every other part computes its outputs as well
        for other in comps:
            if other is comp:
                continue
            outs = sorted(o for n in other for o in n.outs)
            p = next(p for p in parts if sorted(p.all_output_names) == outs)
            idx = [i for i, n in enumerate(st_.nodes) if any(n is x for x in other)]
            s2 = st_.clone()
            s2.restrict([s2.nodes[i] for i in idx])
            ctx.applied.append("split")
            check_calls(ctx, p, s2, False)
            ctx.applied.pop()
    _after_new(ctx, part, "split_disconnected")
    st_.restrict(comp)
    return True


def op_axis(ctx: Ctx, rec: dict) -> bool:
    st_ = ctx.state
    if ctx.around and st_.has_nested():
        ctx.labels.append("axis:skipped-around-nested")
        return False
    inv = st_.inv()
    done = st_.axis_roots()
    if ctx.kind == "map":
        if st_.axes:
            return False
        cands = [c for c in st_.eff_roots() if inv[c] in ctx.prog0["roots"]]
    else:
        if len(st_.axes) >= 2:
            return False
        cands = [c for c in st_.eff_roots() if inv[c] not in done]
    if not cands:
        return False
    sel = rec["sel"]
    k = 1 if ctx.kind == "map" else min(rec["k"], len(cands))
    chosen = [cands[sel % len(cands)]]
    if k == 2:
        c2 = cands[(sel >> 4) % len(cands)]
        if c2 not in chosen:
            chosen.append(c2)
    axis = f"ax{len(st_.axes)}"
    n = 2 if ctx.kind == "map" else rec["n"]
    ctx.labels.append(f"axis:k{len(chosen)}")
    try:
        ctx.cur.add_mapspec_axis(*chosen, axis=axis)
    except Exception as e:
        ctx.fail_exc(e, "add_mapspec_axis-raised", f"{chosen}")
        ctx.broken = True
        return False
    st_.axes.append({"axis": axis, "roots": [inv[c] for c in chosen], "n": n})
    return True


OPS = {
    "copy": op_copy, "pickle": op_pickle, "join": op_join, "rename": op_rename, "scope": op_scope,
    "unscope": op_unscope, "nest": op_nest, "simplify": op_simplify, "split": op_split, "axis": op_axis,
}  # fmt: skip
NEW_PIPELINE_OPS = {"copy", "pickle", "join", "simplify", "split", "nest"}  # nest only via the constructor


# ------------------------------------------------------------------------------------------------
# shared driver


def run_sequence(ctx: Ctx, rws: list[dict]) -> None:
    out = ctx.out
    ctx.broken = False
    for rec in rws:
        if ctx.broken:
            break
        # the input of an operation that returns a new pipeline is frozen *before* the operation
        st_before = ctx.state.clone()
        ctx.frozen_pending = {"obj": ctx.cur, "state": st_before, "snap": snapshot(ctx.cur), "vals": None, "why": rec["op"]}
        if rec["op"] in NEW_PIPELINE_OPS:
            ctx.frozen_pending["vals"] = ctx.sample(ctx.cur, st_before)
        ok = OPS[rec["op"]](ctx, rec)
        ctx.labels.append(f"op:{rec['op']}" + ("" if ok else ":not-applied"))
        if ok:
            ctx.applied.append(rec["op"])
            if ctx.eager and not ctx.broken:
                check_values(ctx, False)
    if ctx.broken:
        return
    check_values(ctx, True)
    if ctx.around and ctx.state.has_nested() and ctx.kind == "dag":
        pass
    # ---- non-interference, part 1: inputs of new-pipeline operations are unchanged by everything done later
    _check_frozen(ctx, "later-rewrites")
    # ---- a later update_defaults / update_renames on the result
    st_ = ctx.state
    cur = ctx.cur
    roots = st_.eff_roots()
    inner = {x for n in st_.nodes for x in n.inner_bound}
    roots = [r for r in roots if r not in inner]
    mut_ok = True
    try:
        if roots:
            cur.update_defaults({roots[ctx.pick % len(roots)]: "MUTD"})
        if not (ctx.around and st_.has_nested()):
            names = [x for x in st_.all_names() if x not in inner]
            x = names[(ctx.pick >> 3) % len(names)]
            cur.update_renames({x: "mutres"})
            st_.rename(x, "mutres")
    except Exception as e:
        mut_ok = False
        ctx.fail_exc(e, f"mutate-result-raised-after:{ctx.tag()}")
    _check_frozen(ctx, "mutation-of-result")
    for g, want_name in ctx.gs:
        if at_tuple(g.output_name)[0] != want_name:
            out.fail("operand-pipefunc-changed-by-result", f"{g.output_name} want {want_name}")
    if not mut_ok:
        return
    # ---- vice versa: mutate every input afterwards; the result must not move
    snap_cur = snapshot(cur)
    vals_cur = ctx.sample(cur, st_)
    for fr in ctx.frozen:
        obj, s = fr["obj"], fr["state"]
        if obj is cur:
            continue
        try:
            r2 = [r for r in s.eff_roots() if r not in {x for n in s.nodes for x in n.inner_bound}]
            if r2:
                obj.update_defaults({r2[(ctx.pick >> 2) % len(r2)]: "MUTS"})
            names = [x for x in s.all_names() if x not in {y for n in s.nodes for y in n.inner_bound}]
            if ctx.around:
                names = [x for x in names if not any(n.nested and x in n.outs for n in s.nodes)]
            if names:
                obj.update_renames({names[(ctx.pick >> 4) % len(names)]: "mutsrc"})
        except Exception as e:
            ctx.fail_exc(e, f"mutate-input-raised:{fr['why']}")
    if ctx.frozen:
        if snapshot(cur) != snap_cur:
            out.fail(f"result-structure-changed-by-mutating-input:{ctx.tag()}", f"{snap_cur} -> {snapshot(cur)}")
        elif ctx.sample(cur, st_) != vals_cur:
            out.fail(f"result-values-changed-by-mutating-input:{ctx.tag()}", f"{vals_cur} -> {ctx.sample(cur, st_)}")


def _check_frozen(ctx: Ctx, when: str) -> None:
    for fr in ctx.frozen:
        if fr["obj"] is ctx.cur:
            continue
        ctx.units += 1
        now = snapshot(fr["obj"])
        if now != fr["snap"]:
            ctx.out.fail(f"input-structure-changed-by-{when}:{fr['why']}", f"[{ctx.tag()}] {fr['snap']} -> {now}")
            fr["snap"] = now
            continue
        if fr["vals"] is not None:
            v = ctx.sample(fr["obj"], fr["state"])
            if v != fr["vals"]:
                ctx.out.fail(f"input-values-changed-by-{when}:{fr['why']}", f"[{ctx.tag()}] {fr['vals']} -> {v}")
                fr["vals"] = v


def finish(ctx: Ctx, graph_nt: bool, rws: list[dict]) -> Outcome:
    out = ctx.out
    out.labels = sorted(set(ctx.labels)) + [f"len:{len(rws)}", f"applied:{len(ctx.applied)}"]
    if len(ctx.applied) >= 2:
        out.labels.append("pair:" + ">".join(ctx.applied[:2]))
    out.labels.append("around" if ctx.around else "strict")
    out.labels.append("eager" if ctx.eager else "lazy")
    out.nontrivial = (graph_nt and len(ctx.applied) >= 2) or ctx.nested_dict_call
    out.units = max(1, ctx.units)
    return out


# ------------------------------------------------------------------------------------------------
# campaign bodies


def body_dag(data) -> Outcome:
    out = Outcome()
    ctx = Ctx("dag", out, data)
    prog = norm_prog(data["prog"])
    prog2 = prefix_prog(norm_prog(data["prog2"]), "x_")
    ctx.prog2 = prog2
    labs = dag_labels(prog)
    graph_nt = bool({"diamond", "multi_output"} & set(labs))
    ctx.labels += [l for l in labs if not l.startswith("nf")]
    ctx.ext = {"roots": prog["roots"] + prog2["roots"], "funcs": list(prog["funcs"]) + list(prog2["funcs"]), "order": []}
    try:
        orig = build_dag(prog)
        if data["union"]:
            from pipefunc import Pipeline

            pfs = [make_pipefunc(fn, None) for fn in prog["funcs"] + prog2["funcs"]]
            k = (data["pick"] >> 6) % (len(pfs) + 1)
            cur = Pipeline(pfs[k:] + pfs[:k])
            orig2 = build_dag(prog2)
        else:
            cur = build_dag(prog)
    except Exception:
        out.labels = ["build-refused"]
        return out
    ctx.sources.append((orig, {o for fn in prog["funcs"] for o in fn["outs"]}))
    nodes = [node_from_dag(fn) for fn in prog["funcs"]]
    if data["union"]:
        nodes += [node_from_dag(fn) for fn in prog2["funcs"]]
        ctx.p2_in = True
        ctx.sources.append((orig2, {o for fn in prog2["funcs"] for o in fn["outs"]}))
        ctx.labels.append("start:union")
    ctx.state = State(nodes)
    ctx.cur = cur
    run_sequence(ctx, data["rw"])
    return finish(ctx, graph_nt, data["rw"])


def body_map(data) -> Outcome:
    out = Outcome()
    ctx = Ctx("map", out, data)
    prog = json.loads(json.dumps(data["prog"]))
    for fn in prog["funcs"]:
        if fn.get("picker") == "dict":
            fn["picker"] = "tuple"
    prog["storage"] = "dict"
    ctx.prog0 = json.loads(json.dumps(prog))
    ctx.ext = prog
    labs = mp.labels(prog)
    graph_nt = "multi_output" in labs or any(
        sum(1 for f2 in prog["funcs"] for p_ in f2["params"] if p_["name"] == o) >= 2 for fn in prog["funcs"] for o in fn["outs"]
    )
    ctx.labels += [l for l in labs if not l.startswith(("nf", "storage"))]
    try:
        orig = mp.build_pipeline(ctx.prog0)
        cur = mp.build_pipeline(ctx.prog0)
    except Exception:
        out.labels = ["build-refused"]
        return out
    ctx.map_base_inputs = mp.make_inputs(ctx.prog0)
    ctx.orig_inputs = set(ctx.map_base_inputs)
    ctx.orig_pipe = orig
    ctx.orig_map = {}
    try:
        r0 = orig.map(dict(ctx.map_base_inputs), internal_shapes=mp.internal_shapes_arg(ctx.prog0), parallel=False, storage="dict")
        ctx.orig_map = {k: v.output for k, v in r0.items()}
    except Exception:
        out.labels = ["original-map-refused"]  # C01's subject
        return out
    ctx.state = State([node_from_map(fn) for fn in prog["funcs"]])
    ctx.cur = cur
    run_sequence(ctx, data["rw"])
    return finish(ctx, graph_nt, data["rw"])


# ------------------------------------------------------------------------------------------------
# strategies (JSON recipes)

_SEL = st.integers(0, 2**20 - 1)


def _rec(op, **kw):
    return st.fixed_dictionaries({"op": st.just(op), "sel": _SEL, **kw})


R_COPY = _rec("copy")
R_PICKLE = _rec("pickle")
R_JOIN = _rec("join", what=st.sampled_from(["prog", "prog", "func", "funcs2"]), via=st.sampled_from(["join", "or"]))
R_JOINF = _rec("join", what=st.sampled_from(["func", "funcs2"]), via=st.sampled_from(["join", "or"]))
R_RENAME = _rec(
    "rename", level=st.sampled_from(["pipeline", "function"]), frm=st.sampled_from(["current", "original"]),
    n=st.integers(1, 3), style=st.sampled_from(["plain", "plain", "dotted"]),
)  # fmt: skip
R_SCOPE = _rec(
    "scope", scope=st.sampled_from(SCOPES), inputs=st.sampled_from(["*", "*", "some", None]),
    outputs=st.sampled_from(["*", "*", "some", None]), exclude=st.sampled_from([False, False, True]),
)  # fmt: skip
R_UNSCOPE = _rec("unscope", part=st.sampled_from(["*", "*", "some"]))
R_NEST = _rec("nest", new=st.sampled_from(["none", "min", "some", "all"]), via=st.sampled_from(["nest_funcs", "nest_funcs", "star", "ctor"]))
R_SIMPLIFY = _rec("simplify", conservative=st.sampled_from([False, False, True]), default_out=st.booleans())
R_SPLIT = _rec("split")
R_AXIS = _rec("axis", k=st.sampled_from([1, 1, 2]), n=st.sampled_from([2, 3]))

DAG_ANY = st.one_of(
    R_COPY, R_PICKLE, R_JOIN, R_RENAME, R_RENAME, R_RENAME, R_SCOPE, R_SCOPE, R_UNSCOPE, R_NEST, R_NEST, R_NEST,
    R_SIMPLIFY, R_SIMPLIFY, R_SPLIT, R_AXIS, R_AXIS,
)  # fmt: skip
MAP_ANY = st.one_of(R_COPY, R_PICKLE, R_JOINF, R_RENAME, R_SCOPE, R_UNSCOPE, R_AXIS, R_AXIS)


def _seqs(any_, with_split: bool):
    free = st.lists(any_, min_size=1, max_size=3)
    scoped = st.tuples(R_SCOPE, any_, st.one_of(R_UNSCOPE, any_)).map(list)
    scoped2 = st.tuples(R_SCOPE, st.one_of(R_UNSCOPE, any_)).map(list)
    alts = [free, free, free, free, scoped, scoped2]
    if with_split:
        alts.append(st.tuples(_rec("join", what=st.just("prog"), via=st.sampled_from(["join", "or"])), st.one_of(R_SPLIT, any_), any_).map(list))
        alts.append(st.tuples(_rec("join", what=st.just("prog"), via=st.sampled_from(["join", "or"])), R_SPLIT).map(list))
    return st.one_of(*alts)


def campaigns(tier):
    dag = st.fixed_dictionaries(
        {
            "prog": st.one_of(
                dag_programs(max_funcs=5, consistent_ignored_defaults=True),
                dag_programs(max_funcs=5, min_funcs=2, allow_bound=False, consistent_ignored_defaults=True),
                # chains and diamonds of single-output functions: every nest/simplify precondition is frequent
                dag_programs(max_funcs=5, min_funcs=2, allow_bound=False, allow_multi=False, allow_nullary=False, consistent_ignored_defaults=True),
            ),
            "prog2": dag_programs(max_funcs=2, consistent_ignored_defaults=True),
            "rw": _seqs(DAG_ANY, True),
            "pick": st.integers(0, 2**16 - 1),
            "around": st.sampled_from([True, True, True, False]),
            "union": st.sampled_from([False, False, False, True]),
        }
    )
    mpc = st.fixed_dictionaries(
        {
            "prog": mp.map_programs(max_funcs=3, max_rank=2, storages=("dict",), max_size=2),
            "rw": _seqs(MAP_ANY, False),
            "pick": st.integers(0, 2**16 - 1),
            "around": st.just(True),
        }
    )
    return [
        Campaign("dag", body_dag, dag, quick=4000, thorough=60000, describe="DagPrograms x <=3 rewrites, pipeline(...) and map"),
        Campaign("map", body_map, mpc, quick=800, thorough=12000, describe="MapPrograms x <=3 rewrites under map"),
    ]


PREDICATES = {}

"""C10 -- structural rewrites preserve what a pipeline computes (DESIGN.md section 4, C10).

A case is a program plus a sequence of <= 3 rewrite *recipes*.  The body keeps

* ``cur``    the pipeline being rewritten (built from the AST, never the object used as the metamorphic reference),
* ``State``  an independent structural model of ``cur``: one node per function (parameters, bound names, exposed
             outputs, python-level names) and the name map ``nm`` original name -> current name,
* ``frozen`` every pipeline that was the *input* of an operation documented to return a new pipeline, with its
             structural snapshot and sample outputs.

Expected values never come from ``cur``: they come from the reference evaluator (DagModel / MapSpec denotation)
on the original-name AST and from the untouched ORIGINAL pipeline objects.
"""

from __future__ import annotations

import copy as _copy
import itertools
import json

import numpy as np
from hypothesis import strategies as st

from vlib import boot  # noqa: F401
from vlib import mapprog as mp
from vlib.core import Campaign, Outcome, exc_bucket, exc_detail
from vlib.dag import DagModel, Missing, dag_programs, make_pipefunc
from vlib.dag import labels as dag_labels

PID = "C10"
LEVEL = "exploration"
RULE = (
    "Campaign dag: Hypothesis DagProgram (1-5 tracer functions over 1-4 roots: tuple outputs, diamonds, nullary, "
    "signature/PipeFunc defaults, bound values, initial renames; one third each: full feature set / no bound values / "
    "single-output chains and diamonds) + a name-disjoint second program (one of 6 fixed shapes, all names prefixed) + "
    "a sequence of 1-3 rewrite recipes (derived, like all flags, from sha1(salt, program)), from {copy, cloudpickle round trip, join/| "
    "with the second program or 1-2 fresh PipeFuncs, update_renames (pipeline level or function by function; "
    "update_from current/original; plain or dotted targets), update_scope (inputs/outputs '*'/subset/None, exclude) "
    "and its removal, nest_funcs (set / '*') or NestedPipeFunc(...) on a convex single-leaf subset with "
    "new_output_name None/minimal/some/all in a drawn order, simplified_pipeline(out|None, conservatively_combine), "
    "split_disconnected, add_mapspec_axis(1-2 roots, axis=new)}; each recipe is resolved against an independent "
    "structural model that also carries the induced renaming. Oracle: after every step (eager cases) or only at the "
    "end (lazy cases) every retained output equals the reference DAG evaluator (and the untouched ORIGINAL pipeline "
    "object equals it too) on the correspondingly renamed keyword arguments (dotted keys, nested dicts, mixed; "
    "root-only and with one supplied intermediate), and at the end under Pipeline.map(parallel=False) (after "
    "add_mapspec_axis: p=[v0..] gives, for every output depending on p, an array over the new axes whose slice n is "
    "the original result for p=v_n; all other outputs unchanged). split_disconnected must return exactly the model's "
    "connected components; simplified_pipeline must keep the requested output, invent none, and may refuse only when "
    "no predecessor shares the target's root arguments. Non-interference: structural snapshot (output names, "
    "parameters, defaults, bound, renames, MapSpec) and sample outputs of every pipeline that was the input of "
    "copy/pickle/join/|/simplified_pipeline/split_disconnected/NestedPipeFunc(...) (and of every joined PipeFunc) are "
    "equal before/after the operation, after all later rewrites and a final update_defaults+update_renames of the "
    "result; then each such input is itself mutated and structure and sample outputs of the result must not change. "
    "Campaign map: small MapPrograms x 1-3 rewrites from {copy, pickle, rename, scope, unscope, join with an "
    "element-wise PipeFunc, add_mapspec_axis} checked under map against the MapSpec denotation (per slice n for the "
    "lifted root) and the original pipeline's own map. Non-trivial = (graph with a tuple-output or interior "
    "multi-consumer node and >= 2 applied rewrites) or a scoped call made with a nested dict; distinct by sha1 of the "
    "case. Confirmed defects have their own buckets (DEFECT-...); data['around']=True cases construct around them."
)
ASSUMPTIONS = [
    "custom name-keyed output pickers are replaced by the default tuple picker: a picker receives the *renamed* output name, so a user picker keyed on names is outside what renaming can preserve",
    "function-level update_renames is applied to every function that mentions the name (renaming one mention only changes the graph and is not a semantics-preserving rewrite)",
    "pipeline-level update_renames(update_from='original') is only used for a python-level name that denotes one and the same pipeline name in every function that has it",
    "scope names never coincide with parameter/output names; rewrites never make two names equal (fresh targets, unique base names)",
    "nest_funcs/NestedPipeFunc only on >= 2 functions forming a convex subset with a single leaf; new_output_name always contains every output consumed outside the subset; never after add_mapspec_axis (MapSpec combination has its own documented restrictions) and never after simplified_pipeline",
    "an output of a nested function is requested with the root arguments of ALL members of the nest (one call produces all of its outputs); likewise all outputs of a nested function gain a new MapSpec axis together",
    "after a function was nested, an intermediate produced inside a nest is no longer supplied by keyword (nesting documents no interception of inner values)",
    "simplified_pipeline is not applied after add_mapspec_axis (documented NotImplementedError) and may refuse with 'No combinable nodes' unless a direct predecessor shares the target's root arguments; outputs other than the requested one count as retained only if the result lists them",
    "add_mapspec_axis always introduces a NEW axis name on root arguments with a non-bound consumer; the order of axes of a lifted output is read from the producing function's MapSpec, only the set of axes is predicted; a root that no MapSpec lists is lifted as a 1-D sequence of whole values, a listed one is stacked along a new trailing axis",
    "MapPrograms: dict storage only, no None-returning tracers, no element-wise join on auto-generated-MapSpec producers (C01's open finding)",
    "data['around']=True cases (3 of 4) construct around the confirmed defects so that exploration continues behind them: no nest/simplify over tuple-output leaves, bound values or dotted names, no rename of a nested function's outputs, no map of a pipeline holding a NestedPipeFunc, no reliance on defaults after a nested parameter was renamed, pipeline-level instead of function-level renames on an unpickled pipeline, no add_mapspec_axis on a root used both indexed and whole; around=False cases are strict",
]

SCOPES = ["sA", "sB"]


def at_tuple(x):
    return x if isinstance(x, tuple) else (x,)


def base(n: str) -> str:
    return n.split(".", 1)[1] if "." in n else n


def bits(n: int, k: int) -> list[int]:
    return [i for i in range(k) if n >> i & 1]


# ------------------------------------------------------------------------------------------------
# AST helpers


def norm_prog(prog: dict) -> dict:
    prog = json.loads(json.dumps(prog))
    for fn in prog["funcs"]:
        if fn["picker"] == "dict":
            fn["picker"] = "tuple"
        fn["cache"] = False
    return prog


def prefix_prog(prog: dict, pre: str) -> dict:
    def r(n):
        return pre + n

    funcs = []
    for fn in prog["funcs"]:
        funcs.append(
            {
                "name": pre + fn["name"],
                "params": [r(p) for p in fn["params"]],
                "orig": [r(o) if o == p else o for o, p in zip(fn["orig"], fn["params"])],
                "outs": [r(o) for o in fn["outs"]],
                "orig_outs": [r(oo) if oo == o else oo for oo, o in zip(fn["orig_outs"], fn["outs"])],
                "sig_defaults": {r(k): v for k, v in fn["sig_defaults"].items()},
                "pf_defaults": {r(k): v for k, v in fn["pf_defaults"].items()},
                "bound": {r(k): v for k, v in fn["bound"].items()},
                "picker": fn["picker"],
                "cache": False,
            }
        )
    return {"roots": [r(x) for x in prog["roots"]], "funcs": funcs, "order": list(prog["order"])}


def build_dag(prog: dict):
    from pipefunc import Pipeline

    pfs = [make_pipefunc(fn, None) for fn in prog["funcs"]]
    return Pipeline([pfs[i] for i in prog["order"]])


# ------------------------------------------------------------------------------------------------
# structural model


class Node:
    __slots__ = ("members", "params", "bound", "outs", "py", "nested", "inner_bound", "leaf_multi", "out_renamed", "multi_member", "param_renamed")

    def __init__(self, members, params, bound, outs, py):
        self.members = list(members)
        self.params = list(params)  # current names, bound ones included
        self.bound = set(bound)
        self.outs = list(outs)  # exposed current output names
        self.py = dict(py)  # python-level name (update_from="original") -> current name
        self.nested = False
        self.inner_bound: set[str] = set()  # names bound inside a nest (implementation exposes them as parameters)
        self.leaf_multi = False  # nested: the inner leaf is a tuple-output function
        self.out_renamed = False  # nested: an exposed output was renamed after nesting
        self.multi_member = False  # nested: contains a tuple-output function
        self.param_renamed = False  # nested: a parameter was renamed after nesting

    def free(self) -> list[str]:
        return [p for p in self.params if p not in self.bound]

    def names(self) -> list[str]:
        return list(dict.fromkeys(self.params + self.outs))

    def clone(self) -> "Node":
        n = Node(self.members, self.params, self.bound, self.outs, self.py)
        n.nested, n.inner_bound, n.leaf_multi = self.nested, set(self.inner_bound), self.leaf_multi
        n.out_renamed, n.multi_member, n.param_renamed = self.out_renamed, self.multi_member, self.param_renamed
        return n


def node_from_dag(fn: dict) -> Node:
    py = {o: p for o, p in zip(fn["orig"], fn["params"])}
    py.update({oo: o for oo, o in zip(fn["orig_outs"], fn["outs"])})
    return Node([fn["name"]], fn["params"], fn["bound"], fn["outs"], py)


def node_from_map(fn: dict) -> Node:
    names = [p["name"] for p in fn["params"]] + list(fn["outs"])
    return Node([fn["name"]], [p["name"] for p in fn["params"]], (), fn["outs"], {n: n for n in names})


class State:
    def __init__(self, nodes: list[Node]):
        self.nodes = nodes
        self.nm: dict[str, str] = {}
        for n in nodes:
            for x in n.names():
                self.nm[x] = x
        self.axes: list[dict] = []  # {"axis": name, "roots": [orig names], "n": N}
        self.opaque = False
        self.fresh = 0
        self.renamed_nested_outs: set[str] = set()  # current names of nested-function outputs renamed after nesting

    def clone(self) -> "State":
        s = State([])
        s.nodes = [n.clone() for n in self.nodes]
        s.nm = dict(self.nm)
        s.axes = _copy.deepcopy(self.axes)
        s.opaque = self.opaque
        s.fresh = self.fresh
        s.renamed_nested_outs = set(self.renamed_nested_outs)
        return s

    # --- queries
    def produced(self) -> dict[str, Node]:
        return {o: n for n in self.nodes for o in n.outs}

    def all_names(self) -> list[str]:
        return sorted({x for n in self.nodes for x in n.names()})

    def eff_roots(self) -> list[str]:
        prod = self.produced()
        return sorted({p for n in self.nodes for p in n.free() if p not in prod})

    def inv(self) -> dict[str, str]:
        return {v: k for k, v in self.nm.items()}

    def retained(self) -> list[str]:
        """original names of the outputs the current pipeline exposes"""
        inv = self.inv()
        return sorted(inv[o] for o in self.produced())

    def deps(self, n: Node) -> list[Node]:
        prod = self.produced()
        out = []
        for p in n.free():
            m = prod.get(p)
            if m is not None and m is not n and m not in out:
                out.append(m)
        return out

    def ancestors(self, n: Node, cut=()) -> list[Node]:
        prod = self.produced()
        seen: list[Node] = []
        stack = [n]
        while stack:
            x = stack.pop()
            for p in x.free():
                d = prod.get(p)
                if d is None or d is x or p in cut:
                    continue
                if not any(d is y for y in seen):
                    seen.append(d)
                    stack.append(d)
        return seen

    def root_args(self, n: Node, cut=()) -> set[str]:
        """root arguments (current names) a call for an output of `n` needs when the names in `cut` are supplied"""
        prod = self.produced()
        ra = set()
        for x in [n, *self.ancestors(n, cut)]:
            ra |= {p for p in x.free() if p not in prod and p not in cut}
        return ra

    def leaves(self, nodes=None) -> list[Node]:
        nodes = self.nodes if nodes is None else nodes
        used = set()
        for n in nodes:
            for d in self.deps(n):
                if d in nodes:
                    used.add(id(d))
        return [n for n in nodes if id(n) not in used]

    def components(self) -> list[list[Node]]:
        parent = list(range(len(self.nodes)))

        def find(i):
            while parent[i] != i:
                parent[i] = parent[parent[i]]
                i = parent[i]
            return i

        owner: dict[str, int] = {}
        for i, n in enumerate(self.nodes):
            for x in n.free() + n.outs:
                if x in owner:
                    parent[find(i)] = find(owner[x])
                else:
                    owner[x] = i
        groups: dict[int, list[Node]] = {}
        for i, n in enumerate(self.nodes):
            groups.setdefault(find(i), []).append(n)
        return list(groups.values())

    def has_nested(self) -> bool:
        return any(n.nested for n in self.nodes)

    def axis_roots(self) -> set[str]:
        return {r for a in self.axes for r in a["roots"]}

    # --- updates
    def rename(self, old: str, new: str) -> None:
        if old == new:
            return
        if old in self.renamed_nested_outs:
            self.renamed_nested_outs.discard(old)
            self.renamed_nested_outs.add(new)
        for n in self.nodes:
            if n.nested and old in n.outs:
                n.out_renamed = True
                self.renamed_nested_outs.add(new)
            if n.nested and old in n.params:
                n.param_renamed = True
            n.params = [new if p == old else p for p in n.params]
            n.outs = [new if p == old else p for p in n.outs]
            if old in n.bound:
                n.bound.discard(old)
                n.bound.add(new)
            if old in n.inner_bound:
                n.inner_bound.discard(old)
                n.inner_bound.add(new)
            n.py = {k: (new if v == old else v) for k, v in n.py.items()}
        for k, v in list(self.nm.items()):
            if v == old:
                self.nm[k] = new

    def restrict(self, nodes: list[Node]) -> None:
        self.nodes = list(nodes)
        keep = {x for n in nodes for x in n.names()}
        self.nm = {k: v for k, v in self.nm.items() if v in keep}

    def new_name(self) -> str:
        self.fresh += 1
        return f"n{self.fresh}"


# ------------------------------------------------------------------------------------------------
# calling conventions


def restyle(kw: dict, style: str) -> dict:
    if style == "dotted":
        return dict(kw)
    out: dict = {}
    seen: set[str] = set()
    for k, v in kw.items():
        if "." in k:
            sc, name = k.split(".", 1)
            if style == "mixed" and sc in seen:
                out[k] = v  # the second and later names of a scope stay dotted
            else:
                out.setdefault(sc, {})[name] = v
                seen.add(sc)
        else:
            out[k] = v
    return out


def snapshot(p) -> list[str]:
    rows = []
    for f in p.functions:
        try:
            rows.append(
                json.dumps(
                    [
                        list(at_tuple(f.output_name)),
                        list(f.parameters),
                        sorted((k, str(v)) for k, v in f.defaults.items()),
                        sorted((k, str(v)) for k, v in f.bound.items()),
                        sorted(f.renames.items()),
                        str(f.mapspec),
                    ]
                )
            )
        except Exception as e:  # a snapshot never raises
            rows.append(f"EXC:{type(e).__name__}:{e}"[:200])
    return sorted(rows)


# ------------------------------------------------------------------------------------------------
# case context


class Ctx:
    def __init__(self, kind: str, out: Outcome, data: dict):
        self.kind = kind
        self.out = out
        self.pick = data["pick"]
        self.around = bool(data["around"])
        self.eager = bool(self.pick & 1)
        self.applied: list[str] = []
        self.frozen: list[dict] = []
        self.gs: list = []
        self.labels: list[str] = []
        self.nested_dict_call = False
        self.units = 0
        self.p2_in = False
        self.n_join = 0
        self.sources: list = []  # (pipeline object, set of original output names)
        self.src_checked: set = set()
        self.ext: dict = {}
        self._model = None
        self.state: State = None  # type: ignore[assignment]
        self.cur = None
        self.map_base_inputs: dict = {}
        self.broken = False
        self.unpickled = False  # ctx.cur came out of cloudpickle.loads and no new Pipeline object was built since
        self.frozen_pending: dict = {}
        self.prog2: dict = {}
        self.prog0: dict = {}
        self.orig_map: dict = {}
        self.orig_inputs: set = set()
        self.orig_pipe = None

    # ---- reference
    def model(self) -> DagModel:
        if self._model is None:
            self._model = DagModel(self.ext)
        return self._model

    def ext_changed(self) -> None:
        self._model = None

    def tag(self) -> str:
        return "+".join(self.applied) or "none"

    def last(self) -> str:
        """bucket component: the rewrite applied last (eager cases verified every earlier step)"""
        return self.applied[-1] if self.applied else "none"

    # ---- failure classification: confirmed defects get one precise bucket each
    def classify(self, e: BaseException | None, detail: str = "") -> str | None:
        st_ = self.state
        if e is None:
            return None
        msg = str(e)
        import traceback

        tb = traceback.extract_tb(e.__traceback__)
        frames = [(f.filename.rsplit("/", 1)[-1], f.name) for f in tb]
        if isinstance(e, AttributeError) and "internal_shape" in msg and "NestedPipeFunc" in msg:
            return "DEFECT-nested-map-no-internal_shape"
        if isinstance(e, KeyError) and ("_pipefunc.py", "__call__") in frames[-2:] and st_.has_nested():
            key = e.args[0] if e.args else None
            if key in st_.renamed_nested_outs or any(n.nested and n.out_renamed and key in n.outs for n in st_.nodes):
                return "DEFECT-nested-output-renamed-KeyError"
            if any(n.nested and n.leaf_multi for n in st_.nodes):
                return "DEFECT-nested-tuple-leaf-KeyError"
        if "Missing" in msg or "missing" in msg:
            import re

            named = {base(t) for t in re.findall(r"[A-Za-z_][\w.]*", msg)}
            inv = st_.inv()
            md = self.model().defaults if self.kind == "dag" else {}
            lost = {base(x) for n in st_.nodes if n.nested and n.param_renamed for x in n.free() if inv.get(x) in md}
            if lost & named:
                # NestedPipeFunc.copy re-derives the defaults from the inner names: a renamed parameter loses its default
                return "DEFECT-nested-copy-drops-default-of-renamed-parameter"
            # a name bound inside a nest is exposed as a parameter of the NestedPipeFunc: it (or, when it is an upstream
            # output, the root arguments of its producers) becomes required
            ib = {x for n in st_.nodes for x in n.inner_bound}
            prod = st_.produced()
            extra = set(ib)
            for x in ib:
                if x in prod:
                    extra |= st_.root_args(prod[x])
            if {base(x) for x in extra} & named:
                return "DEFECT-nested-inner-bound-becomes-required"
        return None

    def fail_exc(self, e: BaseException, prefix: str, extra: str = "") -> None:
        b = self.classify(e) or exc_bucket(e, prefix)
        self.out.fail(b, f"[{self.tag()}] {extra} {exc_detail(e)}")

    # ---- non-interference bookkeeping
    def sample(self, obj, state: State):
        if self.kind == "map" or state.axes:
            return sample_map(self, obj, state)
        return sample_calls(self, obj, state)


# ------------------------------------------------------------------------------------------------
# DAG: values


def dag_kwargs(ctx: Ctx, state: State, o: str, oi: int, cut=()) -> dict:
    """keyword arguments (original names) for requesting `o` from the CURRENT structure: a nested function needs the
    root arguments of all its members, not only those of the member that produces `o`"""
    m = ctx.model()
    inv = state.inv()
    node = state.produced()[state.nm[o]]
    need = sorted(inv[r] for r in state.root_args(node, tuple(state.nm[c] for c in cut)))
    kw = {}
    rely = not (ctx.around and any(n.nested and n.param_renamed for n in state.nodes))
    for i, r in enumerate(need):
        if rely and r in m.defaults and (ctx.pick >> (1 + (oi + i) % 12)) & 1:
            continue
        kw[r] = f"V{r}"
    return kw


def sample_calls(ctx: Ctx, obj, state: State):
    vals = []
    outs = state.retained()
    inv = state.inv()
    prod = state.produced()
    for o in outs[:3]:
        kw = {inv[r]: f"V{inv[r]}" for r in state.root_args(prod[state.nm[o]])}
        try:
            vals.append([o, str(obj(state.nm[o], **{state.nm[r]: v for r, v in kw.items()}))])
        except Exception as e:
            vals.append([o, f"EXC:{type(e).__name__}"])
    return vals


def axis_values(r: str, n: int) -> list[str]:
    return [f"V{r}#{i}" for i in range(n)]


def dag_map_inputs(ctx: Ctx, state: State, skip_defaults: bool) -> tuple[dict, dict]:
    """(inputs keyed by current name, base keyword values keyed by original name)"""
    m = ctx.model()
    inv = state.inv()
    ax = {r: a["n"] for a in state.axes for r in a["roots"]}
    inputs, basekw = {}, {}
    for i, rc in enumerate(state.eff_roots()):
        r = inv[rc]
        if r in ax:
            inputs[rc] = axis_values(r, ax[r])
            continue
        if skip_defaults and r in m.defaults and (ctx.pick >> (3 + i % 10)) & 1 and not (ctx.around and any(n.nested and n.param_renamed for n in state.nodes)):
            continue
        inputs[rc] = f"V{r}"
        basekw[r] = f"V{r}"
    return inputs, basekw


def dag_expected_map(ctx: Ctx, state: State, o: str, basekw: dict):
    """(axes names, nested expected) for output o under map"""
    m = ctx.model()
    # dependence in the CURRENT structure: all outputs of a nested function are produced by one call and share its
    # MapSpec, so they gain the axis together (the values of an output that does not use p simply repeat)
    inv = state.inv()
    need = {inv[r] for r in state.root_args(state.produced()[state.nm[o]])}
    axes = [a for a in state.axes if set(a["roots"]) & need]
    if not axes:
        return [], m.evaluate(o, {k: v for k, v in basekw.items()})[0]
    shape = [a["n"] for a in axes]
    arr = np.empty(shape, dtype=object)
    for idx in itertools.product(*map(range, shape)):
        kw = dict(basekw)
        for a, i in zip(axes, idx):
            for r in a["roots"]:
                kw[r] = axis_values(r, a["n"])[i]
        arr[idx] = m.evaluate(o, kw)[0]
    return [a["axis"] for a in axes], arr


def sample_map(ctx: Ctx, obj, state: State):
    try:
        if ctx.kind == "map":
            inputs = map_inputs_cur(ctx, state)
            res = obj.map(inputs, internal_shapes=map_internal_shapes(ctx, state), parallel=False, storage="dict")
        else:
            inputs, _ = dag_map_inputs(ctx, state, False)
            res = obj.map(inputs, parallel=False, storage="dict")
        return [[k, mp.canon_text(res[k].output)] for k in sorted(res)]
    except Exception as e:
        return [["EXC", type(e).__name__]]


def check_calls(ctx: Ctx, cur, state: State, full: bool) -> None:
    """pipeline(out', **kw') == reference(out, **kw) for every retained output that pipeline(...) can compute."""
    out = ctx.out
    m = ctx.model()
    axr = state.axis_roots()
    prod = state.produced()
    for oi, o in enumerate(state.retained()):
        c = state.nm[o]
        inv = state.inv()
        if axr & {inv[r] for r in state.root_args(prod[c])}:
            continue  # documented: needs Pipeline.map
        plans = [("root", dag_kwargs(ctx, state, o, oi), ())]
        if full and not state.opaque:
            # one supplied intermediate: output of a single-output, un-nested function in another node
            cone = [f for f in m.cone(o) if f != m.producer[o]["name"]]
            cands = []
            for f in cone:
                fn = m.funcs[f]
                if len(fn["outs"]) != 1 or fn["outs"][0] not in state.nm:
                    continue
                node = prod.get(state.nm[fn["outs"][0]])
                if node is None or node.nested or node is prod[c]:
                    continue
                cands.append(fn["outs"][0])
            if cands:
                i = cands[(ctx.pick >> 5) % len(cands)]
                kw = dag_kwargs(ctx, state, o, oi, cut=(i,))
                kw[i] = f"S:{i}"
                try:
                    used = m.evaluate(o, kw)[5]
                    if i in used:
                        plans.append(("cut", kw, (i,)))
                except Missing:
                    pass
        for pname, kw, _ in plans:
            try:
                want = m.evaluate(o, kw)[0]
            except Missing as e:  # model bug guard
                raise AssertionError(f"model: {e}") from e
            if pname == "root" and o not in ctx.src_checked:
                # the untouched ORIGINAL object agrees with the reference (independent of the current structure)
                ctx.src_checked.add(o)
                kws = {r: f"V{r}" for i, r in enumerate(m.needed_roots(o)) if not (r in m.defaults and (ctx.pick >> (1 + (oi + i) % 12)) & 1)}
                for src, names in ctx.sources:
                    if o in names:
                        try:
                            w2 = src(o, **kws)
                            if w2 != m.evaluate(o, kws)[0]:
                                out.fail("original-differs-from-model", f"{o}: original {w2!r} model {m.evaluate(o, kws)[0]!r}")
                        except Exception as e:
                            out.fail(exc_bucket(e, "original-raised"), exc_detail(e))
            kwc = {state.nm[r]: v for r, v in kw.items()}
            styles = ["dotted"]
            if any("." in k for k in kwc):
                styles = ["dotted", "nested", "mixed"] if full else [["dotted", "nested", "mixed"][(ctx.pick >> 7) % 3]]
            for sty in styles:
                ctx.units += 1
                if sty != "dotted":
                    ctx.nested_dict_call = True
                    ctx.labels.append(f"call:{sty}")
                try:
                    got = cur(c, **restyle(kwc, sty))
                except Exception as e:
                    ctx.fail_exc(e, f"call-{pname}-{sty}-after:{ctx.last()}", f"{c} {sorted(kwc)}")
                    continue
                if got != want:
                    out.fail(f"value-{pname}-{sty}-after:{ctx.last()}", f"[{ctx.tag()}] {c}({sorted(kwc)}): got {got!r} want {want!r}")


def check_map_dag(ctx: Ctx, cur, state: State) -> None:
    out = ctx.out
    inputs, basekw = dag_map_inputs(ctx, state, True)
    sty = ["dotted", "nested", "mixed"][(ctx.pick >> 9) % 3] if any("." in k for k in inputs) else "dotted"
    if sty != "dotted":
        ctx.nested_dict_call = True
        ctx.labels.append(f"map:{sty}")
    ctx.units += 1
    try:
        res = cur.map(restyle(inputs, sty), parallel=False, storage="dict")
    except Exception as e:
        ctx.fail_exc(e, f"map-raised-after:{ctx.last()}", f"{sorted(inputs)}")
        return
    names = set()
    for o in state.retained():
        c = state.nm[o]
        names.add(c)
        axes, want = dag_expected_map(ctx, state, o, basekw)
        if c not in res:
            out.fail(f"map-missing-output-after:{ctx.last()}", c)
            continue
        got = res[c].output
        ctx.units += 1
        if not axes:
            if isinstance(got, np.ndarray) or got != want:
                out.fail(f"map-value-after:{ctx.last()}", f"[{ctx.tag()}] {c}: got {got!r} want {want!r}")
            continue
        ctx.labels.append("lifted-output")
        try:
            have = out_axes(cur, c)
        except Exception as e:
            out.fail(exc_bucket(e, "mapspecs-raised"), exc_detail(e))
            continue
        if sorted(have) != sorted(axes):
            out.fail(f"axis-set-after:{ctx.last()}", f"[{ctx.tag()}] {c}: axes {have} want {axes}")
            continue
        got = np.asarray(got, dtype=object)
        want_t = np.transpose(want, [axes.index(a) for a in have]) if len(axes) > 1 else want
        if got.shape != want_t.shape or mp.canon(got) != mp.canon(want_t):
            out.fail(f"axis-slice-after:{ctx.last()}", f"[{ctx.tag()}] {c}{list(have)}: got {mp.canon(got)} want {mp.canon(want_t)}")
    extra = [k for k in res if k not in names]
    if extra:
        out.fail(f"map-invented-output-after:{ctx.last()}", extra)


# ------------------------------------------------------------------------------------------------
# MAP campaign: values


def map_inputs_orig(ctx: Ctx, state: State) -> dict:
    """inputs keyed by ORIGINAL name (the lifted root stacked along a trailing axis)"""
    inputs = dict(ctx.map_base_inputs)
    for a in state.axes:
        for r in a["roots"]:
            inputs[r] = lifted_input(ctx, r, a["n"])
    return inputs


def lifted_slices(ctx: Ctx, r: str, n: int) -> list:
    prog = ctx.ext
    spec = prog["roots"][r]
    vals = []
    for i in range(n):
        v = mp.root_value(r, spec, prog["sizes"])
        if isinstance(v, str):
            vals.append(f"{v}#{i}")
        else:
            a = np.asarray(v, dtype=object)
            b = np.empty(a.shape, dtype=object)
            for idx in np.ndindex(a.shape):
                b[idx] = f"{a[idx]}#{i}"
            vals.append(b)
    return vals


def lifted_input(ctx: Ctx, r: str, n: int):
    """p = [v0, v1, ...]: stacked along a new trailing axis when some MapSpec lists p (its rank is known to the
    pipeline), otherwise a 1-D sequence whose elements are the whole values"""
    vals = lifted_slices(ctx, r, n)
    if isinstance(vals[0], str):
        return list(vals)
    listed = any(fn["mapspec"] and p_["name"] == r and p_["spec"] is not None for fn in ctx.ext["funcs"] for p_ in fn["params"])
    if listed:
        return np.stack(vals, axis=-1)
    arr = np.empty(n, dtype=object)
    for i, v in enumerate(vals):
        arr[i] = v
    return arr


def out_axes(cur, c: str) -> tuple:
    """axes of output `c` as declared by the MapSpec of the function that produces it (() without MapSpec)"""
    for ms in cur.mapspecs():
        for a in ms.outputs:
            if a.name == c:
                return tuple(a.axes)
    return ()


def map_inputs_cur(ctx: Ctx, state: State) -> dict:
    used = set(state.eff_roots())
    return {state.nm[r]: v for r, v in map_inputs_orig(ctx, state).items() if r in state.nm and state.nm[r] in used}


def map_internal_shapes(ctx: Ctx, state: State):
    ish = mp.internal_shapes_arg(ctx.ext)
    if not ish:
        return None
    return {state.nm[k]: v for k, v in ish.items() if k in state.nm} or None


def check_map_map(ctx: Ctx, cur, state: State) -> None:
    out = ctx.out
    prog = ctx.ext
    inputs = map_inputs_cur(ctx, state)
    sty = ["dotted", "nested", "mixed"][(ctx.pick >> 9) % 3] if any("." in k for k in inputs) else "dotted"
    if sty != "dotted":
        ctx.nested_dict_call = True
        ctx.labels.append(f"map:{sty}")
    ctx.units += 1
    try:
        res = cur.map(restyle(inputs, sty), internal_shapes=map_internal_shapes(ctx, state), parallel=False, storage="dict")
    except Exception as e:
        ctx.fail_exc(e, f"map-raised-after:{ctx.last()}", f"{sorted(inputs)}")
        return
    if not state.axes:
        ref = mp.denotation(prog, dict(ctx.map_base_inputs))
        for o in state.retained():
            c = state.nm[o]
            ctx.units += 1
            if c not in res:
                out.fail(f"map-missing-output-after:{ctx.last()}", c)
            elif mp.canon(res[c].output) != mp.canon(ref[o]):
                out.fail(f"map-value-after:{ctx.last()}", f"[{ctx.tag()}] {c}: got {str(mp.canon(res[c].output))[:200]} want {str(mp.canon(ref[o]))[:200]}")
            elif o in ctx.orig_map and mp.canon(ctx.orig_map[o]) != mp.canon(ref[o]):
                out.fail("original-differs-from-model", o)
        return
    a = state.axes[0]
    r, n = a["roots"][0], a["n"]
    slices = lifted_slices(ctx, r, n)
    prod = mp.func_of_output(prog)

    def depends(o, seen=None):
        seen = seen or set()
        fn = prod[o]
        for p_ in fn["params"]:
            if p_["name"] == r:
                return True
            if p_["name"] in prod and p_["name"] not in seen:
                seen.add(p_["name"])
                if depends(p_["name"], seen):
                    return True
        return False

    refs = []
    origs = []
    for i in range(n):
        inp = dict(ctx.map_base_inputs)
        inp[r] = slices[i]
        refs.append(mp.denotation(prog, inp))
        try:
            origs.append(ctx.orig_pipe.map({k: v for k, v in inp.items() if k in ctx.orig_inputs}, internal_shapes=mp.internal_shapes_arg(ctx.prog0), parallel=False, storage="dict"))
        except Exception as e:
            out.fail(exc_bucket(e, "original-map-raised"), exc_detail(e))
            origs.append(None)
    for o in state.retained():
        c = state.nm[o]
        ctx.units += 1
        if c not in res:
            out.fail(f"map-missing-output-after:{ctx.last()}", c)
            continue
        got = res[c].output
        try:
            have = out_axes(cur, c)
        except Exception as e:
            out.fail(exc_bucket(e, "mapspecs-raised"), exc_detail(e))
            continue
        if not depends(o):
            if a["axis"] in have:
                out.fail(f"axis-on-independent-output-after:{ctx.last()}", f"{c}: axes {have}")
            elif mp.canon(got) != mp.canon(refs[0][o]):
                out.fail(f"axis-changed-independent-output-after:{ctx.last()}", f"{c}: got {str(mp.canon(got))[:200]} want {str(mp.canon(refs[0][o]))[:200]}")
            continue
        ctx.labels.append("lifted-output")
        if have.count(a["axis"]) != 1:
            out.fail(f"axis-set-after:{ctx.last()}", f"[{ctx.tag()}] {c}: axes {have} lack {a['axis']}")
            continue
        want_axes = [x for x in prod[o]["out_axes"]]
        if [x for x in have if x != a["axis"]] != want_axes and prod[o]["mapspec"]:
            out.fail(f"axis-reordered-existing-after:{ctx.last()}", f"{c}: axes {have} original {want_axes}")
            continue
        pos = have.index(a["axis"])
        arr = np.asarray(got, dtype=object) if not isinstance(got, np.ma.MaskedArray) else got
        if arr.ndim <= pos or arr.shape[pos] != n:
            out.fail(f"axis-shape-after:{ctx.last()}", f"{c}: shape {arr.shape} axes {have}")
            continue
        for i in range(n):
            sl = np.take(arr, i, axis=pos)
            if mp.canon(sl) != mp.canon(refs[i][o]):
                out.fail(f"axis-slice-after:{ctx.last()}", f"[{ctx.tag()}] {c}[{have}] n={i}: got {str(mp.canon(sl))[:200]} want {str(mp.canon(refs[i][o]))[:200]}")
                break
            if origs[i] is not None and o in origs[i] and mp.canon(origs[i][o].output) != mp.canon(refs[i][o]):
                out.fail("original-differs-from-model", f"{o} slice {i}")
                break


def check_values(ctx: Ctx, full: bool) -> None:
    if ctx.kind == "dag":
        check_calls(ctx, ctx.cur, ctx.state, full)
        if full:
            if ctx.around and ctx.state.has_nested():
                ctx.labels.append("map-skipped-around-nested")
            else:
                check_map_dag(ctx, ctx.cur, ctx.state)
    elif full or ctx.eager:
        check_map_map(ctx, ctx.cur, ctx.state)


# ------------------------------------------------------------------------------------------------
# rewrites.  Each returns True when it was applied.


def op_copy(ctx: Ctx, rec: dict) -> bool:
    try:
        new = ctx.cur.copy()
    except Exception as e:
        ctx.fail_exc(e, "copy-raised")
        return False
    _after_new(ctx, new, "copy")
    return True


def _after_new(ctx: Ctx, new, why: str, state_before: State | None = None) -> None:
    """`new` was derived from ctx.cur by an operation documented to return a new pipeline."""
    fr = ctx.frozen_pending
    if snapshot(ctx.cur) != fr["snap"]:
        ctx.out.fail(f"{why}-mutated-its-input", f"before {fr['snap']} after {snapshot(ctx.cur)}")
    ctx.frozen.append(fr)
    ctx.cur = new
    ctx.unpickled = why == "pickle"


def op_pickle(ctx: Ctx, rec: dict) -> bool:
    import cloudpickle

    try:
        new = cloudpickle.loads(cloudpickle.dumps(ctx.cur))
    except Exception as e:
        ctx.fail_exc(e, "pickle-raised")
        return False
    _after_new(ctx, new, "pickle")
    return True


def _join_func_dag(ctx: Ctx, rec: dict, k: int):
    st_ = ctx.state
    sel = rec["sel"] >> (4 * k)
    j = ctx.n_join
    ctx.n_join += 1
    inv = st_.inv()
    if st_.axes:
        cands = []
    else:
        cands = [c for c in sorted(set(st_.produced()) | set(st_.eff_roots())) if c in inv]
    chosen = []
    if cands and sel & 1:
        chosen.append(cands[(sel >> 2) % len(cands)])
        if len(cands) > 1 and sel & 2:
            c2 = cands[(sel >> 5) % len(cands)]
            if c2 not in chosen:
                chosen.append(c2)
    newroot = f"jr{j}"
    if not chosen or (sel >> 8) & 1:
        chosen.append(newroot)
    outn = f"jo{j}"
    fn_cur = {
        "name": f"g{j}", "params": list(chosen), "orig": [f"q{i}" for i in range(len(chosen))], "outs": [outn],
        "orig_outs": [outn], "sig_defaults": {}, "pf_defaults": {}, "bound": {}, "picker": None, "cache": False,
    }  # fmt: skip
    fn_orig = dict(fn_cur, params=[inv.get(c, c) for c in chosen])
    g = make_pipefunc(fn_cur, None)
    return g, fn_cur, fn_orig


def _join_func_map(ctx: Ctx, rec: dict, k: int):
    """element-wise consumer of one output (or whole-value consumer of a rank-0 one)"""
    from pipefunc import PipeFunc

    st_ = ctx.state
    prog = ctx.ext
    j = ctx.n_join
    ctx.n_join += 1
    prod = mp.func_of_output(prog)
    if st_.axes:
        return None  # an element-wise consumer of a lifted output would need the new axis as well
    # not the auto-generated-MapSpec producers: naming their axes in a later consumer is C01's open finding
    cands = [o for o in st_.retained() if prod[o]["mapspec"] or not prod[o]["out_axes"]]
    if not cands:
        return None
    o = cands[(rec["sel"] >> (4 * k)) % len(cands)]
    axes = list(prod[o]["out_axes"])
    fn = {
        "name": f"g{j}", "outs": [f"jo{j}"], "picker": None, "mapspec": bool(axes),
        "params": [{"name": o, "spec": list(axes) if axes else None}], "out_axes": list(axes), "int_axes": [],
        "ret": "list", "shape_via": "map",
    }  # fmt: skip
    body = mp.make_body(prog, fn)
    c = st_.nm[o]
    ms = None
    if axes:
        ms = f"{c}[{', '.join(axes)}] -> jo{j}[{', '.join(axes)}]"
    g = PipeFunc(body, f"jo{j}", renames=({o: c} if c != o else None), mapspec=ms)
    return g, fn


def op_join(ctx: Ctx, rec: dict) -> bool:
    st_ = ctx.state
    what = rec["what"]
    if ctx.kind == "map":
        what = "func"
    if what == "prog" and (ctx.p2_in or st_.axes):
        what = "func"
    via = rec["via"]
    if what == "prog":
        p2 = build_dag(ctx.prog2)
        st2 = State([node_from_dag(fn) for fn in ctx.prog2["funcs"]])
        fr2 = {"obj": p2, "state": st2, "snap": snapshot(p2), "vals": ctx.sample(p2, st2), "why": "join-operand"}
        try:
            new = ctx.cur.join(p2) if via == "join" else ctx.cur | p2
        except Exception as e:
            ctx.fail_exc(e, "join-raised")
            return False
        if snapshot(p2) != fr2["snap"]:
            ctx.out.fail("join-mutated-its-operand", "second pipeline")
        ctx.frozen.append(fr2)
        _after_new(ctx, new, "join")
        for n in st2.nodes:
            st_.nodes.append(n.clone())
            for x in n.names():
                st_.nm[x] = x
        ctx.p2_in = True
        ctx.sources.append((p2, {o for fn in ctx.prog2["funcs"] for o in fn["outs"]}))
        ctx.labels.append("join:prog")
        return True
    nfun = 2 if (what == "funcs2" and via == "join") else 1
    gs = []
    for k in range(nfun):
        if ctx.kind == "dag":
            g, fn_cur, fn_orig = _join_func_dag(ctx, rec, k)
            gs.append((g, fn_cur, fn_orig))
        else:
            r = _join_func_map(ctx, rec, k)
            if r is None:
                return False
            gs.append((r[0], None, r[1]))
    try:
        new = ctx.cur.join(*[g for g, _, _ in gs]) if via == "join" else ctx.cur | gs[0][0]
    except Exception as e:
        ctx.fail_exc(e, "join-func-raised")
        return False
    _after_new(ctx, new, "join")
    for g, fn_cur, fn_orig in gs:
        if ctx.kind == "dag":
            ctx.ext["funcs"].append(fn_orig)
            node = node_from_dag(fn_cur)
        else:
            ctx.ext["funcs"].append(fn_orig)
            c = st_.nm[fn_orig["params"][0]["name"]]
            node = Node([fn_orig["name"]], [c], (), fn_orig["outs"], {fn_orig["params"][0]["name"]: c, fn_orig["outs"][0]: fn_orig["outs"][0]})
        st_.nodes.append(node)
        known = set(st_.nm.values())
        for x in node.names():
            if x not in known:
                st_.nm[x] = x  # new root / new output: original name == current name
        ctx.ext_changed()
        # the operand PipeFunc is copied by add(): mutating it afterwards must not reach the result
        on = at_tuple(g.output_name)[0]
        try:
            g.update_renames({on: on + "_mut"})
            ctx.gs.append((g, on + "_mut"))
        except Exception as e:
            ctx.fail_exc(e, "operand-update_renames-raised")
    ctx.labels.append(f"join:func{nfun}")
    return True


def op_rename(ctx: Ctx, rec: dict) -> bool:
    st_ = ctx.state
    cur = ctx.cur
    inner = {x for n in st_.nodes for x in n.inner_bound}
    cands = [x for x in st_.all_names() if x not in inner]
    iface = set(st_.produced()) | set(st_.eff_roots())
    if ctx.around:
        cands = [x for x in cands if not any(n.nested and x in n.outs for n in st_.nodes)]
    if not cands:
        return False
    sel = rec["sel"]
    chosen = []
    for k in range(rec["n"]):
        x = cands[(sel >> (3 * k)) % len(cands)]
        if x not in chosen:
            chosen.append(x)
    level, frm = rec["level"], rec["frm"]
    if ctx.around and ctx.unpickled and level == "function":
        level = "pipeline"
        ctx.labels.append("rename:function->pipeline-around-unpickled")
    if st_.opaque and frm == "original":
        frm = "current"
    renames: dict[str, str] = {}
    for x in chosen:
        if rec["style"] == "dotted" and x in iface:
            renames[x] = f"sC.{base(x)}" if not x.startswith("sC.") else st_.new_name()
        else:
            renames[x] = st_.new_name()
    ctx.labels.append(f"rename:{level}:{frm}")
    if level == "pipeline":
        arg = {}
        if frm == "original":
            for x, new in renames.items():
                keys = {k for n in st_.nodes for k, v in n.py.items() if v == x}
                ok = len(keys) == 1
                if ok:
                    (k,) = keys
                    ok = all(n.py[k] == x for n in st_.nodes if k in n.py)
                if not ok:
                    arg = None
                    break
                arg[k] = new
            if arg is None:
                frm = "current"
                ctx.labels.append("rename:original-fallback")
        if frm == "current":
            arg = dict(renames)
        try:
            cur.update_renames(arg, update_from=frm)
        except Exception as e:
            ctx.fail_exc(e, f"update_renames-{frm}-raised", str(arg))
            return False
    else:
        try:
            fobj = {id(n): cur[n.outs[0]] for n in st_.nodes}  # pipeline[output_name], before anything is renamed
        except Exception as e:
            ctx.fail_exc(e, "getitem-raised")
            return False
        for x, new in renames.items():
            for f, n in [(fobj[id(n)], n) for n in st_.nodes if x in n.names()]:
                key = x
                if frm == "original":
                    key = next(k for k, v in n.py.items() if v == x)
                try:
                    f.update_renames({key: new}, update_from=frm)
                except Exception as e:
                    ctx.fail_exc(e, f"func-update_renames-{frm}-raised", f"{key}->{new}")
                    return False
            st_.rename(x, new)
        _stale_check(ctx)
        return True
    for x, new in renames.items():
        st_.rename(x, new)
    return True


def _stale_check(ctx: Ctx) -> None:
    """After function-level updates the pipeline's public views must show the new names."""
    st_ = ctx.state
    cur = ctx.cur
    try:
        views = {
            "root_args/all_output_names": set(cur.topological_generations.root_args) | set(cur.all_output_names),
            "output_to_func/graph": {k for k in cur.output_to_func if isinstance(k, str)} | {x for x in cur.graph.nodes if isinstance(x, str)},
        }
    except Exception as e:
        ctx.fail_exc(e, "views-after-function-level-update-raised")
        return
    inner = {x for n in st_.nodes for x in n.inner_bound}
    want = set(st_.eff_roots()) | set(st_.produced())
    ib = {base(x) for x in inner}
    for vname, have in views.items():
        if {x for x in have if base(x) not in ib} != {x for x in want if base(x) not in ib}:
            b = "DEFECT-unpickled-pipeline-stale-after-function-level-update" if ctx.unpickled else "pipeline-stale-after-function-level-update"
            ctx.out.fail(b, f"[{ctx.tag()}] pipeline.{vname} shows {sorted(have)} functions have {sorted(want)}")
            break
    if ctx.unpickled:
        try:
            cur.update_renames({})  # a pipeline-level call refreshes every view; keeps exploring behind the defect
        except Exception as e:
            ctx.fail_exc(e, "empty-update_renames-raised")


def _scope_apply(ctx: Ctx, scope, inputs_sel, outputs_sel, exclude_sel, in_arg, out_arg, ex_arg, label) -> bool:
    st_ = ctx.state
    R, O = st_.eff_roots(), sorted(st_.produced())
    selected = [x for x in R if inputs_sel is not None and x in inputs_sel] + [x for x in O if outputs_sel is not None and x in outputs_sel]
    selected = [x for x in selected if x not in (exclude_sel or ())]
    if scope is None:
        renames = {x: base(x) for x in selected}
    else:
        renames = {x: f"{scope}.{base(x)}" for x in selected}
    ctx.labels.append(label)
    try:
        ctx.cur.update_scope(scope, inputs=in_arg, outputs=out_arg, exclude=ex_arg)
    except Exception as e:
        ctx.fail_exc(e, f"{label}-raised", f"inputs={in_arg} outputs={out_arg} exclude={ex_arg}")
        return False
    for x, new in renames.items():
        st_.rename(x, new)
    return True


def _scope_sets(ctx: Ctx, rec: dict, mode_in, mode_out, with_exclude: bool):
    st_ = ctx.state
    R, O = st_.eff_roots(), sorted(st_.produced())
    sel = rec["sel"]
    protect = set()
    if ctx.around:
        protect = {x for n in st_.nodes if n.nested for x in n.outs}
    ins = set(R) if mode_in == "*" else ({R[i] for i in bits(sel, len(R))} if mode_in == "some" else None)
    outs = set(O) if mode_out == "*" else ({O[i] for i in bits(sel >> 6, len(O))} if mode_out == "some" else None)
    in_arg = "*" if mode_in == "*" else (set(ins) if ins is not None else None)
    out_arg = "*" if mode_out == "*" else (set(outs) if outs is not None else None)
    pool = R + O
    ex = {pool[i] for i in bits(sel >> 12, len(pool))} if with_exclude else set()
    ex |= protect & set(O) if outs is not None else set()
    ex_arg = set(ex) if (with_exclude or ex) else None
    return ins, outs, ex, in_arg, out_arg, ex_arg


def op_scope(ctx: Ctx, rec: dict) -> bool:
    ins, outs, ex, in_arg, out_arg, ex_arg = _scope_sets(ctx, rec, rec["inputs"], rec["outputs"], rec["exclude"])
    return _scope_apply(ctx, rec["scope"], ins, outs, ex, in_arg, out_arg, ex_arg, "scope")


def op_unscope(ctx: Ctx, rec: dict) -> bool:
    mode = rec["part"]
    ins, outs, ex, in_arg, out_arg, ex_arg = _scope_sets(ctx, rec, mode, mode, False)
    return _scope_apply(ctx, None, ins, outs, ex, in_arg, out_arg, ex_arg, "unscope")


def _nest_candidates(st_: State) -> list[list[Node]]:
    nodes = st_.nodes
    n = len(nodes)
    if n < 2 or n > 9:
        return []
    anc = {id(x): {id(a) for a in st_.ancestors(x)} for x in nodes}
    res = []
    for mask in range(3, 1 << n):
        S = [nodes[i] for i in range(n) if mask >> i & 1]
        if len(S) < 2:
            continue
        if len(st_.leaves(S)) != 1:
            continue
        ids = {id(x) for x in S}
        convex = True
        for x in nodes:
            if id(x) in ids:
                continue
            below = bool(anc[id(x)] & ids)  # x depends on S
            above = any(id(x) in anc[id(s)] for s in S)  # S depends on x
            if below and above:
                convex = False
                break
        if convex:
            res.append(S)
    return res


def op_nest(ctx: Ctx, rec: dict) -> bool:
    from pipefunc import NestedPipeFunc, Pipeline

    st_ = ctx.state
    if st_.axes or st_.opaque or ctx.kind == "map":
        return False
    cands = _nest_candidates(st_)
    via = rec["via"]
    if via == "star":
        cands = [S for S in cands if len(S) == len(st_.nodes)]
        if not cands:
            via = "nest_funcs"
            cands = _nest_candidates(st_)

    def risky(S):
        leaf = st_.leaves(S)[0]
        return (
            len(leaf.outs) > 1
            or any(n.bound or n.inner_bound for n in S)
            or any("." in x for n in S for x in n.names())
        )

    why = "few-nodes" if len(st_.nodes) < 2 else "no-convex-single-leaf-subset"
    if ctx.around and cands:
        cands = [S for S in cands if not risky(S)]
        why = "around-defects"
    if not cands:
        ctx.labels.append(f"nest:na:{why}")
        return False
    sel = rec["sel"]
    S = cands[sel % len(cands)]
    ids = {id(x) for x in S}
    leaf = st_.leaves(S)[0]
    inner_outs = [o for n in S for o in n.outs]
    needed = [o for o in inner_outs if any(o in x.free() for x in st_.nodes if id(x) not in ids)]
    mode = rec["new"]
    if mode == "none":
        exposed = sorted(inner_outs)
        new_arg = None
    else:
        if mode == "min":
            exposed = list(needed) or [leaf.outs[0]]
        elif mode == "some":
            extra = [o for i, o in enumerate(inner_outs) if o not in needed and (sel >> (4 + i)) & 1]
            exposed = list(needed) + extra or [leaf.outs[0]]
        else:
            exposed = list(inner_outs)
        rot = (sel >> 10) % len(exposed)
        exposed = exposed[rot:] + exposed[:rot]
        if (sel >> 13) & 1:
            exposed.reverse()
        new_arg = exposed[0] if len(exposed) == 1 else tuple(exposed)
    scoped = any("." in x for n in S for x in n.names())
    ctx.labels.append(f"nest:{via}:{mode}")
    try:
        if via == "ctor":
            funcs = [ctx.cur[n.outs[0]] for n in S]
            nested = NestedPipeFunc(funcs, output_name=new_arg)
            new = Pipeline([f for f in ctx.cur.functions if not any(f is g for g in funcs)] + [nested])
        elif via == "star":
            ctx.cur.nest_funcs("*", new_arg)
        else:
            names = set()
            for i, n in enumerate(S):
                names.add(tuple(n.outs) if len(n.outs) > 1 and (sel >> (16 + i)) & 1 and not n.nested else n.outs[(sel >> i) % len(n.outs)])
            ctx.cur.nest_funcs(names, new_arg)
    except Exception as e:
        if scoped and isinstance(e, ValueError) and "not a valid parameter name" in str(e):
            ctx.out.fail("DEFECT-nest-scoped-name-invalid-parameter", f"[{ctx.tag()}] {exc_detail(e)}")
        elif type(e).__name__ == "NetworkXUnfeasible" and any(n.bound or n.inner_bound for n in S):
            # the bound name is an upstream output: exposed as a parameter it closes a cycle
            ctx.out.fail("DEFECT-nested-inner-bound-becomes-required", f"[{ctx.tag()}] nest: {exc_detail(e)}")
        else:
            ctx.fail_exc(e, f"nest-{via}-raised", f"{[n.outs for n in S]} new={new_arg}")
        if via != "ctor":
            ctx.broken = True  # nest_funcs drops the functions before it fails: the pipeline is unusable now
        return False
    if via == "ctor":
        _after_new(ctx, new, "NestedPipeFunc")
    # structural model
    params: list[str] = []
    for n in S:
        for p in n.free():
            if p not in inner_outs and p not in params:
                params.append(p)
    free_names = {p for n in S for p in n.free()}
    inner_bound = {p for n in S for p in (set(n.bound) | n.inner_bound) if p not in free_names and p not in inner_outs}
    node = Node([m for n in S for m in n.members], params + sorted(inner_bound), inner_bound, exposed, {x: x for x in params + sorted(inner_bound) + exposed})
    node.nested = True
    node.inner_bound = set(inner_bound)
    node.leaf_multi = len(leaf.outs) > 1 or any(n.leaf_multi for n in S)
    node.multi_member = any(len(n.outs) > 1 or n.multi_member for n in S)
    st_.nodes = [x for x in st_.nodes if id(x) not in ids] + [node]
    keep = {x for n in st_.nodes for x in n.names()}
    st_.nm = {k: v for k, v in st_.nm.items() if v in keep}
    return True


def op_simplify(ctx: Ctx, rec: dict) -> bool:
    from pipefunc import NestedPipeFunc

    st_ = ctx.state
    if st_.axes or st_.opaque or ctx.kind == "map":
        return False  # (after a simplification the structural model is only approximate: no second one)
    prod = st_.produced()
    leaves = st_.leaves()
    names = sorted(prod)
    sel = rec["sel"]
    sure = sorted(o for o in names if any(st_.root_args(P) == st_.root_args(prod[o]) for P in st_.deps(prod[o])))
    if sel & 3 and sure:  # mostly a target for which the documented criterion guarantees a combinable node
        target = sure[(sel >> 2) % len(sure)]
    elif sel & 1:
        lo = sorted(o for n in leaves for o in n.outs)
        target = lo[(sel >> 2) % len(lo)]
    else:
        target = names[(sel >> 2) % len(names)]
    T = prod[target]
    cone = [T, *st_.ancestors(T)]
    if ctx.around and (
        any(len(n.outs) > 1 for n in cone)
        or any(n.bound or n.inner_bound for n in cone)
        or any("." in x for n in cone for x in n.names())
        or any(n.nested for n in cone)
    ):
        ctx.labels.append("simplify:skipped-around")
        return False
    use_default = rec["default_out"] and len(leaves) == 1 and target in leaves[0].outs and len(leaves[0].outs) == 1
    ctx.labels.append("simplify:" + ("default" if use_default else "named") + (":conservative" if rec["conservative"] else ""))
    must = any(st_.root_args(P) == st_.root_args(T) for P in st_.deps(T))
    if rec["conservative"]:
        must = bool(st_.deps(T)) and all(st_.root_args(P) == st_.root_args(T) for P in st_.deps(T))
    try:
        if use_default:
            new = ctx.cur.simplified_pipeline(conservatively_combine=rec["conservative"])
        else:
            new = ctx.cur.simplified_pipeline(target, conservatively_combine=rec["conservative"])
    except ValueError as e:
        if "No combinable nodes" in str(e):
            if must:
                ctx.out.fail("simplify-refused-although-combinable", f"[{ctx.tag()}] target {target}")
            ctx.labels.append("simplify:refused")
            return False
        if "not a valid parameter name" in str(e) and any("." in x for n in cone for x in n.names()):
            ctx.out.fail("DEFECT-nest-scoped-name-invalid-parameter", f"[{ctx.tag()}] simplified_pipeline: {exc_detail(e)}")
            return False
        ctx.fail_exc(e, "simplify-raised", target)
        return False
    except TypeError as e:
        if "not supported between" in str(e) and any(len(n.outs) > 1 for n in cone):
            ctx.out.fail("DEFECT-simplify-tuple-output-TypeError", f"[{ctx.tag()}] target {target}: {exc_detail(e)}")
        else:
            ctx.fail_exc(e, "simplify-raised", target)
        return False
    except Exception as e:
        if type(e).__name__ == "NetworkXUnfeasible" and any(n.bound or n.inner_bound for n in cone):
            ctx.out.fail("DEFECT-nested-inner-bound-becomes-required", f"[{ctx.tag()}] simplified_pipeline: {exc_detail(e)}")
        else:
            ctx.fail_exc(e, "simplify-raised", target)
        return False
    try:
        kept = set(new.all_output_names)
    except Exception as e:
        ctx.fail_exc(e, "simplify-result-unusable")
        return False
    if target not in kept:
        ctx.out.fail("simplify-dropped-requested-output", f"{target} not in {sorted(kept)}")
    if kept - set(prod):
        ctx.out.fail("simplify-invented-output", sorted(kept - set(prod)))
    pre_known = set(st_.eff_roots()) | set(prod)
    pre_nodes = list(st_.nodes)
    _after_new(ctx, new, "simplified_pipeline")
    nodes = []
    for f in new.functions:
        outs = list(at_tuple(f.output_name))
        old = next((n for n in pre_nodes if n.outs == outs and set(n.params) == set(f.parameters)), None)
        if old is not None:
            nodes.append(old)
            continue
        ps = list(f.parameters)
        ib = {p for p in ps if p not in pre_known}
        node = Node(["<simplified>"], ps, set(f.bound) | ib, [o for o in outs if o in prod], {x: x for x in ps + outs})
        node.nested = isinstance(f, NestedPipeFunc)
        node.inner_bound = ib
        node.leaf_multi = any(len(n.outs) > 1 or n.leaf_multi for n in cone)
        node.multi_member = node.leaf_multi
        nodes.append(node)
    st_.nodes = nodes
    keep = {x for n in nodes for x in n.names()}
    st_.nm = {k: v for k, v in st_.nm.items() if v in keep}
    st_.opaque = True
    return True


def op_split(ctx: Ctx, rec: dict) -> bool:
    st_ = ctx.state
    if ctx.kind == "map":
        return False
    comps = st_.components()
    ctx.labels.append("split:" + ("1" if len(comps) == 1 else "n"))
    try:
        parts = ctx.cur.split_disconnected()
    except ValueError as e:
        if len(comps) == 1 and "fully connected" in str(e):
            return False
        if "fully connected" in str(e) and any(n.inner_bound for n in st_.nodes):
            # the bound name exposed as a parameter of the nest connects otherwise separate components
            ctx.out.fail("DEFECT-nested-inner-bound-becomes-required", f"[{ctx.tag()}] split_disconnected: {exc_detail(e)}")
            return False
        ctx.fail_exc(e, "split-raised")
        return False
    except Exception as e:
        ctx.fail_exc(e, "split-raised")
        return False
    if len(comps) == 1:
        ctx.out.fail("split-of-connected-pipeline-returned", f"{len(parts)} parts")
        return False
    try:
        got = sorted(sorted(p.all_output_names) for p in parts)
    except Exception as e:
        ctx.fail_exc(e, "split-result-unusable")
        return False
    want = sorted(sorted(o for n in comp for o in n.outs) for comp in comps)
    if got != want:
        b = "DEFECT-nested-inner-bound-becomes-required" if any(n.inner_bound for n in st_.nodes) else "split-partition-differs"
        ctx.out.fail(b, f"[{ctx.tag()}] split_disconnected: got {got} want {want}")
        return False
    comps.sort(key=lambda comp: sorted(o for n in comp for o in n.outs))
    k = rec["sel"] % len(comps)
    comp = comps[k]
    part = next(p for p in parts if sorted(p.all_output_names) == sorted(o for n in comp for o in n.outs))
    if ctx.eager:  # every other part computes its outputs as well
        for other in comps:
            if other is comp:
                continue
            outs = sorted(o for n in other for o in n.outs)
            p = next(p for p in parts if sorted(p.all_output_names) == outs)
            idx = [i for i, n in enumerate(st_.nodes) if any(n is x for x in other)]
            s2 = st_.clone()
            s2.restrict([s2.nodes[i] for i in idx])
            ctx.applied.append("split")
            check_calls(ctx, p, s2, False)
            ctx.applied.pop()
    _after_new(ctx, part, "split_disconnected")
    st_.restrict(comp)
    return True


def _mixed_use(ctx: Ctx, r: str) -> bool:
    """root `r` is indexed by some MapSpec and used whole (not listed) by another function"""
    uses = [(fn["mapspec"] and p_["spec"] is not None) for fn in ctx.ext["funcs"] for p_ in fn["params"] if p_["name"] == r]
    return any(uses) and not all(uses)


def op_axis(ctx: Ctx, rec: dict) -> bool:
    st_ = ctx.state
    if ctx.around and st_.has_nested():
        ctx.labels.append("axis:skipped-around-nested")
        return False
    inv = st_.inv()
    done = st_.axis_roots()
    if ctx.kind == "map":
        if st_.axes:
            return False
        cands = [c for c in st_.eff_roots() if inv[c] in ctx.prog0["roots"]]
        if ctx.around:
            cands = [c for c in cands if not _mixed_use(ctx, inv[c])]
    else:
        if len(st_.axes) >= 2:
            return False
        cands = [c for c in st_.eff_roots() if inv[c] not in done]
    if not cands:
        return False
    sel = rec["sel"]
    k = 1 if ctx.kind == "map" else min(rec["k"], len(cands))
    chosen = [cands[sel % len(cands)]]
    if k == 2:
        c2 = cands[(sel >> 4) % len(cands)]
        if c2 not in chosen:
            chosen.append(c2)
    axis = f"ax{len(st_.axes)}"
    n = 2 if ctx.kind == "map" else rec["n"]
    ctx.labels.append(f"axis:k{len(chosen)}")
    try:
        ctx.cur.add_mapspec_axis(*chosen, axis=axis)
    except Exception as e:
        if ctx.kind == "map" and isinstance(e, ValueError) and "are inconsistent" in str(e) and _mixed_use(ctx, inv[chosen[0]]):
            ctx.out.fail("DEFECT-add_mapspec_axis-indexed-and-whole-root-inconsistent-axes", f"[{ctx.tag()}] {chosen}: {exc_detail(e)}")
        else:
            ctx.fail_exc(e, "add_mapspec_axis-raised", f"{chosen}")
        ctx.broken = True
        return False
    st_.axes.append({"axis": axis, "roots": [inv[c] for c in chosen], "n": n})
    return True


OPS = {
    "copy": op_copy, "pickle": op_pickle, "join": op_join, "rename": op_rename, "scope": op_scope,
    "unscope": op_unscope, "nest": op_nest, "simplify": op_simplify, "split": op_split, "axis": op_axis,
}  # fmt: skip
NEW_PIPELINE_OPS = {"copy", "pickle", "join", "simplify", "split", "nest"}  # nest only via the constructor


# ------------------------------------------------------------------------------------------------
# shared driver


def run_sequence(ctx: Ctx, rws: list[dict]) -> None:
    out = ctx.out
    ctx.broken = False
    for rec in rws:
        if ctx.broken:
            break
        # the input of an operation that returns a new pipeline is frozen *before* the operation
        st_before = ctx.state.clone()
        ctx.frozen_pending = {"obj": ctx.cur, "state": st_before, "snap": snapshot(ctx.cur), "vals": None, "why": rec["op"]}
        if rec["op"] in NEW_PIPELINE_OPS:
            ctx.frozen_pending["vals"] = ctx.sample(ctx.cur, st_before)
        ok = OPS[rec["op"]](ctx, rec)
        ctx.labels.append(f"op:{rec['op']}" + ("" if ok else ":not-applied"))
        if ok:
            ctx.applied.append(rec["op"])
            if ctx.eager and not ctx.broken:
                check_values(ctx, False)
    if ctx.broken:
        return
    check_values(ctx, True)
    # ---- non-interference, part 1: inputs of new-pipeline operations are unchanged by everything done later
    _check_frozen(ctx, "later-rewrites")
    # ---- a later update_defaults / update_renames on the result
    st_ = ctx.state
    cur = ctx.cur
    roots = st_.eff_roots()
    inner = {x for n in st_.nodes for x in n.inner_bound}
    roots = [r for r in roots if r not in inner]
    mut_ok = True
    try:
        if roots:
            cur.update_defaults({roots[ctx.pick % len(roots)]: "MUTD"})
        if not (ctx.around and st_.has_nested()):
            names = [x for x in st_.all_names() if x not in inner]
            x = names[(ctx.pick >> 3) % len(names)]
            cur.update_renames({x: "mutres"})
            st_.rename(x, "mutres")
        _bind_one_more(cur, "MUTB")
    except Exception as e:
        mut_ok = False
        ctx.fail_exc(e, f"mutate-result-raised-after:{ctx.last()}")
    _check_frozen(ctx, "mutation-of-result")
    for g, want_name in ctx.gs:
        if at_tuple(g.output_name)[0] != want_name:
            out.fail("operand-pipefunc-changed-by-result", f"{g.output_name} want {want_name}")
    if not mut_ok:
        return
    # ---- vice versa: mutate every input afterwards; the result must not move
    snap_cur = snapshot(cur)
    vals_cur = ctx.sample(cur, st_)
    for fr in ctx.frozen:
        obj, s = fr["obj"], fr["state"]
        if obj is cur:
            continue
        try:
            r2 = [r for r in s.eff_roots() if r not in {x for n in s.nodes for x in n.inner_bound}]
            if r2:
                obj.update_defaults({r2[(ctx.pick >> 2) % len(r2)]: "MUTS"})
            names = [x for x in s.all_names() if x not in {y for n in s.nodes for y in n.inner_bound}]
            if ctx.around:
                names = [x for x in names if not any(n.nested and x in n.outs for n in s.nodes)]
            if names:
                obj.update_renames({names[(ctx.pick >> 4) % len(names)]: "mutsrc"})
            if hasattr(obj, "functions"):
                _bind_one_more(obj, "MUTBS")
        except Exception as e:
            ctx.fail_exc(e, f"mutate-input-raised:{fr['why']}")
    if ctx.frozen:
        if snapshot(cur) != snap_cur:
            out.fail(f"result-structure-changed-by-mutating-input:{ctx.last()}", f"{snap_cur} -> {snapshot(cur)}")
        elif ctx.sample(cur, st_) != vals_cur:
            out.fail(f"result-values-changed-by-mutating-input:{ctx.last()}", f"{vals_cur} -> {ctx.sample(cur, st_)}")


def _bind_one_more(pipeline, value: str) -> None:
    """update_bound(..., overwrite=False) on the first plain function that already has bound values and a free
    parameter (objects derived from one another must not share the dict that holds their bound values)."""
    from pipefunc._pipefunc import NestedPipeFunc

    for f in pipeline.functions:
        if isinstance(f, NestedPipeFunc) or not f._bound:
            continue
        mapped = set(f.mapspec.input_names) if f.mapspec is not None else set()
        free = [p for p in f.parameters if p not in f._bound and p not in mapped and p not in f._defaults]
        if free:
            f.update_bound({free[0]: value})
            return


def _check_frozen(ctx: Ctx, when: str) -> None:
    for fr in ctx.frozen:
        if fr["obj"] is ctx.cur:
            continue
        ctx.units += 1
        now = snapshot(fr["obj"])
        if now != fr["snap"]:
            ctx.out.fail(f"input-structure-changed-by-{when}:{fr['why']}", f"[{ctx.tag()}] {fr['snap']} -> {now}")
            fr["snap"] = now
            continue
        if fr["vals"] is not None:
            v = ctx.sample(fr["obj"], fr["state"])
            if v != fr["vals"]:
                ctx.out.fail(f"input-values-changed-by-{when}:{fr['why']}", f"[{ctx.tag()}] {fr['vals']} -> {v}")
                fr["vals"] = v


def finish(ctx: Ctx, graph_nt: bool, rws: list[dict]) -> Outcome:
    out = ctx.out
    out.labels = sorted(set(ctx.labels)) + [f"len:{len(rws)}", f"applied:{len(ctx.applied)}"]
    if len(ctx.applied) >= 2:
        out.labels.append("pair:" + ">".join(ctx.applied[:2]))
    out.labels.append("around" if ctx.around else "strict")
    out.labels.append("eager" if ctx.eager else "lazy")
    out.nontrivial = (graph_nt and len(ctx.applied) >= 2) or ctx.nested_dict_call
    out.units = max(1, ctx.units)
    return out


# ------------------------------------------------------------------------------------------------
# campaign bodies


def body_dag(data) -> Outcome:
    out = Outcome()
    ctx = Ctx("dag", out, data)
    prog = norm_prog(data["prog"])
    prog2 = prefix_prog(norm_prog(data["prog2"]), "x_")
    ctx.prog2 = prog2
    labs = dag_labels(prog)
    graph_nt = bool({"diamond", "multi_output"} & set(labs))
    ctx.labels += labs
    ctx.ext = {"roots": prog["roots"] + prog2["roots"], "funcs": list(prog["funcs"]) + list(prog2["funcs"]), "order": []}
    try:
        orig = build_dag(prog)
        if data["union"]:
            from pipefunc import Pipeline

            pfs = [make_pipefunc(fn, None) for fn in prog["funcs"] + prog2["funcs"]]
            k = (data["pick"] >> 6) % (len(pfs) + 1)
            cur = Pipeline(pfs[k:] + pfs[:k])
            orig2 = build_dag(prog2)
        else:
            cur = build_dag(prog)
    except Exception:
        out.labels = ["build-refused"]
        return out
    ctx.sources.append((orig, {o for fn in prog["funcs"] for o in fn["outs"]}))
    nodes = [node_from_dag(fn) for fn in prog["funcs"]]
    if data["union"]:
        nodes += [node_from_dag(fn) for fn in prog2["funcs"]]
        ctx.p2_in = True
        ctx.sources.append((orig2, {o for fn in prog2["funcs"] for o in fn["outs"]}))
        ctx.labels.append("start:union")
    ctx.state = State(nodes)
    ctx.cur = cur
    run_sequence(ctx, data["rw"])
    return finish(ctx, graph_nt, data["rw"])


def body_map(data) -> Outcome:
    out = Outcome()
    ctx = Ctx("map", out, data)
    prog = json.loads(json.dumps(data["prog"]))
    for fn in prog["funcs"]:
        if fn.get("picker") == "dict":
            fn["picker"] = "tuple"
    prog["storage"] = "dict"
    ctx.prog0 = json.loads(json.dumps(prog))
    ctx.ext = prog
    labs = mp.labels(prog)
    graph_nt = "multi_output" in labs or any(
        sum(1 for f2 in prog["funcs"] for p_ in f2["params"] if p_["name"] == o) >= 2 for fn in prog["funcs"] for o in fn["outs"]
    )
    ctx.labels += [l for l in labs if not l.startswith(("nf", "storage"))]
    try:
        orig = mp.build_pipeline(ctx.prog0)
        cur = mp.build_pipeline(ctx.prog0)
    except Exception:
        out.labels = ["build-refused"]
        return out
    ctx.map_base_inputs = mp.make_inputs(ctx.prog0)
    ctx.orig_inputs = set(ctx.map_base_inputs)
    ctx.orig_pipe = orig
    ctx.orig_map = {}
    try:
        r0 = orig.map(dict(ctx.map_base_inputs), internal_shapes=mp.internal_shapes_arg(ctx.prog0), parallel=False, storage="dict")
        ctx.orig_map = {k: v.output for k, v in r0.items()}
    except Exception:
        out.labels = ["original-map-refused"]  # C01's subject
        return out
    ctx.state = State([node_from_map(fn) for fn in prog["funcs"]])
    ctx.cur = cur
    run_sequence(ctx, data["rw"])
    return finish(ctx, graph_nt, data["rw"])


# ------------------------------------------------------------------------------------------------
# strategies (JSON recipes)
#
# Hypothesis draws whatever comes *after* a large variable-size value with a strong bias towards minimal values
# (measured here: sequence length 1 and the first operation in > 60 % of the cases) and re-uses what comes *before*
# it across many examples (measured: 116 distinct rewrite sequences in 625 cases).  Everything except the program is
# therefore derived from sha1(salt, program) by a pure function inside the strategy: the case handed to the body is
# still the complete explicit JSON recipe (replays do not depend on this derivation), and every distinct program
# gets its own rewrite sequence, flags and second program.


def _rw_record(rng, op: str) -> dict:
    rec = {"op": op, "sel": rng.randrange(2**20)}
    if op == "join":
        rec.update(what=rng.choice(["prog", "prog", "func", "funcs2"]), via=rng.choice(["join", "or"]))
    elif op == "joinf":
        rec.update(op="join", what=rng.choice(["func", "funcs2"]), via=rng.choice(["join", "or"]))
    elif op == "joinp":
        rec.update(op="join", what="prog", via=rng.choice(["join", "or"]))
    elif op == "rename":
        rec.update(
            level=rng.choice(["pipeline", "function"]), frm=rng.choice(["current", "original"]),
            n=rng.randint(1, 3), style=rng.choice(["plain", "plain", "dotted"]),
        )  # fmt: skip
    elif op == "scope":
        rec.update(
            scope=rng.choice(SCOPES), inputs=rng.choice(["*", "*", "some", None]),
            outputs=rng.choice(["*", "*", "some", None]), exclude=rng.choice([False, False, True]),
        )  # fmt: skip
    elif op == "unscope":
        rec.update(part=rng.choice(["*", "*", "some"]))
    elif op == "nest":
        rec.update(new=rng.choice(["none", "min", "some", "all"]), via=rng.choice(["nest_funcs", "nest_funcs", "star", "ctor"]))
    elif op == "simplify":
        rec.update(conservative=rng.choice([False, False, True]), default_out=rng.choice([False, True]))
    elif op == "axis":
        rec.update(k=rng.choice([1, 1, 2]), n=rng.choice([2, 3]))
    return rec


DAG_KINDS = (
    ["copy"] * 2 + ["pickle"] * 2 + ["join"] * 2 + ["rename"] * 4 + ["scope"] * 3 + ["unscope"] + ["nest"] * 5
    + ["simplify"] * 4 + ["split"] + ["axis"] * 3
)  # fmt: skip
MAP_KINDS = ["copy", "pickle", "joinf", "rename", "rename", "scope", "scope", "unscope", "axis", "axis", "axis"]


def expand_rw(rng, kinds: list[str], with_split: bool) -> list[dict]:
    any_ = lambda: rng.choice(kinds)  # noqa: E731
    shape = rng.choice(["free"] * 7 + ["scoped3", "scoped2"] + (["join3", "join2"] if with_split else []))
    if shape == "free":
        ops = [any_() for _ in range(rng.choice([1, 2, 2, 3, 3, 3]))]
    elif shape == "scoped3":
        ops = ["scope", any_(), rng.choice(["unscope", any_()])]
    elif shape == "scoped2":
        ops = ["scope", rng.choice(["unscope", any_()])]
    elif shape == "join3":
        ops = ["joinp", rng.choice(["split", any_()]), any_()]
    else:
        ops = ["joinp", "split"]
    return [_rw_record(rng, op) for op in ops]


def _derive(d: dict, kind: str) -> dict:
    """complete case from {"salt", "prog"}: flags, second program and rewrite recipes are a pure function of both"""
    import hashlib
    import random

    h = hashlib.sha1(json.dumps([d["salt"], d["prog"]], sort_keys=True).encode()).hexdigest()
    rng = random.Random(int(h, 16))
    out = {"pick": rng.randrange(2**16), "around": rng.random() < 0.75}
    if kind == "simplify":  # one simplified_pipeline on a larger single-output DAG (several nested groups)
        out["around"] = False
        out["union"] = False
        out["prog2"] = json.loads(json.dumps(PROG2_FAMILY[0]))
        out["rw"] = [_rw_record(rng, "simplify")] + ([_rw_record(rng, rng.choice(["copy", "rename"]))] if rng.random() < 0.3 else [])
    elif kind == "dag":
        out["union"] = rng.random() < 0.25
        out["prog2"] = json.loads(json.dumps(rng.choice(PROG2_FAMILY)))
        out["rw"] = expand_rw(rng, DAG_KINDS, True)
    else:
        out["rw"] = expand_rw(rng, MAP_KINDS, False)
    out["prog"] = d["prog"]
    return out


def _fn(name, params, outs, **kw):
    d = {
        "name": name, "params": params, "orig": list(params), "outs": outs, "orig_outs": list(outs), "sig_defaults": {},
        "pf_defaults": {}, "bound": {}, "picker": "tuple" if len(outs) > 1 else None, "cache": False,
    }  # fmt: skip
    d.update(kw)
    return d


# the name-disjoint second program (before prefixing): chain, tuple output, bound, default, nullary, two components
PROG2_FAMILY = [
    {"roots": ["r0"], "funcs": [_fn("f0", ["r0"], ["o0"])], "order": [0]},
    {"roots": ["r0", "r1"], "funcs": [_fn("f0", ["r0"], ["o0"]), _fn("f1", ["o0", "r1"], ["o1"])], "order": [1, 0]},
    {"roots": ["r0"], "funcs": [_fn("f0", ["r0"], ["o0a", "o0b"]), _fn("f1", ["o0b"], ["o1"], orig=["q0"])], "order": [0, 1]},
    {"roots": ["r0", "r1"], "funcs": [_fn("f0", ["r0", "r1"], ["o0"], bound={"r1": "B0r1"}), _fn("f1", ["o0"], ["o1"])], "order": [0, 1]},
    {"roots": ["r0"], "funcs": [_fn("f0", ["r0"], ["o0"], sig_defaults={"r0": "Dr0"}, orig_outs=["raw_o0"])], "order": [0]},
    {"roots": ["r0"], "funcs": [_fn("f0", [], ["o0"]), _fn("f1", ["r0"], ["o1"])], "order": [0, 1]},
]


# None-returning tracers (a later addition to the shared generator) are C01's subject, not a rewrite concern
import inspect as _inspect

_MP_EXTRA = {"allow_none": False} if "allow_none" in _inspect.signature(mp.map_programs).parameters else {}


# =================================================================================================
# renames campaign: Pipeline.update_renames / update_scope with every option (update_from, overwrite; scope names that
# are prefixes of parameter names) against the *program they denote*: the rewritten pipeline must behave like the
# reference model of the program whose per-function renames are what the documentation says they become
# =================================================================================================
def _renamed_prog(prog: dict, maps: dict) -> dict:
    """prog with, per function name, the python-level -> pipeline-level name map replaced by maps[name]."""
    new = _copy.deepcopy(prog)
    for fn in new["funcs"]:
        mp_ = maps[fn["name"]]
        cur2orig = dict(zip(fn["params"] + fn["outs"], fn["orig"] + fn["orig_outs"]))
        ren = lambda o: mp_.get(o, o)  # noqa: E731
        fn["params"] = [ren(o) for o in fn["orig"]]
        fn["outs"] = [ren(o) for o in fn["orig_outs"]]
        for key in ("sig_defaults", "pf_defaults", "bound"):
            fn[key] = {ren(cur2orig[k]): v for k, v in fn[key].items()}
    return new


def _cur_maps(prog: dict) -> dict:
    return {fn["name"]: {o: c for o, c in zip(fn["orig"] + fn["orig_outs"], fn["params"] + fn["outs"]) if o != c} for fn in prog["funcs"]}


def _prog_ok(prog: dict) -> bool:
    outs = [o for fn in prog["funcs"] for o in fn["outs"]]
    if len(set(outs)) != len(outs):
        return False
    for fn in prog["funcs"]:
        names = fn["params"] + fn["outs"]
        if len(set(names)) != len(names):
            return False
    try:
        m = DagModel(prog)
        for o in outs:
            m.cone(o)
        # acyclic: a topological order exists
        prod = {o: fn["name"] for fn in prog["funcs"] for o in fn["outs"]}
        deps = {fn["name"]: {prod[q] for q in fn["params"] if q in prod and q not in fn["bound"]} for fn in prog["funcs"]}
        done: set = set()
        while len(done) < len(deps):
            ready = [f for f in deps if f not in done and deps[f] <= done]
            if not ready:
                return False
            done |= set(ready)
    except Exception:
        return False
    return True


@st.composite
def rename_cases(draw):
    return {
        "prog": draw(dag_programs(max_funcs=4, min_funcs=2, consistent_ignored_defaults=True)),
        "op": draw(st.sampled_from(["renames", "renames", "scope"])),
        "frm": draw(st.sampled_from(["current", "original"])),
        "overwrite": draw(st.booleans()),
        "sel": draw(st.integers(0, 2**12 - 1)),
        "scope_kind": draw(st.sampled_from(["fresh", "prefix-of-a-name", "existing"])),
    }


def body_renames(data) -> Outcome:
    from vlib.dag import build_pipeline

    out = Outcome()
    prog = data["prog"]
    log: list = []
    try:
        p = build_pipeline(prog, log)
    except Exception:
        out.labels.append("n/a:build-refused")
        return out
    maps = _cur_maps(prog)
    sel = data["sel"]
    if data["op"] == "renames":
        frm, overwrite = data["frm"], data["overwrite"]
        if frm == "original":
            keys = sorted({o for fn in prog["funcs"] for o in fn["orig"] + fn["orig_outs"]})
        else:
            keys = sorted({c for fn in prog["funcs"] for c in fn["params"] + fn["outs"]})
        chosen = [k for i, k in enumerate(keys) if (sel >> i) & 1][:2] or [keys[sel % len(keys)]]
        R = {k: f"n{i}" for i, k in enumerate(chosen)}
        new_maps = {}
        for fn in prog["funcs"]:
            old = maps[fn["name"]]
            if frm == "original":
                rf = {k: v for k, v in R.items() if k in fn["orig"] + fn["orig_outs"]}
            else:
                inv = dict(zip(fn["params"] + fn["outs"], fn["orig"] + fn["orig_outs"]))
                rf = {inv[k]: v for k, v in R.items() if k in inv}
            new_maps[fn["name"]] = dict(rf) if overwrite else {**old, **rf}
        label = f"update_renames:{frm}:{'overwrite' if overwrite else 'merge'}"
        call = lambda: p.update_renames(dict(R), update_from=frm, overwrite=overwrite)  # noqa: E731
        desc = f"update_renames({R}, update_from={frm!r}, overwrite={overwrite})"
        if overwrite and any(m_ and not set(m_) & set(R if frm == "original" else ()) for m_ in maps.values()):
            out.labels.append("overwrite-resets-renames-of-untouched-functions")
    else:
        roots = sorted({q for fn in prog["funcs"] for q in fn["params"] if q not in fn["bound"]} - {o for fn in prog["funcs"] for o in fn["outs"]})
        outs_all = sorted(o for fn in prog["funcs"] for o in fn["outs"])
        names = roots + outs_all
        kind = data["scope_kind"]
        target = names[sel % len(names)]
        if kind == "prefix-of-a-name":
            scope = target[: max(1, len(target) - 1)] if len(target) > 1 else target  # e.g. scope 'r' / 'o1' for the name 'r0' / 'o1a'
        elif kind == "existing":
            scope = "sc"
        else:
            scope = "zz"
        # first put one name into scope 'sc' so that an existing scope gets replaced by the second call
        pre = names[(sel // 7) % len(names)]
        bound_names = {q for fn in prog["funcs"] for q in fn["bound"]}
        which = [x for i, x in enumerate(names) if (sel >> i) & 1 and x not in bound_names] or [target]
        which = [x for x in which if x not in bound_names]
        if not which or pre in bound_names:
            out.labels.append("n/a:only-bound-names")
            return out
        ins = {x for x in which if x in roots}
        os_ = {x for x in which if x in outs_all}

        def scoped(maps_in, sc, chosen_names):
            res = {}
            for fn in prog["funcs"]:
                mm = dict(maps_in[fn["name"]])
                for o in fn["orig"] + fn["orig_outs"]:
                    cur = mm.get(o, o)
                    if cur in chosen_names and cur not in fn["bound"]:
                        mm[o] = f"{sc}.{cur.split('.', 1)[-1]}"
                res[fn["name"]] = mm
            return res

        def call():
            if kind == "existing":
                p.update_scope("old", inputs={pre} if pre in roots else None, outputs={pre} if pre in outs_all else None)
            p.update_scope(scope, inputs=ins or None, outputs=os_ or None)

        if kind == "existing":
            m1 = scoped(maps, "old", {pre})
            chosen_after = {("old." + x) if x == pre else x for x in which}
            # names given to the second call are the *current* ones: the test passes the old names, so `pre` is only
            # re-scoped when it was not selected (then it keeps 'old.')
            new_maps = scoped(m1, scope, {x for x in which if x != pre})
            which = [x for x in which if x != pre]
            ins, os_ = {x for x in which if x in roots}, {x for x in which if x in outs_all}
            if not which:
                out.labels.append("n/a:nothing-left-to-scope")
                return out
            del chosen_after
        else:
            new_maps = scoped(maps, scope, set(which))
        label = f"update_scope:{kind}"
        desc = f"update_scope({scope!r}, inputs={sorted(ins)}, outputs={sorted(os_)})"
        if any(x != scope and x.startswith(scope) for x in which):
            out.labels.append("scope-is-a-prefix-of-a-scoped-name")
    out.labels.append(label)
    prog2 = _renamed_prog(prog, new_maps)
    dict_changed = any(f1["picker"] == "dict" and f1["outs"] != f2["outs"] for f1, f2 in zip(prog["funcs"], prog2["funcs"]))
    if dict_changed:
        out.labels.append("n/a:dict-picker-output-renamed")  # the tracer's returned dict is keyed by the old names
        return out
    if not _prog_ok(prog2):
        out.labels.append("n/a:result-is-not-a-program")
        return out
    try:
        build_pipeline(prog2, None)
    except Exception:
        out.labels.append("n/a:result-refused-when-built-from-scratch")
        return out
    try:
        call()
    except Exception as e:
        out.fail(exc_bucket(e, f"{label}-raised"), f"{desc}: {exc_detail(e)}")
        return out
    out.nontrivial = True
    m2 = DagModel(prog2)
    try:
        views = set(p.topological_generations.root_args) | set(p.all_output_names)
    except Exception as e:
        out.fail(exc_bucket(e, f"{label}-views-raised"), exc_detail(e))
        return out
    want_views = set(m2.all_outputs()) | {r for o in m2.all_outputs() for r in m2.needed_roots(o)}
    if views != want_views:
        out.fail(f"{label}-names-differ", f"{desc}: pipeline has {sorted(views)}, the renamed program has {sorted(want_views)}")
        return out
    for o in m2.all_outputs():
        kw = {r: f"V{r}" for r in m2.needed_roots(o)}
        try:
            want = m2.evaluate(o, kw)[0]
        except Missing:
            continue
        out.units += 1
        try:
            got = p(o, **kw)
        except Exception as e:
            out.fail(exc_bucket(e, f"{label}-call-raised"), f"{desc}; {o}: {exc_detail(e)}")
            return out
        if got != want:
            out.fail(f"{label}-value-differs", f"{desc}; {o}: got {got!r} want {want!r}")
            return out
    return out


def _base_campaigns(tier):
    progs = st.one_of(
        dag_programs(max_funcs=5, consistent_ignored_defaults=True, shuffle_names=True),
        dag_programs(max_funcs=5, min_funcs=2, allow_bound=False, consistent_ignored_defaults=True, shuffle_names=True),
        # chains and diamonds of single-output functions: every nest/simplify precondition is frequent
        dag_programs(max_funcs=5, min_funcs=2, allow_bound=False, allow_multi=False, allow_nullary=False, consistent_ignored_defaults=True),
    )
    dag = st.fixed_dictionaries({"salt": st.integers(0, 2**32 - 1), "prog": progs}).map(lambda d: _derive(d, "dag"))
    mpc = st.fixed_dictionaries(
        {"salt": st.integers(0, 2**32 - 1), "prog": mp.map_programs(max_funcs=3, max_rank=2, storages=("dict",), max_size=2, **_MP_EXTRA)}
    ).map(lambda d: _derive(d, "map"))
    simp = st.fixed_dictionaries(
        {"salt": st.integers(0, 2**32 - 1),
         "prog": dag_programs(max_funcs=7, min_funcs=4, allow_bound=False, allow_multi=False, allow_nullary=False,
                              consistent_ignored_defaults=True, shuffle_names=True)}
    ).map(lambda d: _derive(d, "simplify"))  # fmt: skip
    return [
        Campaign("simplify", body_dag, simp, quick=1200, thorough=30000,
                 describe="larger single-output DAGs (4-7 functions, output names not in dependency order) x simplified_pipeline"),
        Campaign("dag", body_dag, dag, quick=5000, thorough=120000, describe="DagPrograms x <=3 rewrites, pipeline(...) and map"),
        Campaign("map", body_map, mpc, quick=800, thorough=24000, describe="MapPrograms x <=3 rewrites under map"),
        Campaign("renames", body_renames, rename_cases(), quick=3000, thorough=60000,
                 describe="update_renames (current/original x merge/overwrite) and update_scope (fresh / replacing / prefix-of-a-name "
                          "scopes) vs. the reference model of the program the call denotes"),
    ]


def _pred_nested_default_lost(case, failure) -> bool:
    """C10 finding (nested-copy-drops-default-of-renamed-parameter), other manifestations: after nest -> rename, any
    later operation that copies the NestedPipeFunc (another nest, copy, join, pickle, simplify) loses the default of the
    renamed parameter; the call/map then reports it as a missing value / missing input."""
    if "issing" not in failure.detail:
        return False
    ops = [r["op"] for r in case["data"].get("rw", [])]
    if "nest" not in ops:
        return False
    i = ops.index("nest")
    if "rename" not in ops[i + 1 :]:
        return False
    progs = [case["data"]["prog"]] + ([case["data"]["prog2"]] if case["data"].get("prog2") else [])
    return any(fn.get("sig_defaults") or fn.get("pf_defaults") for pr in progs for fn in pr["funcs"])


def _pred_nest_with_bound(case, failure) -> bool:
    """C10-nested-inner-bound-becomes-required in any disguise: a nest over functions with bound parameters exposes the
    bound names as inputs of the NestedPipeFunc; later rewrites (add_mapspec_axis, rename, split) then see dependencies
    that the original pipeline does not have."""
    ops = [r["op"] for r in case["data"].get("rw", [])]
    if "nest" not in ops and "simplify" not in ops:
        return False
    progs = [case["data"]["prog"]] + ([case["data"]["prog2"]] if case["data"].get("union") and case["data"].get("prog2") else [])
    return any(fn.get("bound") for pr in progs for fn in pr["funcs"])


PREDICATES = {
    "nest_over_bound_parameters": _pred_nest_with_bound,
    "nested_default_lost_after_rename": _pred_nested_default_lost,}


def campaigns(tier):
    camps = list(_base_campaigns(tier))
    if tier == "thorough":  # coverage-guided search over the same structured cases (fuzz/hyp_fuzz.py)
        from vlib.core import cov_fuzz_campaign

        camps.append(cov_fuzz_campaign(PID, [('renames', 30000), ('dag', 12000)]))
    return camps

"""C09 -- caching never changes what a pipeline returns (DESIGN.md section 4, C09).

Campaigns
  history  a DagProgram plus a history of operations applied to TWIN pipelines built from the same program: a *cached*
           one (cache_type simple/lru/hybrid/disk, a drawn subset of cache=True functions) and an *uncached* one.
           Differential oracle on every call; "no re-execution on an exact repeat" on the cached twin's call log.
  map      one MapProgram mapped with and without caching over inputs with repeated element values, twice in a row,
           sequentially / thread pool / process pool (shared cache).
  race     eviction by / a half-written file of "another worker", injected at the cache's membership test.

Hazards (bucketing only -- the pass/fail decision is always "cached == uncached")
  A value mismatch is attributed to the first *hazard* (see _HAZARDS) that (1) the history structurally contains for a
  cached function on the path of the failing call and (2) shows in the provenance strings of the two values (other
  function version / other supplied intermediates / other bound values / only root values differ).  Any other mismatch
  gets the plain bucket.  Every hazard has a generator flag that constructs around it, so hazard-free histories are
  frequent.
"""

from __future__ import annotations

import copy
import gc
import multiprocessing
import re
from concurrent.futures import ProcessPoolExecutor, ThreadPoolExecutor

import numpy as np
from hypothesis import strategies as st

from vlib import boot
from vlib import mapprog as mp
from vlib.core import Campaign, Outcome, exc_bucket, exc_detail
from vlib.dag import DagModel, Missing, build_pipeline, dag_programs, make_pipefunc
from vlib.dag import labels as dag_labels

PID = "C09"
LEVEL = "exploration"
RULE = (
    "history: Hypothesis-generated DAG programs (2-5 tracer functions; diamonds, tuple outputs, defaults, bound, "
    "renames, nullary) with a drawn non-empty subset of cache=True functions, built twice: cached (cache_type in "
    "{simple, lru, hybrid, disk}, non-shared mostly, Manager-shared or the implicit default cache rarely; capacity >= "
    "functions x calls, rarely 1-2) and uncached (cache_type=None, no flags), separate tracer logs; in a third of the "
    "histories every function that needs no PipeFunc option is handed to Pipeline as a bare callable and its cache flag "
    "is switched on through pipeline[name] afterwards. A drawn history of "
    "4-12 operations is applied to both: call through pipeline()/run()/run(full_output=True)/func() of a drawn output "
    "(single or tuple name) with a root-only cut or a cut listed by arg_combinations that supplies intermediates, values "
    "from a 2-element pool, defaults relied on or given; exact repeat of the previous call in another style; "
    "Pipeline.update_defaults; PipeFunc.update_bound (bind / rebind / unbind); Pipeline.replace with a re-versioned "
    "tracer. Oracle 1 (differential): whenever the uncached call returns, the cached call returns an equal value (for "
    "full_output the whole dict). Oracle 2: on an exact repeat of a root-only call with no mutation in between, no "
    "cache=True function that ran in the earlier identical call runs again (ample capacity only). A mutation must "
    "succeed or fail on both twins alike. Generator flags construct around each confirmed deviation. "
    "map: MapPrograms (as C01) with cache=True on a drawn subset, cache_type simple/lru/hybrid/disk, root arrays whose "
    "elements repeat (index mod 1-2), mapped twice into one run folder, sequentially (mostly; capacity rarely 1-2), with "
    "a thread pool or a forked process pool and a Manager-shared, never-evicting LRU/hybrid cache; every output of both "
    "runs equals the uncached run; sequentially, no cache=True function is executed twice with equal arguments over both "
    "runs. race: the two timing-dependent interleavings of a shared cache, injected deterministically at the cache's "
    "membership test through the public API (evict: another worker stores an entry in a full LRUCache right after the "
    "test said True; torn: another worker has just opened the DiskCache file of the same key for writing), under a "
    "sequential map run twice (every function cached) and under two rounds of root-only pipeline calls of every output; "
    "oracle: equal to the uncached run / call. "
    "Non-trivial (history) = some output called >= 2 times with a cached function on its path and an "
    "intermediate-supplying call or a mutation in between (ends included); (map) = >= 1 cached MapSpec function and a "
    "C01-non-trivial program; (race) = the intruder acted at least once; distinct by sha1 of the case."
)
ASSUMPTIONS = [
    "values are tracer strings / tuples / dicts of strings compared with ==; for full_output the whole dict is compared",
    "if the uncached call raises nothing is required of the cached call (it is still issued, to keep the histories aligned)",
    "oracle 2 is applied only with capacity >= functions x calls (no eviction possible) and only to cache=True functions "
    "that were executed in the earlier identical call of the same mutation-free window",
    "argument combinations that list a name the reference evaluator never reads (C02's unused-sibling defect) are not drawn",
    "update_defaults names a root that is a non-bound parameter of some function; update_bound never names a parameter "
    "that has a PipeFunc-level default (pipefunc documents both as errors)",
    "process pools get a Manager-shared cache (documented requirement); thread pools a Manager-shared or a SimpleCache "
    "(the non-shared LRU and hybrid caches take no lock); really parallel runs use only configurations whose outcome "
    "does not depend on timing (no eviction, no DiskCache) -- the timing-dependent interleavings are explored by the "
    "deterministic race campaign instead",
    "race: 'another worker' acts only through public cache methods (put) or, for DiskCache, by creating the empty file "
    "that put() itself creates first; it acts only at membership tests, per a drawn plan",
    "map, parallel: oracle 2 is not applied (two workers may miss the same key at the same time)",
    "the hazard classification only chooses the bucket name of a mismatch, never whether it is a failure",
]

STYLES = ["call", "run", "run_full", "func"]
FLAGS = [
    "no_intermediate_with_all_roots",
    "no_upstream_bound_mutation",
    "no_bound_root_shadowing",
    "no_replace_above_cached",
    "no_unkeyed_default_reliance",
]
# hazard -> bucket suffix, in attribution order
_HAZARDS = [
    ("replaced", "stale-after-replace"),
    ("mixed", "intermediate-supplied-with-all-roots"),
    ("bound_mut", "stale-after-update_bound"),
    ("shadow", "bound-shadows-root-in-key"),
]
_TAG = re.compile(r"(f\d+)(v\d+)?(?=\[)")
_SUP = re.compile(r"(?<![A-Za-z0-9])S\d\w+")
_BND = re.compile(r"(?<![A-Za-z0-9])B\w+")


def _versions(text: str) -> dict[str, set[str]]:
    d: dict[str, set[str]] = {}
    for f, v in _TAG.findall(text):
        d.setdefault(f, set()).add(v)
    return d


def _evidence(ru, rc) -> set[str]:
    """What the tracer strings of a mismatching pair say about the origin of the cached value: it was produced by
    another *version* of a function (replace), from other *supplied intermediates*, or with other *bound values*;
    if none of these, only root values / defaults differ."""
    a, b = repr(ru), repr(rc)
    ev = set()
    va, vb = _versions(a), _versions(b)
    if any(f in vb and vb[f] != va[f] for f in va):  # one function, two versions
        ev.add("replaced")
    if sorted(_SUP.findall(a)) != sorted(_SUP.findall(b)):
        ev.add("mixed")
    if sorted(_BND.findall(a)) != sorted(_BND.findall(b)):
        ev.add("bound_mut")
    if not ev:
        ev.add("shadow")
    return ev


def _attribute(ru, rc, hazards: set[str]) -> str:
    """Bucket suffix: the first hazard that is structurally present in the history *and* visible in the values."""
    ev = _evidence(ru, rc)
    return next((":" + name for k, name in _HAZARDS if k in hazards and k in ev), "")


# ------------------------------------------------------------------------------------------------
# structural helpers on a DagProgram (pure functions on the JSON AST)


def _ancestors(prog: dict) -> dict[str, set[str]]:
    """function name -> names of the functions it depends on through *any* parameter (bound or not), itself included."""
    producer = {o: fn["name"] for fn in prog["funcs"] for o in fn["outs"]}
    direct = {fn["name"]: {producer[p] for p in fn["params"] if p in producer} for fn in prog["funcs"]}
    anc: dict[str, set[str]] = {}

    def visit(f: str) -> set[str]:
        if f not in anc:
            anc[f] = {f}
            for g in direct[f]:
                anc[f] |= visit(g)
        return anc[f]

    for fn in prog["funcs"]:
        visit(fn["name"])
    return anc


def _shadowing(prog: dict, cached: set[str]) -> list[tuple[str, str]]:
    """(cached function, parameter) pairs where the parameter is bound in the function and at the same time a root
    argument of the function's output through another path."""
    m = DagModel(prog)
    res = []
    for fn in prog["funcs"]:
        if fn["name"] in cached and fn["bound"]:
            roots = m.needed_roots(fn["outs"][0])
            res += [(fn["name"], p) for p in fn["bound"] if p in roots]
    return res


def _strip_shadowing(prog: dict) -> dict:
    prog = copy.deepcopy(prog)
    cached = {fn["name"] for fn in prog["funcs"] if fn["cache"]}
    by = {fn["name"]: fn for fn in prog["funcs"]}
    for _ in range(50):
        sh = _shadowing(prog, cached)
        if not sh:
            break
        f, p = sh[0]
        del by[f]["bound"][p]
    return prog


def _add_shadowing(prog: dict, pick: int) -> dict:
    """Give one cached function a *bound* parameter named like a root argument that an upstream function of it
    consumes (f1(r0=<bound>, o0) with o0 = f0(r0)); returns prog unchanged when there is no such place."""
    m = DagModel(prog)
    cand = []
    for fn in prog["funcs"]:
        if not fn["cache"]:
            continue
        for r in m.needed_roots(fn["outs"][0]):
            if r not in fn["params"] and len(fn["params"]) < 4:
                cand.append((fn["name"], r, True))
            elif r in fn["params"] and r not in fn["bound"] and r not in fn["pf_defaults"]:
                cand.append((fn["name"], r, False))
    if not cand:
        return prog
    prog = copy.deepcopy(prog)
    f, r, add = cand[pick % len(cand)]
    fn = next(x for x in prog["funcs"] if x["name"] == f)
    if add:
        fn["params"].append(r)
        fn["orig"].append(r)
    fn["bound"][r] = f"B{f[1:]}{r}"
    return prog


def _func_level_default(fn: dict, m: DagModel, r: str) -> bool:
    """Does Pipeline._func_defaults(fn) know a value for r?"""
    return r in fn["params"] and (r in m.defaults or r in fn["sig_defaults"] or r in fn["pf_defaults"])


def _key_computable(fn: dict, m: DagModel, kw: dict, any_default: bool = False) -> bool:
    """Can a root-argument key be formed for fn's output?  any_default=False mirrors what pipefunc consults today (the
    call's keywords, fn's bound values, defaults known at fn's own level); any_default=True is the conservative
    superset used for hazard bookkeeping (every root with a pipeline-wide default counts)."""
    return all(
        r in kw or r in fn["bound"] or (r in m.defaults if any_default else _func_level_default(fn, m, r))
        for r in m.needed_roots(fn["outs"][0])
    )


def _targets(prog: dict) -> list:
    """Every requestable output, deepest function first (small indices shrink towards long paths)."""
    t: list = []
    for fn in reversed(prog["funcs"]):
        t += list(fn["outs"])
    for fn in reversed(prog["funcs"]):
        if len(fn["outs"]) > 1:
            t.append(tuple(fn["outs"]))
    return t


# ------------------------------------------------------------------------------------------------
# strategy: program + configuration + history recipe


_KINDS = ["call"] * 8 + ["repeat"] * 3 + ["defaults"] * 2 + ["bound"] * 4 + ["replace"] * 2


@st.composite
def _op(draw, kinds=_KINDS):
    kind = draw(st.sampled_from(kinds))
    if kind == "call":
        return {
            "op": "call",
            "out": draw(st.integers(0, 11)),  # index into the targets, deepest function first
            "style": draw(st.sampled_from(STYLES)),
            "cut": draw(st.integers(0, 7)),  # 0-2: root arguments only; 3-7: index into the listed intermediate cuts
            "vals": draw(st.lists(st.integers(0, 1), min_size=6, max_size=6)),
            "omit": draw(st.integers(0, 63)),  # bit i: rely on the default of the i-th keyword (if it has one)
        }
    if kind == "repeat":  # the previous call again (possibly across a mutation), in a drawn style
        return {"op": "repeat", "style": draw(st.sampled_from(STYLES))}
    if kind == "defaults":
        return {"op": "defaults", "root": draw(st.integers(0, 3)), "val": draw(st.integers(0, 1)), "overwrite": draw(st.booleans())}
    if kind == "bound":
        return {
            "op": "bound",
            "func": draw(st.integers(0, 5)),
            "param": draw(st.integers(0, 3)),  # index into the bindable parameters; one extra slot = {} (unbind)
            "val": draw(st.integers(0, 1)),
            "overwrite": draw(st.sampled_from([True, True, True, False])),
        }
    return {"op": "replace", "func": draw(st.integers(0, 5))}


@st.composite
def histories(draw):
    prog = draw(dag_programs(max_funcs=5, min_funcs=2, cache=True, allow_none=True))
    if not any(fn["cache"] for fn in prog["funcs"]):
        prog["funcs"][draw(st.integers(0, len(prog["funcs"]) - 1))]["cache"] = True
    mode = draw(st.integers(0, 9))
    if mode < 4:
        flags = list(FLAGS)
    elif mode < 5:
        flags = []
    else:
        flags = [f for f in FLAGS if draw(st.booleans())]
    if "no_bound_root_shadowing" in flags:
        prog = _strip_shadowing(prog)
    elif draw(st.booleans()):
        prog = _add_shadowing(prog, draw(st.integers(0, 7)))
    cache_type = draw(st.sampled_from(["simple", "lru", "hybrid", "disk"]))
    rare = draw(st.integers(0, 79))  # (Hypothesis over-represents the ends of an integer range)
    shared = cache_type != "simple" and rare == 37
    if rare == 53:
        cache_type, shared = "auto", True  # cache_type=None + cache=True flags: pipefunc creates a shared LRU cache
    capacity = "tiny" if cache_type in ("lru", "hybrid", "disk") and draw(st.integers(0, 11)) == 0 else "ample"
    return {
        "prog": prog,
        "flags": flags,
        "cache_type": cache_type,
        "shared": shared,
        "capacity": capacity,
        "disk_lru": draw(st.booleans()),
        "opaque": draw(st.integers(0, 3)) == 0,  # root values are unhashable objects whose str() hides their content
        "ops": [draw(_op(["call"]))] + draw(st.lists(_op(), min_size=2, max_size=9)) + [draw(_op(["call", "repeat", "repeat"]))],
        # functions that need no PipeFunc option are handed to Pipeline as bare callables (wrapped by Pipeline.add)
        "plain": draw(st.integers(0, 2)) == 0,
    }


# ------------------------------------------------------------------------------------------------
# the twin machine


def _do_call(p, style: str, out, kw: dict):
    if style == "call":
        return p(out, **kw)
    if style == "run":
        return p.run(out, kwargs=dict(kw))
    if style == "run_full":
        return p.run(out, kwargs=dict(kw), full_output=True)
    return p.func(out)(**kw)


class _Twins:
    def __init__(self, data: dict, out: Outcome) -> None:
        self.out = out
        self.data = data
        self.flags = set(data["flags"])
        self.opaque = bool(data.get("opaque"))
        # every third history passes, for each root argument, one and the same list object on every call of the cached
        # twin and changes its content in place between calls (the uncached twin gets a new list each time)
        self.alias = (not self.opaque) and len(data["ops"]) % 3 == 0
        self.live: dict = {}
        self.cur = copy.deepcopy(data["prog"])  # current program (cached twin's view: "cache" flags kept)
        self.cached = {fn["name"] for fn in self.cur["funcs"] if fn["cache"]}
        self.log_u: list = []
        self.log_c: list = []
        self.scratch: str | None = None
        self.pu = None
        self.pc = None
        self.version = 1
        self.ample = data["capacity"] == "ample"
        # hazard bookkeeping, per cached function name
        self.hz: dict[str, set[str]] = {k: set() for k, _ in _HAZARDS}
        self.stored: set[str] = set()  # cached functions that may own an entry
        self.seen: dict = {}  # (out, kwargs) of root-only calls in the current mutation-free window -> executed cached fns
        self.last_call = None  # (out, kw recipe) of the previous call op
        self.calls_of: dict = {}  # out -> list of (op index, cached function on path?)
        self.events: list[int] = []  # op indices of mutations and intermediate-supplying calls
        self.labels: set[str] = set()
        self.units = 0
        self.aborted = False

    # -- construction -------------------------------------------------------------------------
    def build(self) -> bool:
        d = self.data
        if d.get("plain") and d["cache_type"] != "auto":
            from vlib.dag import plain_eligible

            self.cur["plain_callables"] = True
            if any(plain_eligible(fn) for fn in self.cur["funcs"]):
                self.labels.add("built-from-plain-callables")
        uprog = copy.deepcopy(self.cur)
        for fn in uprog["funcs"]:
            fn["cache"] = False
        try:
            self.pu = build_pipeline(uprog, self.log_u)
        except Exception:
            self.labels.add("n/a:build-refused")  # construction problems are C02's subject
            return False
        n_calls = sum(1 for op in d["ops"] if op["op"] in ("call", "repeat"))
        cap = len(self.cur["funcs"]) * max(1, n_calls) + 2 if self.ample else 1 + len(d["ops"]) % 2
        ct = d["cache_type"]
        kw: dict = {}
        if ct == "simple":
            kw = {"cache_type": "simple"}
        elif ct in ("lru", "hybrid"):
            kw = {"cache_type": ct, "cache_kwargs": {"max_size": cap, "shared": bool(d["shared"])}}
        elif ct == "disk":
            self.scratch = boot.fresh_dir("c09disk")
            # the in-memory layer in front of the files is sized independently of the file store: for every other
            # history it holds a single entry, so most resident entries live on disk only
            lru_cap = 1 if len(d["ops"]) % 2 else cap
            ck = {"cache_dir": self.scratch, "lru_shared": bool(d["shared"]), "with_lru_cache": bool(d["disk_lru"]), "lru_cache_size": lru_cap}
            if d["disk_lru"] and lru_cap < cap:
                self.labels.add("disk:lru-layer-smaller-than-store")
            if not self.ample:
                ck["max_size"] = cap
            kw = {"cache_type": "disk", "cache_kwargs": ck}
        else:  # "auto"
            kw = {}
        try:
            self.pc = build_pipeline(self.cur, self.log_c, **kw)
        except Exception as e:
            self.out.fail(exc_bucket(e, "cached-build-refused"), exc_detail(e))
            return False
        if self.pu.cache is not None:
            self.out.fail("uncached-twin-has-cache", type(self.pu.cache).__name__)
        if self.pc.cache is None:
            self.out.fail("cached-twin-has-no-cache", ct)
        return True

    def close(self) -> None:
        self.pu = self.pc = None
        if self.data["shared"]:
            gc.collect()  # drops the Manager proxies, which shuts the Manager process down
        kids = multiprocessing.active_children()
        if kids:
            self.labels.add("manager-leftover")
            for k in kids:
                k.terminate()
            for k in kids:
                k.join(2)
        if self.scratch:
            boot.rm(self.scratch)

    # -- resolution of a call recipe against the current program ----------------------------------
    def _resolve_call(self, op: dict):
        m = DagModel(self.cur)
        targets = _targets(self.cur)
        out = targets[op["out"] % len(targets)]
        names = None
        if op["cut"] >= 3:
            try:
                combos = sorted(self.pu.arg_combinations(out))
            except Exception:
                combos = []
            ok = []
            for c in combos:
                if all(n not in m.producer for n in c):
                    continue  # the root-only cut
                try:
                    _, _, _, _, _, used = m.evaluate(out, {n: "x" for n in c})
                except Missing:
                    continue
                if used != set(c):
                    continue  # lists a name nobody reads (C02: unused sibling of a tuple output)
                if "no_intermediate_with_all_roots" in self.flags and self._would_mix(m, out, c):
                    continue
                ok.append(c)
            if ok:
                names = list(ok[(op["cut"] - 3) % len(ok)])
        if names is None:
            names = list(m.needed_roots(out))
        names = sorted(names)
        supplied = [n for n in names if n in m.producer]
        cone = m.cone(out, supplied)
        recipe = []
        for i, n in enumerate(names):
            v = op["vals"][i % len(op["vals"])]
            omit = False
            if n not in m.producer and n in m.defaults and (op["omit"] >> (i % 6)) & 1:
                omit = True
                if "no_unkeyed_default_reliance" in self.flags:
                    for f in cone:
                        fn = m.funcs[f]
                        if f in self.cached and n in m.needed_roots(fn["outs"][0]) and not (
                            n in fn["bound"] or _func_level_default(fn, m, n)
                        ):
                            omit = False
            if not omit:
                recipe.append((n, f"S{v}{n}" if n in m.producer else f"V{v}"))
        return out, recipe

    def _would_mix(self, m: DagModel, out, combo) -> bool:
        supplied = {n for n in combo if n in m.producer}
        kw_all = {n: 1 for n in combo}
        for f in m.cone(out, supplied):
            if f in self.cached and self._mixed_for(m, f, supplied, kw_all, assume_defaults=True):
                return True
        return False

    def _mixed_for(self, m: DagModel, f: str, supplied: set, kw: dict, assume_defaults: bool = False) -> bool:
        fn = m.funcs[f]
        up = {o for g in m.cone(fn["outs"][0]) if g != f for o in m.funcs[g]["outs"]}
        if not (supplied & up):
            return False
        return _key_computable(fn, m, kw, any_default=assume_defaults)

    # -- one call on both twins -------------------------------------------------------------------
    def call(self, idx: int, out, recipe, style: str) -> None:
        m = DagModel(self.cur)
        # fresh string objects on every call (a key must not depend on object identity)
        from vlib.dag import Opaque

        def fresh(n, v):
            if self.opaque and n not in m.producer:
                return Opaque("".join([v[:1], v[1:]]))
            return "".join([v[:1], v[1:]])

        kw_u = {n: fresh(n, v) for n, v in recipe}
        kw_c = {n: fresh(n, v) for n, v in recipe}
        if self.alias:
            self.labels.add("roots-are-one-list-object-changed-in-place")
            for n, v in recipe:
                if n not in m.producer:
                    kw_u[n] = [fresh(n, v)]
                    self.live.setdefault(n, [])[:] = [fresh(n, v)]
                    kw_c[n] = self.live[n]
        supplied = {n for n in kw_u if n in m.producer}
        cone = m.cone(out, supplied)
        on_path = [f for f in cone if f in self.cached]
        # hazards that this call itself introduces
        for f in on_path:
            fn = m.funcs[f]
            if self._mixed_for(m, f, supplied, kw_u, assume_defaults=True):
                self.hz["mixed"].add(f)
            roots_f = m.needed_roots(fn["outs"][0])
            if any(p in roots_f for p in fn["bound"]):
                self.hz["shadow"].add(f)
        for k, _ in _HAZARDS:
            if self.hz[k] & set(on_path):
                self.labels.add(f"hazard:{k}")
        self.labels.add("call:intermediate" if supplied else "call:root-only")
        self.labels.add(f"style:{style}")
        if isinstance(out, tuple):
            self.labels.add("call:tuple-name")
        okey = repr(out)
        self.calls_of.setdefault(okey, []).append((idx, bool(on_path)))
        if supplied:
            self.events.append(idx)

        del self.log_u[:]
        eu = None
        ru = None
        try:
            ru = _do_call(self.pu, style, out, kw_u)
        except Exception as e:  # nothing is required of the cached twin
            eu = e
        del self.log_c[:]
        ec = None
        rc = None
        try:
            rc = _do_call(self.pc, style, out, kw_c)
        except Exception as e:
            ec = e
        ran_c = {name for name, _ in self.log_c}
        for f in on_path:
            if _key_computable(m.funcs[f], m, kw_u, any_default=True):
                self.stored.add(f)
        if eu is not None:
            self.labels.add("uncached-raised")
            return
        self.units += 1
        info = {"op": idx, "out": list(out) if isinstance(out, tuple) else out, "kwargs": dict(recipe), "style": style,
                "hazards": sorted(k for k, _ in _HAZARDS if self.hz[k] & set(on_path))}  # fmt: skip
        if ec is not None:
            self.out.fail(exc_bucket(ec, "cached-raised"), f"op {idx} {style} {out!r} {dict(recipe)}: {exc_detail(ec)}", info)
            return
        if ru != rc:
            kind = "value-differs"
            if style == "run_full" and isinstance(ru, dict) and isinstance(rc, dict) and ru.get(out) == rc.get(out):
                kind = "full_output-differs"
            suffix = _attribute(ru, rc, set(info["hazards"]))
            self.out.fail(kind + suffix, f"op {idx} {style} {out!r} {dict(recipe)}: cached {rc!r} uncached {ru!r}", info)
        # oracle 2: exact repeat of a root-only call inside a mutation-free window
        if not supplied:
            key = (okey, tuple(recipe))
            before = self.seen.get(key)
            if before is not None and self.ample:
                self.units += 1
                self.labels.add("oracle2-checked")
                again = sorted(before & ran_c)
                if again:
                    unkeyed = [f for f in again if not _key_computable(m.funcs[f], m, kw_u)]
                    if len(unkeyed) == len(again):
                        # no key could be computed (a root value comes from an upstream function's default), so no
                        # entry was ever resident: silent non-caching is outside the property - labelled, not judged
                        self.labels.add("repeat-reexecuted-but-never-resident")
                    else:
                        self.out.fail("repeat-reexecuted", f"op {idx} {style} {out!r} {dict(recipe)}: cached functions {again} ran again: {self.log_c!r}", info)
            self.seen.setdefault(key, set()).update(ran_c & self.cached)

    # -- mutations ----------------------------------------------------------------------------------
    def _mutate(self, idx: int, what: str, apply) -> bool:
        errs = []
        for p, which in ((self.pu, "u"), (self.pc, "c")):
            try:
                apply(p, which)
                errs.append(None)
            except Exception as e:
                errs.append(e)
        self.seen.clear()
        self.events.append(idx)
        self.labels.add(f"op:{what}")
        if (errs[0] is None) != (errs[1] is None):
            e = errs[0] or errs[1]
            self.out.fail(exc_bucket(e, f"{what}-diverged"), f"op {idx}: uncached {errs[0]!r} cached {errs[1]!r}")
            self.aborted = True
            return False
        if errs[0] is not None:
            self.labels.add(f"{what}-raised-on-both")
            self.aborted = True  # the model no longer knows the pipelines' state
            return False
        return True

    def op_defaults(self, idx: int, op: dict) -> None:
        cand = [r for r in self.cur["roots"] if any(r in fn["params"] and r not in fn["bound"] for fn in self.cur["funcs"])]
        if not cand:
            self.labels.add("noop")
            return
        r = cand[op["root"] % len(cand)]
        v = f"N{op['val']}"
        ow = bool(op["overwrite"])
        if self._mutate(idx, "update_defaults", lambda p, _w: p.update_defaults({r: v}, overwrite=ow)):
            for fn in self.cur["funcs"]:
                hit = r in fn["params"] and r not in fn["bound"]
                if ow:
                    fn["pf_defaults"] = {r: v} if hit else {}
                elif hit:
                    fn["pf_defaults"][r] = v

    def op_bound(self, idx: int, op: dict) -> None:
        anc = _ancestors(self.cur)
        above_cached = set().union(*[anc[f] for f in self.cached]) if self.cached else set()
        funcs = list(self.cur["funcs"])
        if "no_upstream_bound_mutation" in self.flags:
            funcs = [fn for fn in funcs if fn["name"] not in above_cached]
        if not funcs:
            self.labels.add("noop")
            return
        fn = funcs[op["func"] % len(funcs)]
        cand = [p for p in fn["params"] if p not in fn["pf_defaults"]]
        k = op["param"] % (len(cand) + 1)
        upd = {} if k == len(cand) else {cand[k]: f"B{op['val']}x{fn['name'][1:]}{cand[k]}"}
        ow = bool(op["overwrite"]) or not upd
        new_bound = dict(upd) if ow else {**fn["bound"], **upd}
        if new_bound == fn["bound"]:
            self.labels.add("noop")
            return
        if "no_bound_root_shadowing" in self.flags:
            trial = copy.deepcopy(self.cur)
            next(f for f in trial["funcs"] if f["name"] == fn["name"])["bound"] = new_bound
            if _shadowing(trial, self.cached):
                self.labels.add("noop")
                return
        name = fn["outs"][0]
        if self._mutate(idx, "update_bound", lambda p, _w: p[name].update_bound(dict(upd), overwrite=ow)):
            fn["bound"] = new_bound
            for f in self.cached:
                if fn["name"] in anc[f] and f in self.stored:
                    self.hz["bound_mut"].add(f)

    def op_replace(self, idx: int, op: dict) -> None:
        anc = _ancestors(self.cur)
        above_cached = set().union(*[anc[f] for f in self.cached]) if self.cached else set()
        funcs = list(self.cur["funcs"])
        if "no_replace_above_cached" in self.flags:
            funcs = [fn for fn in funcs if fn["name"] not in above_cached]
        if not funcs:
            self.labels.add("noop")
            return
        fn = funcs[op["func"] % len(funcs)]
        self.version += 1
        ver = f"v{self.version}"

        def apply(p, which):
            spec = fn if which == "c" else dict(fn, cache=False)
            p.replace(make_pipefunc(spec, self.log_c if which == "c" else self.log_u, version=ver))

        if self._mutate(idx, "replace", apply):
            for f in self.cached:
                if fn["name"] in anc[f] and f in self.stored:
                    self.hz["replaced"].add(f)

    # -- driver -------------------------------------------------------------------------------------
    def run(self) -> None:
        for idx, op in enumerate(self.data["ops"]):
            if self.aborted:
                self.labels.add("history-aborted")
                break
            kind = op["op"]
            if kind == "call":
                out, recipe = self._resolve_call(op)
                self.last_call = (out, recipe)
                self.call(idx, out, recipe, op["style"])
            elif kind == "repeat":
                if self.last_call is None:
                    self.labels.add("noop")
                    continue
                self.labels.add("op:repeat")
                self.call(idx, self.last_call[0], self.last_call[1], op["style"])
            elif kind == "defaults":
                self.op_defaults(idx, op)
            elif kind == "bound":
                self.op_bound(idx, op)
            elif kind == "replace":
                self.op_replace(idx, op)

    def nontrivial(self) -> bool:
        for calls in self.calls_of.values():
            with_cached = [i for i, c in calls if c]
            if len(calls) >= 2 and with_cached:
                lo, hi = calls[0][0], calls[-1][0]
                if any(lo <= e <= hi for e in self.events):
                    return True
        return False


def body_history(data) -> Outcome:
    out = Outcome()
    tw = _Twins(data, out)
    try:
        if tw.build():
            tw.run()
    finally:
        tw.close()
    labs = dag_labels(data["prog"])
    out.labels = (
        [l for l in labs if not l.startswith("nf")]
        + sorted(tw.labels)
        + [f"cache:{data['cache_type']}{'/shared' if data['shared'] else ''}", f"capacity:{data['capacity']}"]
        + ["flags:" + ("all" if len(data["flags"]) == len(FLAGS) else "none" if not data["flags"] else "some")]
    )
    out.nontrivial = tw.nontrivial()
    if out.nontrivial:
        out.labels.append("nontrivial")
    out.units = max(1, tw.units)
    return out


# ------------------------------------------------------------------------------------------------
# map campaign


def _map_inputs(prog: dict, mods: list) -> dict:
    """make_inputs with repeating element values: element at flat position q holds '<root><q mod k>'."""
    inputs = {}
    for i, r in enumerate(mp.used_roots(prog)):
        spec = prog["roots"][r]
        axes = spec["axes"]
        if not axes:
            inputs[r] = f"{r}"
            continue
        k = max(1, mods[i % len(mods)])
        shape = tuple(prog["sizes"][a] for a in axes)
        arr = np.empty(shape, dtype=object)
        for q, idx in enumerate(np.ndindex(*shape)):
            arr[idx] = f"{r}<{q % k}>"
        inputs[r] = arr.tolist() if spec["kind"] == "list" and len(axes) == 1 else arr
    return inputs


@st.composite
def map_cases(draw):
    prog = draw(mp.map_programs(max_funcs=3, storages=("dict", "file_array")))
    n = len(prog["funcs"])
    cached = [draw(st.booleans()) for _ in range(n)]
    if not any(cached):
        cached[draw(st.integers(0, n - 1))] = True
    ex = draw(st.sampled_from(["seq"] * 17 + ["thread", "thread", "process"]))
    if ex == "seq":
        cache_type = draw(st.sampled_from(["simple", "lru", "hybrid", "disk"]))
        shared = False
        tiny = cache_type != "simple" and draw(st.integers(0, 11)) == 0
    else:
        # real concurrency only in configurations whose outcome does not depend on timing: a Manager-shared cache that
        # never evicts (threads: also the GIL-atomic SimpleCache).  The timing-dependent interleavings (eviction between
        # the membership test and the read; a DiskCache file read while it is being written) are the deterministic
        # subject of the "race" campaign.
        cache_type = draw(st.sampled_from(["lru", "hybrid"] + (["simple", "disk"] if ex == "thread" else [])))
        shared = cache_type != "simple"
        tiny = False
    return {
        "prog": prog,
        "cached": cached,
        "cache_type": cache_type,
        "shared": shared,
        "executor": ex,
        "mods": [draw(st.integers(1, 2)) for _ in range(3)],
        "tiny": tiny,
    }


def _canon_outputs(prog: dict, res) -> dict:
    return {o: (mp.canon(res[o].output), np.shape(res[o].output)) for o in mp.output_names(prog)}


def body_map(data) -> Outcome:
    out = Outcome()
    prog = data["prog"]
    if len(data["mods"]) > 2 and data["mods"][2] % 2:
        prog = dict(prog, same_callable_name=True)  # every wrapped callable is called "f"
    labs = mp.labels(prog)
    ex_kind = data["executor"]
    cached_names = [fn["name"] for fn, c in zip(prog["funcs"], data["cached"]) if c]
    out.labels = [l for l in labs if not l.startswith("nf")] + [
        f"cache:{data['cache_type']}{'/shared' if data['shared'] else ''}",
        f"executor:{ex_kind}",
    ]
    out.nontrivial = mp.nontrivial(labs) and any(
        fn["mapspec"] and fn["name"] in cached_names for fn in prog["funcs"]
    )
    inputs = _map_inputs(prog, data["mods"])
    folder_u = boot.fresh_path("c09mu")
    folder_c = boot.fresh_path("c09mc")
    scratch = None
    pipe_c = None
    executors: list = []
    base_kw = dict(internal_shapes=mp.internal_shapes_arg(prog), storage=mp.storage_arg(prog))
    try:
        try:
            pipe_u = mp.build_pipeline(prog)
            res_u = pipe_u.map(inputs, run_folder=folder_u, parallel=False, **base_kw)
            ref = _canon_outputs(prog, res_u)
        except Exception:
            out.labels.append("n/a:uncached-raised")  # C01's subject
            return out
        try:
            den = mp.denotation(prog, inputs)
            if any(mp.canon(den[o]) != ref[o][0] for o in ref):
                out.labels.append("uncached-differs-from-denotation")
        except Exception:
            out.labels.append("denotation-raised")
        n_calls = sum(mp.expected_call_counts(prog).values())
        cap = (1 + len(prog["funcs"]) % 2) if data["tiny"] else n_calls + 2
        ct = data["cache_type"]
        if ct == "simple":
            ck = None
        elif ct in ("lru", "hybrid"):
            ck = {"max_size": cap, "shared": bool(data["shared"])}
        else:
            scratch = boot.fresh_dir("c09mdisk")
            ck = {"cache_dir": scratch, "lru_shared": bool(data["shared"]), "lru_cache_size": cap}
            if data["tiny"]:
                ck["max_size"] = cap
        log: list | None = [] if ex_kind != "process" else None
        try:
            pipe_c = mp.build_pipeline(
                prog, log=log, pf_extra={f: {"cache": True} for f in cached_names}, cache_type=ct, cache_kwargs=ck
            )
        except Exception as e:
            out.fail(exc_bucket(e, "map-cached-build-refused"), exc_detail(e))
            return out
        units = 0
        for run in (1, 2):
            kw = dict(base_kw, run_folder=folder_c)
            if ex_kind == "seq":
                kw["parallel"] = False
            elif ex_kind == "thread":
                ex = ThreadPoolExecutor(max_workers=2)
                executors.append(ex)
                kw["executor"] = ex
            else:
                ex = ProcessPoolExecutor(max_workers=2, mp_context=multiprocessing.get_context("fork"))
                executors.append(ex)
                kw["executor"] = ex
            try:
                res = pipe_c.map(inputs, **kw)
            except Exception as e:
                out.fail(exc_bucket(e, f"map-cached-raised-run{run}"), exc_detail(e))
                break
            finally:
                while executors:
                    executors.pop().shutdown(wait=True)
            try:
                got = _canon_outputs(prog, res)
            except Exception as e:
                out.fail(exc_bucket(e, "map-cached-result-unreadable"), exc_detail(e))
                break
            for o in ref:
                units += 1
                if got[o][0] != ref[o][0]:
                    out.fail(f"map-value-differs-run{run}", f"{o}: cached {str(got[o][0])[:220]} uncached {str(ref[o][0])[:220]}")
                elif got[o][1] != ref[o][1]:
                    out.fail(f"map-shape-differs-run{run}", f"{o}: cached {got[o][1]} uncached {ref[o][1]}")
        if ex_kind == "seq" and not data["tiny"] and log is not None:
            units += 1
            starts = [(e[1], e[2]) for e in log if e[0] == "start" and e[1] in cached_names]
            dup = sorted({s for s in starts if starts.count(s) > 1})
            if dup:
                out.fail("map-repeat-reexecuted", f"{dup[:3]} executed more than once over two runs")
            if len(set(starts)) < sum(1 for _ in starts) or len(starts) < sum(
                mp.expected_call_counts(prog)[f] for f in cached_names
            ):
                out.labels.append("map:cache-hit-observed")
        # ---- a mutation between maps (no pipeline(...) call in between): one function is replaced by another with
        # the same output name and parameters; the next map must show the new function's results everywhere
        if ex_kind == "seq" and not out.failures and len(data["mods"]) and data["mods"][0] % 2:
            j = data["mods"][1] % len(prog["funcs"])
            prog2 = copy.deepcopy(prog)
            prog2["funcs"][j]["name"] += "v2"
            try:
                new_pf = mp.make_pipefuncs(prog2, log, **{f: {"cache": True} for f in cached_names if f != prog["funcs"][j]["name"]},
                                           **({prog2["funcs"][j]["name"]: {"cache": True}} if prog["funcs"][j]["name"] in cached_names else {}))[j]  # fmt: skip
                pipe_c.replace(new_pf)
                ref2 = _canon_outputs(prog2, mp.build_pipeline(prog2).map(inputs, run_folder=folder_u, parallel=False, **base_kw))
            except Exception:
                out.labels.append("n/a:replace-refused")
                ref2 = None
            if ref2 is not None:
                out.labels.append("map:replace-between-maps")
                units += 1
                try:
                    got = _canon_outputs(prog2, pipe_c.map(inputs, run_folder=folder_c, parallel=False, **base_kw))
                    for o in ref2:
                        if got[o][0] != ref2[o][0]:
                            stale = got[o][0] == ref[o][0]
                            out.fail("map-after-replace-" + ("stale-results-of-the-replaced-function" if stale else "value-differs"),
                                     f"{o}: cached {str(got[o][0])[:220]} uncached {str(ref2[o][0])[:220]}")
                            break
                except Exception as e:
                    out.fail(exc_bucket(e, "map-after-replace-raised"), exc_detail(e))
        out.units = max(1, units)
    finally:
        while executors:
            executors.pop().shutdown(wait=True)
        pipe_c = pipe_u = res = res_u = None  # noqa: F841
        gc.collect()
        kids = multiprocessing.active_children()
        if kids:
            out.labels.append("manager-leftover")
            for k in kids:
                k.terminate()
            for k in kids:
                k.join(2)
        boot.rm(folder_u)
        boot.rm(folder_c)
        if scratch:
            boot.rm(scratch)
    return out


# ------------------------------------------------------------------------------------------------
# race campaign: what another worker may do to a shared cache between two cache operations of this worker,
# injected deterministically at the cache API


def _intruded(base_cls):
    """A cache class whose membership test is a *scheduling point*: when the plan says so, "another worker" acts
    right there, through the public API only --
      evict: it stores an entry of its own after the test said True (a full cache then evicts the tested key),
      torn:  it has just entered put() for the same key (DiskCache: the file exists, nothing is written yet)."""

    class Intruded(base_cls):
        _plan = [True]
        _mode = "evict"
        _n = 0
        acted = 0

        def __contains__(self, key):
            i = self._n
            self._n += 1
            act = bool(self._plan[i % len(self._plan)])
            if act and self._mode == "torn" and not base_cls.__contains__(self, key):
                self._get_file_path(key).open("wb").close()
                self.acted += 1
            present = base_cls.__contains__(self, key)
            if act and present and self._mode == "evict":
                base_cls.put(self, ("<another worker>", i), "x")
                self.acted += 1
            return present

    Intruded.__name__ = "Intruded" + base_cls.__name__
    return Intruded


@st.composite
def race_cases(draw):
    kind = draw(st.sampled_from(["map", "call"]))
    mode = draw(st.sampled_from(["evict"]))  # "torn" (reader sees a half-written DiskCache file) cannot happen since put() renames a complete temporary file
    if kind == "map":
        prog = draw(mp.map_programs(max_funcs=3, storages=("dict",)))
        cached = [True] * len(prog["funcs"])
    else:
        prog = draw(dag_programs(max_funcs=4, min_funcs=1, cache=True))
        if not any(fn["cache"] for fn in prog["funcs"]):
            prog["funcs"][draw(st.integers(0, len(prog["funcs"]) - 1))]["cache"] = True
        prog = _strip_shadowing(prog)
        cached = [fn["cache"] for fn in prog["funcs"]]
    return {
        "kind": kind,
        "mode": mode,
        "prog": prog,
        "cached": cached,
        "plan": draw(st.lists(st.booleans(), min_size=1, max_size=6)),
        "disk_lru": draw(st.booleans()),
        "mods": [draw(st.integers(1, 2)) for _ in range(3)],
    }


def body_race(data) -> Outcome:
    from pipefunc.cache import DiskCache, LRUCache

    out = Outcome()
    kind, mode, prog = data["kind"], data["mode"], data["prog"]
    out.labels = [f"race:{mode}/{kind}"]
    scratch = None
    if mode == "evict":
        cache = _intruded(LRUCache)(max_size=1, shared=False)
    else:
        scratch = boot.fresh_dir("c09race")
        cache = _intruded(DiskCache)(scratch, with_lru_cache=bool(data["disk_lru"]), lru_shared=False)
    cache._plan = list(data["plan"])
    cache._mode = mode
    bucket = {
        ("evict", "map"): "race-evicted-between-contains-and-get:map",
        ("evict", "call"): "race-evicted-between-contains-and-get:call",
        ("torn", "map"): "race-diskcache-read-of-file-being-written",
        ("torn", "call"): "race-diskcache-read-of-file-being-written",
    }[(mode, kind)]
    units = 0
    folders = []
    try:
        if kind == "call":
            uprog = copy.deepcopy(prog)
            for fn in uprog["funcs"]:
                fn["cache"] = False
            try:
                pu = build_pipeline(uprog, None)
                pc = build_pipeline(prog, None, cache_type="simple")
            except Exception:
                out.labels.append("n/a:build-refused")
                return out
            pc.cache = cache
            m = DagModel(prog)
            for rnd in (1, 2):
                for t in _targets(prog):
                    kw = {r: "V0" for r in m.needed_roots(t)}
                    try:
                        ru = pu(t, **kw)
                    except Exception:
                        continue
                    units += 1
                    try:
                        rc = pc(t, **dict(kw))
                    except Exception as e:
                        out.fail(bucket, f"round {rnd} {t!r}: cached raised {exc_detail(e)}")
                        continue
                    if rc != ru:
                        out.fail(bucket, f"round {rnd} {t!r}: cached {rc!r} uncached {ru!r}")
        else:
            inputs = _map_inputs(prog, data["mods"])
            base_kw = dict(internal_shapes=mp.internal_shapes_arg(prog), storage=mp.storage_arg(prog), parallel=False)
            folders = [boot.fresh_path("c09ru"), boot.fresh_path("c09rc")]
            try:
                ref = _canon_outputs(prog, mp.build_pipeline(prog).map(inputs, run_folder=folders[0], **base_kw))
                names = [fn["name"] for fn, c in zip(prog["funcs"], data["cached"]) if c]
                pipe_c = mp.build_pipeline(prog, pf_extra={f: {"cache": True} for f in names}, cache_type="simple")
            except Exception:
                out.labels.append("n/a:uncached-raised")
                return out
            pipe_c.cache = cache
            for run in (1, 2):
                units += 1
                try:
                    got = _canon_outputs(prog, pipe_c.map(inputs, run_folder=folders[1], **base_kw))
                except Exception as e:
                    out.fail(bucket, f"run {run}: cached raised {exc_detail(e)}")
                    continue
                for o in ref:
                    if got[o] != ref[o]:
                        out.fail(bucket, f"run {run} {o}: cached {str(got[o][0])[:200]} uncached {str(ref[o][0])[:200]}")
        out.nontrivial = cache.acted > 0
        if cache.acted:
            out.labels.append("race:intruder-acted")
        out.units = max(1, units)
    finally:
        for f in folders:
            boot.rm(f)
        if scratch:
            boot.rm(scratch)
    return out


# ------------------------------------------------------------------------------------------------


# ------------------------------------------------------------------------------------------------
# map-context campaign: functions whose result depends on more than the element's own arguments (evaluated
# `resources` handed in through `resources_variable`, with element or whole-map scope; a reduction downstream),
# mapped several times with *different* input arrays that share element values, on one cached pipeline


def _res_map(kw):
    from pipefunc.resources import Resources

    return Resources(cpus=1 + len(kw["x"]), memory=f"{1 + sum(int(v) for v in kw['x']) % 5}GB")


def _res_elem(kw):
    from pipefunc.resources import Resources

    return Resources(cpus=1 + int(kw["x"]) % 3, memory="1GB")


def _ctx_f(x, res):
    return f"f({x}|{res.cpus},{res.memory})"


def _ctx_f_plain(x):
    return f"f({x})"


def _ctx_g(y, k=0):
    return f"g({y},{k})"


def _ctx_h(z):
    return "h(" + ",".join(z) + ")"


@st.composite
def ctx_cases(draw):
    return {
        "scope": draw(st.sampled_from(["map", "map", "element", "none"])),
        "static": draw(st.integers(0, 3)) == 0,  # resources given as a fixed dict instead of a callable
        "cache_type": draw(st.sampled_from(["simple", "lru", "hybrid", "disk"])),
        "cached": draw(st.lists(st.booleans(), min_size=3, max_size=3)),
        "runs": draw(st.lists(st.lists(st.integers(0, 3), min_size=1, max_size=4), min_size=2, max_size=4)),
        "ks": draw(st.lists(st.integers(0, 1), min_size=4, max_size=4)),
    }


def _ctx_pipeline(data, cache_type, scratch):
    from pipefunc import PipeFunc, Pipeline

    c = data["cached"] if cache_type else [False] * 3
    if data["scope"] == "none":
        f = PipeFunc(_ctx_f_plain, "y", mapspec="x[i] -> y[i]", cache=c[0])
    else:
        res = {"cpus": 2, "memory": "3GB"} if data["static"] else (_res_map if data["scope"] == "map" else _res_elem)
        f = PipeFunc(_ctx_f, "y", mapspec="x[i] -> y[i]", cache=c[0], resources=res, resources_variable="res",
                     resources_scope=data["scope"])  # fmt: skip
    g = PipeFunc(_ctx_g, "z", mapspec="y[i] -> z[i]", cache=c[1])
    h = PipeFunc(_ctx_h, "w", cache=c[2])
    kw = {}
    if cache_type == "disk":
        kw["cache_kwargs"] = {"cache_dir": scratch, "lru_cache_size": 2}
    elif cache_type in ("lru", "hybrid"):
        kw["cache_kwargs"] = {"max_size": 64}
    return Pipeline([f, g, h], cache_type=cache_type, **kw)


def body_ctx(data) -> Outcome:
    out = Outcome()
    scratch = boot.fresh_dir("c09ctx")
    if not any(data["cached"]):
        data = dict(data, cached=[True, data["cached"][1], data["cached"][2]])
    try:
        try:
            pu = _ctx_pipeline(data, None, scratch)
            pc = _ctx_pipeline(data, data["cache_type"], scratch)
        except Exception as e:
            out.fail(exc_bucket(e, "ctx-build-refused"), exc_detail(e))
            return out
        seen_elems: set = set()
        shared_elems = False
        for r, xs in enumerate(data["runs"]):
            inputs = {"x": list(xs), "k": data["ks"][r]}
            shared_elems |= bool(seen_elems & set(xs)) and tuple(xs) not in {tuple(p) for p in data["runs"][:r]}
            seen_elems |= set(xs)
            try:
                ref = pu.map(inputs, parallel=False, storage="dict")
            except Exception:
                out.labels.append("n/a:uncached-raised")
                return out
            try:
                got = pc.map(inputs, parallel=False, storage="dict")
            except Exception as e:
                out.fail(exc_bucket(e, f"ctx-cached-raised-scope-{data['scope']}"), exc_detail(e), {"run": r})
                return out
            out.units += 3
            for o in ("y", "z", "w"):
                a, b = mp.canon(ref[o].output), mp.canon(got[o].output)
                if a != b:
                    out.fail(f"ctx-value-differs-scope-{data['scope']}{'-static' if data['static'] else ''}-{o}",
                             f"run {r} inputs {inputs}: {o} cached {str(b)[:200]} uncached {str(a)[:200]}", {"run": r, "output": o})
                    return out
        out.labels += [f"ctx:scope-{data['scope']}", f"ctx:cache-{data['cache_type']}", f"ctx:runs-{len(data['runs'])}"]
        if shared_elems:
            out.labels.append("ctx:runs-share-elements-in-different-arrays")
        out.nontrivial = shared_elems
    finally:
        boot.rm(scratch)
    return out


def _base_campaigns(tier):
    return [
        Campaign("history", body_history, histories(), quick=10000, thorough=160000,
                 describe="twin pipelines (cached / uncached) x histories of calls and mutations"),  # fmt: skip
        Campaign("map", body_map, map_cases(), quick=1000, thorough=16000,
                 describe="MapPrograms mapped twice with a cache vs. without, repeated input values"),  # fmt: skip
        Campaign("map-context", body_ctx, ctx_cases(), quick=600, thorough=10000,
                 describe="a cached mapped function receiving evaluated resources (element / whole-map scope) + reduction, several "
                          "maps with different arrays that share element values on one cached pipeline"),  # fmt: skip
        Campaign("race", body_race, race_cases(), quick=400, thorough=6000,
                 describe="another worker's eviction / half-written file injected at the cache's membership test"),  # fmt: skip
    ]


PREDICATES = {}


def campaigns(tier):
    camps = list(_base_campaigns(tier))
    if tier == "thorough":  # coverage-guided search over the same structured cases (fuzz/hyp_fuzz.py)
        from vlib.core import cov_fuzz_campaign

        camps.append(cov_fuzz_campaign(PID, [('history', 6000)]))
    return camps

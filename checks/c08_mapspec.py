"""C08 -- MapSpec parsing, printing, shapes and index maps agree (DESIGN.md section 4, C08).

The check owns a tiny AST ({"inputs": [{"name", "axes": [index | null]}], "outputs": [...]}), its own printer
(with drawn whitespace) and its own reference semantics (shape, mask, row-major positions, per-input keys,
renaming, axis extension, cross-spec axis consistency).  pipefunc's MapSpec is compared with that reference; it
is never used to compute an expectation.

Replaying a failure of the thorough-only campaign "fuzz" needs ``--tier thorough``; every string the fuzzer
reports can also be replayed in any tier as {"campaign": "strings", "data": {"s": "<string>"}}.
"""

from __future__ import annotations

import importlib.util
import itertools
import json
import os
import subprocess
import sys
from collections import defaultdict

import numpy as np
from hypothesis import strategies as st

from vlib import boot
from vlib.core import Campaign, Outcome, exc_bucket, exc_detail

from pipefunc.map._mapspec import (
    ArraySpec,
    MapSpec,
    mapspec_axes,
    mapspec_dimensions,
    shape_to_strides,
    validate_consistent_axes,
)

from fuzz.mapspec_fuzz import DICT as FUZZ_DICT
from fuzz.mapspec_fuzz import SEEDS as FUZZ_SEEDS
from fuzz.mapspec_fuzz import check_string

PID = "C08"
LEVEL = "exploration"
RULE = (
    "Hypothesis-generated MapSpec ASTs (0-3 inputs of rank 1-3 whose axes are ':' or distinct output indices in any "
    "order, 1-2 outputs of rank 1-4 sharing one index tuple, plain and scoped 'a.b' names, '...' for no inputs) printed "
    "by the check's own printer with drawn whitespace (spaces/tabs around '->', around commas, inside brackets) or "
    "canonically; index sizes 1-4, every linear index. Oracles (independent reference, both directions): "
    "from_string(print(ast)) == constructor-built spec and field-wise == AST; str canonical, round trip, idempotence; "
    "shape()/mask reference plus ValueError for every single-fault shape dictionary; output_key == row-major position "
    "== np.unravel_index and a bijection; input_keys == per-input reference tuples and, applied to NumPy arrays, select "
    "exactly the entries whose named coordinates equal the position; rename/add_axes == AST rewriting; "
    "validate_consistent_axes/mapspec_axes/mapspec_dimensions == reference on chains of 1-3 specs sharing arrays "
    "(25% with an injected inconsistency); single-mutation malformed specs must raise through constructors and "
    "from_string; token-soup / edited strings and (thorough) an atheris campaign check the laws on every accepted "
    "string. Exhaustive campaign: output_key on every shape of rank 0-4 with sizes 1-4. "
    "Non-trivial = spec with >= 2 inputs and at least one of {':' axis, scoped name, 2 outputs, non-canonical "
    "whitespace}; lists: >= 2 specs sharing an array; malformed: every case; strings: accepted string naming >= 2 "
    "arrays; fuzz: run with >= 1000 accepted strings. Distinct by sha1 of the generated case."
)
ASSUMPTIONS = [
    "whitespace is drawn from {'', ' ', '  ', TAB} at the places the documentation uses it (around '->', around commas, "
    "just inside brackets); no whitespace inside names or between a name and '['; no newlines",
    "array names are distinct inside one spec; an index name occurs at most once per array",
    "text the lenient tokenizer skips ('a-b[i]', 'a [i]', 'c[]') is not asserted to be rejected (DESIGN.md section 7); "
    "non-identifier array names are asserted through from_string only when the tokenizer captures them whole "
    "(leading digit, scope part starting with a digit), arbitrary ones only through the constructors",
    "any exception raised at construction counts as a rejection of a malformed spec (ValueError on the current tree); "
    "shape() faults must raise ValueError specifically",
    "internal shapes are supplied for every output name; a surplus (too long) internal shape is not exercised",
    "mapspec_axes is compared only when the list is consistent and every axis position of every array is named in "
    "at least one occurrence (pipefunc raises KeyError / returns a shorter tuple otherwise; unspecified)",
    "mapspec_dimensions is compared per array only for arrays whose rank is the same in every occurrence",
    "add_axes is exercised with one or two distinct new axes, one already-used axis, and None (must raise because "
    "outputs may not contain ':'); repeating one new axis inside a single call is not judged",
    "linear indices outside 0..N-1 are not exercised",
    "fuzz inputs are folded onto printable ASCII, max length 64; the fuzz subprocess runs with ASLR disabled "
    "(setarch -R) when available so that a (seed, runs, corpus) case replays exactly",
]

ARR_NAMES = [
    "a", "b", "c", "d", "x", "y", "q", "foo", "z_1", "_p", "arr2", "w", "s.a", "pkg.x", "n1.v_2", "s.b", "foo.bar",
    "_s._t", "u.v", "h", "g2", "m.n",
]  # fmt: skip
IDX_NAMES = ["i", "j", "k", "l", "n", "idx_0", "_m", "ii"]
FRESH_NAMES = ["r1", "new_name", "t.u", "zz", "w_", "sc.r2", "R"]
FRESH_IDX = ["m9", "ax", "_e"]
WS = ["", " ", "  ", "\t"]


class Cyc:
    def __init__(self, seq):
        self.seq = list(seq) or [0]
        self.i = 0

    def __call__(self):
        v = self.seq[self.i % len(self.seq)]
        self.i += 1
        return v


# ---- AST helpers / reference semantics --------------------------------------------------------
def tok(ax):
    return ":" if ax is None else ax


def print_ast(ast, ws=None) -> str:
    if ws is None:

        def arr(a):
            return f"{a['name']}[{', '.join(tok(x) for x in a['axes'])}]"

        ins = ", ".join(arr(a) for a in ast["inputs"]) if ast["inputs"] else "..."
        return f"{ins} -> {', '.join(arr(a) for a in ast['outputs'])}"
    c = Cyc(ws)

    def w():
        return WS[c() % len(WS)]

    def arr(a):
        return a["name"] + "[" + ",".join(w() + tok(x) + w() for x in a["axes"]) + "]"

    def side(arrs):
        if not arrs:
            return "..."
        s = arr(arrs[0])
        for a in arrs[1:]:
            s += w() + "," + w() + arr(a)
        return s

    return w() + side(ast["inputs"]) + w() + "->" + w() + side(ast["outputs"]) + w()


def build(ast) -> MapSpec:
    return MapSpec(
        tuple(ArraySpec(a["name"], tuple(a["axes"])) for a in ast["inputs"]),
        tuple(ArraySpec(a["name"], tuple(a["axes"])) for a in ast["outputs"]),
    )


def ast_of(m) -> dict:
    return {
        "inputs": [{"name": a.name, "axes": list(a.axes)} for a in m.inputs],
        "outputs": [{"name": a.name, "axes": list(a.axes)} for a in m.outputs],
    }


def ext_indices(ast) -> list:
    return [ix for ix in ast["outputs"][0]["axes"] if any(ix in a["axes"] for a in ast["inputs"])]


def is_nontrivial(ast, ws=None) -> bool:
    if len(ast["inputs"]) < 2:
        return False
    arrays = ast["inputs"] + ast["outputs"]
    return (
        any(ax is None for a in ast["inputs"] for ax in a["axes"])
        or any("." in a["name"] for a in arrays)
        or len(ast["outputs"]) == 2
        or (ws is not None and print_ast(ast, ws) != print_ast(ast))
    )


def spec_labels(ast) -> list:
    labs = [f"in{len(ast['inputs'])}", f"out{len(ast['outputs'])}", f"orank{len(ast['outputs'][0]['axes'])}"]
    if any(ax is None for a in ast["inputs"] for ax in a["axes"]):
        labs.append("colon")
    if any("." in a["name"] for a in ast["inputs"] + ast["outputs"]):
        labs.append("scoped")
    ext = ext_indices(ast)
    if len(ext) < len(ast["outputs"][0]["axes"]):
        labs.append("internal-axis")
    named = [ax for a in ast["inputs"] for ax in a["axes"] if ax is not None]
    if len(set(named)) < len(named):
        labs.append("zipped-index")
    for a in ast["inputs"]:
        na = [ax for ax in a["axes"] if ax is not None]
        if na != [ix for ix in ast["outputs"][0]["axes"] if ix in na]:
            labs.append("input-transposed")
            break
    return labs


def get_spec(out, data):
    """The MapSpec under test for a well-formed AST (through from_string or the constructors, as drawn)."""
    ast = data["spec"]
    try:
        if data.get("via") == "string":
            return MapSpec.from_string(print_ast(ast, data.get("ws")))
        return build(ast)
    except Exception as e:  # noqa: BLE001
        out.fail(exc_bucket(e, "valid-refused"), f"{print_ast(ast)!r}: {exc_detail(e)}")
        return None


# ---- strategies -------------------------------------------------------------------------------
def digits(code: int, base: int, n: int) -> list:
    """n base-`base` digits of code (least significant first) -- one Hypothesis draw instead of n."""
    outd = []
    for _ in range(n):
        code, d = divmod(code, base)
        outd.append(d)
    return outd


def pick_distinct(code: int, items, k: int) -> list:
    """k distinct items selected by a mixed-radix code (code 0 = the first k items in order)."""
    pool = list(items)
    res = []
    for _ in range(k):
        code, d = divmod(code, len(pool))
        res.append(pool.pop(d))
    return res


def code(bits: int):
    """A (near-)uniform integer of about `bits` bits.  Hypothesis draws bounded ranges above 2**24 with a strong bias
    to small magnitudes, which would freeze the high mixed-radix digits; 24-bit chunks are drawn uniformly."""
    n = -(-bits // 24)
    return st.tuples(*[st.integers(0, 2**24 - 1)] * n).map(lambda t: sum(v << (24 * i) for i, v in enumerate(t)))


BIG = code(48)


@st.composite
def spec_ast(draw, names=None, min_inputs=0, n_out=None, none_one_in=4, min_orank=1):
    head = digits(draw(BIG), 6, 3)
    r_outs = [r for r in [2, 3, 1, 2, 3, 4] if r >= min_orank]
    r_out = r_outs[head[0] % len(r_outs)]
    out_idx = pick_distinct(draw(st.integers(0, 8 * 7 * 6 * 5 - 1)), IDX_NAMES, r_out)
    if n_out is None:
        n_out = [1, 1, 2][head[1] % 3]
    n_ins = [n for n in [2, 0, 1, 2, 3, 3] if n >= min_inputs]
    n_in = n_ins[head[2] % len(n_ins)]
    if names is None:
        names = pick_distinct(draw(BIG), ARR_NAMES, n_in + n_out)
    inputs = []
    for t in range(n_in):
        c, rank0 = divmod(draw(BIG), 3)
        rank = [2, 1, 3][rank0]
        c, permcode = divmod(c, 24)
        supply = iter(pick_distinct(permcode, out_idx, len(out_idx)))
        axes = [None if (d % none_one_in) == none_one_in - 1 else next(supply, None) for d in digits(c, 16, rank)]
        inputs.append({"name": names[t], "axes": axes})
    outputs = [{"name": names[n_in + u], "axes": list(out_idx)} for u in range(n_out)]
    return {"inputs": inputs, "outputs": outputs}


ws_strategy = st.one_of(
    st.none(), code(48).map(lambda c: [[0, 0, 1, 1, 2, 3][d] for d in digits(c, 6, 10)])
)


@st.composite
def spec_case(draw, **kw):
    ast = draw(spec_ast(**kw))
    misc = digits(draw(BIG), 4, 9)
    return {
        "spec": ast,
        "ws": draw(ws_strategy),
        "via": ["ctor", "string"][misc[8] % 2],
        "sizes": {ix: 1 + misc[p] for p, ix in enumerate(ast["outputs"][0]["axes"])},
        "colon": [1 + d for d in misc[4:8]],
        "picks": digits(draw(st.integers(0, 12**4 - 1)), 12, 4),
    }


# ---- campaign: parse / print ------------------------------------------------------------------
def body_parse(data) -> Outcome:
    out = Outcome()
    ast, ws = data["spec"], data["ws"]
    text = print_ast(ast, ws)
    canon = print_ast(ast)
    out.nontrivial = is_nontrivial(ast, ws)
    out.labels += spec_labels(ast) + ["ws-canonical" if text == canon else "ws-drawn"]
    if "\t" in text:
        out.labels.append("ws-tab")
    try:
        ref = build(ast)
    except Exception as e:  # noqa: BLE001
        out.fail(exc_bucket(e, "valid-refused-ctor"), f"{canon!r}: {exc_detail(e)}")
        return out
    if ast_of(ref) != ast:
        out.fail("ctor-fields-differ-from-ast", f"{canon!r} -> {ast_of(ref)}")
    try:
        m = MapSpec.from_string(text)
    except Exception as e:  # noqa: BLE001
        out.fail(exc_bucket(e, "valid-refused-from_string"), f"{text!r}: {exc_detail(e)}")
        return out
    out.units = 8
    if ast_of(m) != ast:
        out.fail("from_string-wrong-ast", f"{text!r} -> {ast_of(m)}")
    if m != ref or ref != m:
        out.fail("from_string-differs-from-constructors", f"{text!r} -> {m!s} vs {ref!s}")
    try:
        s_ref, s_m, ts = str(ref), str(m), ref.to_string()
    except Exception as e:  # noqa: BLE001
        out.fail(exc_bucket(e, "str-raised"), exc_detail(e))
        return out
    if s_ref != canon:
        out.fail("str-not-canonical", f"{s_ref!r} want {canon!r}")
    if ts != s_ref:
        out.fail("to_string-differs-from-str", f"{ts!r} vs {s_ref!r}")
    try:
        back = MapSpec.from_string(s_m)
        if back != m:
            out.fail("roundtrip-differs", f"{text!r} -> {s_m!r} -> {back!s}")
        if str(back) != s_m:
            out.fail("str-not-idempotent", f"{s_m!r} -> {str(back)!r}")
    except Exception as e:  # noqa: BLE001
        out.fail(exc_bucket(e, "roundtrip-reparse-raised"), f"{s_m!r}: {exc_detail(e)}")
    # accessors
    ext = ext_indices(ast)
    want = {
        "input_names": tuple(a["name"] for a in ast["inputs"]),
        "output_names": tuple(a["name"] for a in ast["outputs"]),
        "output_indices": tuple(ast["outputs"][0]["axes"]),
        "external_indices": tuple(ext),
        "input_indices": {ax for a in ast["inputs"] for ax in a["axes"] if ax is not None},
    }
    for k, v in want.items():
        try:
            got = getattr(m, k)
        except Exception as e:  # noqa: BLE001
            out.fail(exc_bucket(e, f"accessor-{k}-raised"), exc_detail(e))
            continue
        if got != v:
            out.fail(f"accessor-{k}-wrong", f"{canon!r}: {got} want {v}")
    return out


# ---- campaign: shape --------------------------------------------------------------------------
def ref_shapes(data):
    ast, sizes = data["spec"], data["sizes"]
    c = Cyc(data["colon"])
    in_shapes = {a["name"]: tuple(c() if ax is None else sizes[ax] for ax in a["axes"]) for a in ast["inputs"]}
    out_idx = ast["outputs"][0]["axes"]
    ext = ext_indices(ast)
    internal = tuple(sizes[ix] for ix in out_idx if ix not in ext)
    shape = tuple(sizes[ix] for ix in out_idx)
    mask = tuple(ix in ext for ix in out_idx)
    return in_shapes, internal, shape, mask


def body_shape(data) -> Outcome:
    out = Outcome()
    ast, picks = data["spec"], data["picks"]
    out.nontrivial = is_nontrivial(ast)
    out.labels += spec_labels(ast)
    m = get_spec(out, data)
    if m is None:
        return out
    canon = print_ast(ast)
    in_shapes, internal, shape, mask = ref_shapes(data)
    onames = [a["name"] for a in ast["outputs"]]
    if internal:
        int_shapes = {n: internal for n in onames}
    else:
        int_shapes = [None, {}, {n: () for n in onames}][picks[0] % 3]
    out.units = 1
    try:
        got = m.shape(dict(in_shapes), None if int_shapes is None else dict(int_shapes))
        if tuple(got) != (shape, mask):
            bucket = "shape-wrong" if tuple(got[0]) != shape else "shape-mask-wrong"
            out.fail(bucket, f"{canon!r} {in_shapes} {int_shapes} -> {got} want {(shape, mask)}")
        elif not all(type(b) is bool for b in got[1]):
            out.fail("shape-mask-not-bool", f"{got}")
    except Exception as e:  # noqa: BLE001
        out.fail(exc_bucket(e, "shape-valid-refused"), f"{canon!r} {in_shapes} {int_shapes}: {exc_detail(e)}")
    if len(internal) >= 2 and len(set(internal)) >= 2:
        out.labels.append("internal-2-sizes")

    # single-fault shape dictionaries: each must raise ValueError
    faults = []
    names = list(in_shapes)
    if names:
        n = names[picks[1] % len(names)]
        faults.append(("rank-short", {**in_shapes, n: in_shapes[n][:-1]}, int_shapes))
        faults.append(("rank-long", {**in_shapes, n: in_shapes[n] + (1 + picks[2] % 4,)}, int_shapes))
        faults.append(("missing-input", {k: v for k, v in in_shapes.items() if k != n}, int_shapes))
    faults.append(("extra-input", {**in_shapes, "extra_arr": (1 + picks[2] % 4,)}, int_shapes))
    shared = []
    for ix in ext_indices(ast):
        holders = [a for a in ast["inputs"] if ix in a["axes"]]
        if len(holders) >= 2:
            shared.append((ix, holders))
    if shared:
        ix, holders = shared[picks[1] % len(shared)]
        h = holders[picks[2] % len(holders)]
        pos = h["axes"].index(ix)
        s = list(in_shapes[h["name"]])
        s[pos] = s[pos] % 4 + 1 if picks[3] % 2 else s[pos] + 1 + picks[3] % 3
        faults.append(("zip-mismatch", {**in_shapes, h["name"]: tuple(s)}, int_shapes))
    if internal:
        faults.append(("missing-internal", in_shapes, [None, {}, {n: internal[:-1] for n in onames}][picks[0] % 3]))
    faults.append(("unknown-internal-name", in_shapes, {**(int_shapes or {}), "no_such_output": (2,)}))
    for label, ins, ints in faults:
        out.units += 1
        out.labels.append("fault-" + label)
        try:
            got = m.shape(dict(ins), None if ints is None else dict(ints))
        except ValueError:
            continue
        except Exception as e:  # noqa: BLE001
            out.fail(exc_bucket(e, f"shape-fault-{label}-not-ValueError"), f"{canon!r} {ins} {ints}: {exc_detail(e)}")
            continue
        out.fail(f"shape-fault-accepted-{label}", f"{canon!r} {ins} {ints} -> {got}")
    return out


# ---- campaign: keys ---------------------------------------------------------------------------
def check_keys(out, m, ast, ext_shape, colon, denote=True):
    ext = ext_indices(ast)
    canon = print_ast(ast)
    positions = list(itertools.product(*[range(d) for d in ext_shape]))
    n = len(positions)
    got_keys = []
    for k in range(n):
        try:
            got_keys.append(m.output_key(ext_shape, k))
        except Exception as e:  # noqa: BLE001
            out.fail(exc_bucket(e, "output_key-raised"), f"{canon!r} {ext_shape} k={k}: {exc_detail(e)}")
            return
    out.units += n
    if [tuple(g) for g in got_keys] != positions:
        if sorted(tuple(g) for g in got_keys) != positions:
            out.fail("output_key-not-bijection", f"{canon!r} {ext_shape}: {got_keys[:12]}")
        else:
            out.fail("output_key-not-row-major", f"{canon!r} {ext_shape}: {got_keys[:12]}")
    elif any(type(g) is not tuple for g in got_keys):
        out.fail("output_key-not-tuple", f"{type(got_keys[0])}")
    for k in range(n):
        unr = tuple(int(v) for v in np.unravel_index(k, ext_shape)) if ext_shape else ()
        if unr != positions[k]:
            raise AssertionError("reference order disagrees with numpy")  # harness self-check
    # input keys
    c = Cyc(colon)
    arrays = {}
    for a in ast["inputs"]:
        shp = tuple(c() if ax is None else ext_shape[ext.index(ax)] for ax in a["axes"])
        arrays[a["name"]] = np.arange(int(np.prod(shp, dtype=int))).reshape(shp)
    step = max(1, n // 24)
    for k in range(n):
        val = dict(zip(ext, positions[k]))
        want = {a["name"]: tuple(slice(None) if ax is None else val[ax] for ax in a["axes"]) for a in ast["inputs"]}
        try:
            got = m.input_keys(ext_shape, k)
        except Exception as e:  # noqa: BLE001
            out.fail(exc_bucket(e, "input_keys-raised"), f"{canon!r} {ext_shape} k={k}: {exc_detail(e)}")
            return
        out.units += 1
        if got != want or set(got) != set(want):
            out.fail("input_keys-wrong", f"{canon!r} {ext_shape} k={k}: {got} want {want}")
            return
        if denote and k % step == 0:
            for a in ast["inputs"]:
                arr = arrays[a["name"]]
                try:
                    sel = np.asarray(arr[got[a["name"]]]).ravel().tolist()
                except Exception as e:  # noqa: BLE001
                    out.fail("input_keys-not-applicable-to-array", f"{canon!r} {got}: {exc_detail(e)}")
                    return
                exp = [
                    int(arr[idx])
                    for idx in np.ndindex(*arr.shape)
                    if all(ax is None or idx[p] == val[ax] for p, ax in enumerate(a["axes"]))
                ]
                if sel != exp:
                    out.fail("input_keys-selects-wrong-entries", f"{canon!r} {ext_shape} k={k} {a['name']}: {sel} want {exp}")
                    return


def body_keys(data) -> Outcome:
    out = Outcome()
    ast = data["spec"]
    out.nontrivial = is_nontrivial(ast)
    out.labels += spec_labels(ast)
    m = get_spec(out, data)
    if m is None:
        return out
    ext = ext_indices(ast)
    ext_shape = tuple(data["sizes"][ix] for ix in ext)
    out.labels.append(f"ext{len(ext)}")
    n = int(np.prod(ext_shape, dtype=int))
    out.labels.append("N=1" if n == 1 else "N<=16" if n <= 16 else "N>16")
    out.units = 0
    check_keys(out, m, ast, ext_shape, data["colon"])
    canon = print_ast(ast)
    for label, bad in (("long", ext_shape + (2,)), ("short", ext_shape[:-1])):
        if len(bad) == len(ext_shape):
            continue
        for meth in ("output_key", "input_keys"):
            out.units += 1
            try:
                got = getattr(m, meth)(bad, 0)
            except ValueError:
                continue
            except Exception as e:  # noqa: BLE001
                out.fail(exc_bucket(e, f"{meth}-bad-shape-length-not-ValueError"), f"{canon!r} {bad}: {exc_detail(e)}")
                continue
            out.fail(f"{meth}-accepts-shape-of-wrong-length", f"{canon!r} {bad} ({label}) -> {got}")
    return out


def enum_key_shapes():
    for r in range(5):
        yield from ({"shape": list(s)} for s in itertools.product(range(1, 5), repeat=r))


def body_keys_exhaustive(data) -> Outcome:
    out = Outcome()
    shape = tuple(data["shape"])
    idx = IDX_NAMES[: len(shape)]
    out_idx = idx or ["i"]
    ast = {
        "inputs": [{"name": "a", "axes": list(idx)}, {"name": "b", "axes": list(reversed(idx)) + [None]}] if idx else [],
        "outputs": [{"name": "q", "axes": list(out_idx)}],
    }
    out.nontrivial = len(shape) >= 2 and len(set(shape)) >= 2
    out.labels.append(f"rank{len(shape)}")
    out.units = 0
    try:
        m = build(ast)
    except Exception as e:  # noqa: BLE001
        out.fail(exc_bucket(e, "valid-refused"), exc_detail(e))
        return out
    check_keys(out, m, ast, shape, [2], denote=False)
    try:
        strides = shape_to_strides(shape)
        want = tuple(int(np.prod(shape[i + 1 :], dtype=int)) for i in range(len(shape)))
        if tuple(strides) != want:
            out.fail("shape_to_strides-wrong", f"{shape} -> {strides} want {want}")
    except Exception as e:  # noqa: BLE001
        out.fail(exc_bucket(e, "shape_to_strides-raised"), exc_detail(e))
    return out


# ---- campaign: rename / add_axes --------------------------------------------------------------
@st.composite
def rewrite_case(draw):
    base = draw(spec_case())
    ast = base["spec"]
    names = [a["name"] for a in ast["inputs"] + ast["outputs"]]
    d = digits(draw(BIG), 5, 12)
    kind = ["subset", "swap", "subset", "nomatch", "empty"][d[0]]
    order = pick_distinct(draw(st.integers(0, 120 * 6 - 1)), names, len(names))
    targets = pick_distinct(draw(BIG), FRESH_NAMES, len(FRESH_NAMES))
    renames = {}
    if kind == "subset":
        n = 1 + (d[1] + 5 * d[2]) % len(names)
        renames = dict(zip(order[:n], targets))
    elif kind == "swap" and len(names) >= 2:
        renames = {order[0]: order[1], order[1]: order[0]}
    if kind != "empty":
        stray = ["nope", "s", "a_", "foo.", "i"] + IDX_NAMES
        for t in range(d[3] % 3):
            k = stray[(d[4 + t] + 5 * d[6 + t]) % len(stray)]
            if k not in names:
                renames[k] = (FRESH_NAMES + ["a", "b"])[(d[8 + t] + 5 * d[10 + t]) % (len(FRESH_NAMES) + 2)]
    base["renames"] = renames
    ax = pick_distinct(draw(st.integers(0, 11 * 10 - 1)), FRESH_IDX + IDX_NAMES, 2)
    base["new_axes"] = ax[: 1 + d[9] % 2] if d[9] < 4 else ax
    return base


def rename_ast(ast, ren):
    return {
        side: [{"name": ren.get(a["name"], a["name"]), "axes": list(a["axes"])} for a in ast[side]]
        for side in ("inputs", "outputs")
    }


def body_rewrite(data) -> Outcome:
    out = Outcome()
    ast, ren = data["spec"], data["renames"]
    out.nontrivial = is_nontrivial(ast)
    out.labels += spec_labels(ast)
    m = get_spec(out, data)
    if m is None:
        return out
    canon = print_ast(ast)
    names = [a["name"] for a in ast["inputs"] + ast["outputs"]]
    matched = [n for n in names if n in ren]
    out.labels.append("rename-" + ("none-match" if not matched else "all" if len(matched) == len(names) else "some"))
    if matched and any(n in ast_names for n in ren.values() for ast_names in [names]):
        out.labels.append("rename-swap")
    if any(n in ren for n in (a["name"] for a in ast["outputs"])):
        out.labels.append("rename-hits-output")
    out.units = 0
    want_ast = rename_ast(ast, ren)
    try:
        r = m.rename(dict(ren))
        out.units += 3
        if ast_of(r) != want_ast:
            out.fail("rename-wrong", f"{canon!r} rename({ren}) -> {r!s} want {print_ast(want_ast)!r}")
        elif r != build(want_ast) or str(r) != print_ast(want_ast):
            out.fail("rename-result-not-equal-to-rebuilt", f"{canon!r} rename({ren}) -> {r!s}")
        if not matched and r != m:
            out.fail("rename-nomatch-not-identity", f"{canon!r} rename({ren}) -> {r!s}")
        if ast_of(m) != ast:
            out.fail("rename-mutated-receiver", f"{canon!r} -> {m!s}")
        if matched and len(set(ren.values())) == len(ren):
            inv = {v: k for k, v in ren.items() if k in names}
            back = r.rename(inv)
            if ast_of(back) != ast:
                out.fail("rename-inverse-not-identity", f"{canon!r} rename({ren}) rename({inv}) -> {back!s}")
        if MapSpec.from_string(str(r)) != r:
            out.fail("rename-result-roundtrip-differs", f"{r!s}")
    except Exception as e:  # noqa: BLE001
        out.fail(exc_bucket(e, "rename-raised"), f"{canon!r} rename({ren}): {exc_detail(e)}")

    # add_axes
    used = set(ast["outputs"][0]["axes"])
    new_axes = data["new_axes"]
    fresh = [ax for ax in new_axes if ax not in used]
    out.labels.append("add-dup" if len(fresh) < len(new_axes) else f"add-{len(new_axes)}-new")
    try:  # use the receiver first (its derived attributes may be memoised) -- the result must not inherit them
        _ = (m.external_indices, m.input_indices, m.output_indices)
        if m.external_indices:
            m.input_keys(tuple(2 for _ in m.external_indices), 0)
    except Exception:  # noqa: BLE001
        pass
    try:
        r = m.add_axes(*new_axes)
    except ValueError as e:
        if len(fresh) == len(new_axes):
            out.fail(exc_bucket(e, "add_axes-valid-refused"), f"{canon!r} add_axes{tuple(new_axes)}: {exc_detail(e)}")
    except Exception as e:  # noqa: BLE001
        out.fail(exc_bucket(e, "add_axes-raised"), f"{canon!r} add_axes{tuple(new_axes)}: {exc_detail(e)}")
    else:
        out.units += 2
        if len(fresh) < len(new_axes):
            out.fail("add_axes-accepts-duplicate-axis", f"{canon!r} add_axes{tuple(new_axes)} -> {r!s}")
        else:
            want_ast = {
                side: [{"name": a["name"], "axes": list(a["axes"]) + list(new_axes)} for a in ast[side]]
                for side in ("inputs", "outputs")
            }
            if ast_of(r) != want_ast:
                out.fail("add_axes-wrong", f"{canon!r} add_axes{tuple(new_axes)} -> {r!s} want {print_ast(want_ast)!r}")
            else:
                try:
                    if r != build(want_ast) or MapSpec.from_string(str(r)) != r:
                        out.fail("add_axes-result-not-equal-to-rebuilt", f"{r!s}")
                    else:
                        twin = build(want_ast)
                        for attr in ("external_indices", "input_indices", "output_indices", "input_names", "output_names"):
                            if getattr(r, attr) != getattr(twin, attr):
                                out.fail(f"add_axes-result-{attr}-differs-from-rebuilt", f"{r!s}: {getattr(r, attr)} vs {getattr(twin, attr)}")
                        shp = tuple(2 for _ in twin.external_indices)
                        if shp and r.input_keys(shp, 1) != twin.input_keys(shp, 1):
                            out.fail("add_axes-result-input_keys-differ-from-rebuilt", f"{r!s}")
                        if shp and r.output_key(shp, 1) != twin.output_key(shp, 1):
                            out.fail("add_axes-result-output_key-differs-from-rebuilt", f"{r!s}")
                except Exception as e:  # noqa: BLE001
                    out.fail(exc_bucket(e, "add_axes-result-not-wellformed"), f"{r!s}: {exc_detail(e)}")
            if ast_of(m) != ast:
                out.fail("add_axes-mutated-receiver", f"{canon!r} -> {m!s}")
    try:  # an added ':' would put ':' into the outputs
        r = m.add_axes(None)
        out.fail("add_axes-None-puts-colon-in-output", f"{canon!r} -> {r!s}")
    except Exception:  # noqa: BLE001
        out.units += 1
    return out


# ---- campaign: lists of specs -----------------------------------------------------------------
def resolved_axes(specs) -> dict:
    occ = defaultdict(list)
    for s in specs:
        for a in s["inputs"] + s["outputs"]:
            occ[a["name"]].append(a["axes"])
    res = {}
    for name, lst in occ.items():
        rank = max(len(a) for a in lst)
        axes = []
        for p in range(rank):
            named = [a[p] for a in lst if p < len(a) and a[p] is not None]
            axes.append(named[0] if named else None)
        res[name] = axes
    return res


def ref_consistency(specs):
    """-> (set of inconsistency kinds, {name: rank or None if ranks differ}, {name: axes tuple or None if unresolved})"""
    occ = defaultdict(list)
    for s in specs:
        for a in s["inputs"] + s["outputs"]:
            occ[a["name"]].append(a["axes"])
    kinds = set()
    dims, axes = {}, {}
    for name, lst in occ.items():
        ranks = {len(a) for a in lst}
        if len(ranks) > 1:
            kinds.add("rank")
            dims[name] = None
            axes[name] = None
            continue
        rank = ranks.pop()
        dims[name] = rank
        merged = []
        for p in range(rank):
            named = {a[p] for a in lst if a[p] is not None}
            if len(named) > 1:
                kinds.add("name")
            merged.append(sorted(named)[0] if len(named) == 1 else None)
        axes[name] = tuple(merged) if all(x is not None for x in merged) else None
    return kinds, dims, axes


class Dig:
    """Mixed-radix digit stream over one drawn integer (keeps the number of Hypothesis draws small)."""

    def __init__(self, code: int):
        self.code = code

    def n(self, base: int) -> int:
        self.code, d = divmod(self.code, base)
        return d

    def pick(self, items):
        return items[self.n(len(items))]


@st.composite
def list_case(draw):
    supply = pick_distinct(draw(code(96)), ARR_NAMES, 15)
    k = draw(st.sampled_from([2, 1, 2, 3, 3]))
    first = draw(spec_ast(names=supply[:5], none_one_in=8))
    del supply[:5]
    specs = [first]
    injected = None
    for _ in range(k - 1):
        g = Dig(draw(code(120)))
        known = resolved_axes(specs)
        carried = pick_distinct(g.n(10**4), sorted(known), min(1 + g.n(2), len(known)))
        inputs = []
        for nm in carried:
            axes = [ax if (ax is None or g.n(4)) else None for ax in known[nm]]
            inputs.append({"name": nm, "axes": axes})
        if g.n(4) == 3:
            tgt = g.pick(inputs)
            kind = g.pick(["rename-axis", "rename-axis", "rank+1", "rank-1"])
            namedpos = [p for p, ax in enumerate(tgt["axes"]) if ax is not None]
            if kind == "rename-axis" and not namedpos:
                kind = "rank+1"
            if kind == "rank-1" and len(tgt["axes"]) < 2:
                kind = "rank+1"
            free = [ix for ix in IDX_NAMES + FRESH_IDX if ix not in tgt["axes"]]
            if kind == "rename-axis":
                tgt["axes"][g.pick(namedpos)] = g.pick(free)
            elif kind == "rank+1":
                tgt["axes"].append(g.pick([None] + free))
            else:
                tgt["axes"].pop(g.n(len(tgt["axes"])))
            injected = kind
        named = list(dict.fromkeys(ax for a in inputs for ax in a["axes"] if ax is not None))
        extra = [ix for ix in IDX_NAMES if ix not in named]
        n_extra = g.n(2) if named else 1
        out_idx = pick_distinct(g.n(10**4), named + extra[:n_extra], len(named) + n_extra)
        for _f in range(g.n(2)):
            rank = 1 + g.n(2)
            pool = iter(pick_distinct(g.n(10**4), out_idx, len(out_idx)))
            axes = [None if g.n(8) == 7 else next(pool, None) for _ in range(rank)]
            inputs.append({"name": supply.pop(0), "axes": axes})
        if g.n(2):
            inputs.reverse()
        outputs = [{"name": supply.pop(0), "axes": list(out_idx)} for _ in range(g.pick([1, 1, 2]))]
        specs.append({"inputs": inputs, "outputs": outputs})
    order = pick_distinct(draw(st.integers(0, 5)), list(range(len(specs))), len(specs))
    return {"specs": [specs[i] for i in order], "injected": injected}


def body_lists(data) -> Outcome:
    out = Outcome()
    specs = data["specs"]
    kinds, dims, axes = ref_consistency(specs)
    occ = defaultdict(int)
    for s in specs:
        for a in s["inputs"] + s["outputs"]:
            occ[a["name"]] += 1
    shared = [n for n, c in occ.items() if c >= 2]
    out.nontrivial = len(specs) >= 2 and bool(shared)
    out.labels += [f"specs{len(specs)}", "consistent" if not kinds else "inconsistent-" + "+".join(sorted(kinds))]
    if shared:
        out.labels.append("shared-array")
    text = [print_ast(s) for s in specs]
    try:
        ms = [build(s) for s in specs]
    except Exception as e:  # noqa: BLE001
        out.fail(exc_bucket(e, "valid-refused"), f"{text}: {exc_detail(e)}")
        return out
    out.units = 3
    try:
        validate_consistent_axes(list(ms))
        if kinds:
            out.fail("validate_consistent_axes-accepts-inconsistent-" + "+".join(sorted(kinds)), f"{text}")
    except ValueError as e:
        if not kinds:
            out.fail(exc_bucket(e, "validate_consistent_axes-refuses-consistent"), f"{text}: {exc_detail(e)}")
    except Exception as e:  # noqa: BLE001
        out.fail(exc_bucket(e, "validate_consistent_axes-raised"), f"{text}: {exc_detail(e)}")
    try:
        got = mapspec_dimensions(list(ms))
        if set(got) != set(dims):
            out.fail("mapspec_dimensions-wrong-names", f"{text}: {got}")
        else:
            bad = {n: got[n] for n, r in dims.items() if r is not None and got[n] != r}
            if bad:
                out.fail("mapspec_dimensions-wrong", f"{text}: {bad} want {dims}")
    except Exception as e:  # noqa: BLE001
        out.fail(exc_bucket(e, "mapspec_dimensions-raised"), f"{text}: {exc_detail(e)}")
    if kinds:
        return out
    if any(v is None for v in axes.values()):
        out.labels.append("axes-unresolved")
        return out
    out.labels.append("axes-compared")
    if any(any(ax is None for ax in a["axes"]) for s in specs for a in s["inputs"]):
        out.labels.append("axes-resolved-through-other-occurrence")
    try:
        got = mapspec_axes(list(ms))
        if got != axes:
            out.fail("mapspec_axes-wrong", f"{text}: {got} want {axes}")
    except Exception as e:  # noqa: BLE001
        out.fail(exc_bucket(e, "mapspec_axes-raised"), f"{text}: {exc_detail(e)}")
    return out


# ---- campaign: malformed specs ----------------------------------------------------------------
TOKENIZABLE_BAD_NAMES = ["1a", "9", "2_x", "a.1b", "s.9", "1s.a", "0.b", "7.7"]
ARBITRARY_BAD_NAMES = ["a-b", "a b", "", "a.", ".a", "a.b-c", "a!", "a[", "a,b", " a", "a ", "a..b", "-", "a.b c"]
BAD_INDEX_NAMES = ["1", "2i", "i-j", "i j", "i+1", "i.j", "*", "i:", "::", "i[0"]
BAD_INDEX_NAMES_CTOR_ONLY = ["", " ", "i]", "i,j", " i"]
MAL_OPS = [
    "input-index-fresh", "outputs-lose-used-index", "colon-replace-in-output-0", "colon-insert-in-output-0",
    "colon-replace-in-output-1", "colon-insert-in-output-1", "outputs-permuted", "outputs-one-index-renamed",
    "outputs-one-index-dropped", "outputs-one-index-added", "bad-array-name-tokenizable", "bad-array-name-arbitrary",
    "bad-index-name", "bad-index-name-ctor",
]  # fmt: skip


@st.composite
def malformed_case(draw):
    op = draw(st.sampled_from(MAL_OPS))
    kw = {}
    if op in ("input-index-fresh", "outputs-lose-used-index"):
        kw["min_inputs"] = 1
    if op.endswith("output-1") or op.startswith("outputs-one") or op == "outputs-permuted":
        kw["n_out"] = 2
    if op in ("outputs-permuted", "outputs-one-index-dropped", "outputs-lose-used-index"):
        kw["min_orank"] = 2
    ast = draw(spec_ast(**kw))
    outs = ast["outputs"]
    out_idx = list(outs[0]["axes"])
    fresh = draw(st.sampled_from(FRESH_IDX))
    if op in ("input-index-fresh", "outputs-lose-used-index"):
        cands = [(a, p) for a in ast["inputs"] for p, ax in enumerate(a["axes"]) if ax is not None]
        if not cands:
            ast["inputs"][0]["axes"][0] = out_idx[0]
            cands = [(ast["inputs"][0], 0)]
        a, p = cands[draw(st.integers(0, len(cands) - 1))]
        if op == "input-index-fresh":
            a["axes"][p] = fresh
        else:
            gone = a["axes"][p]
            for o in outs:
                o["axes"].remove(gone)
    elif op.startswith("colon-"):
        o = outs[int(op[-1])]
        if "replace" in op:
            o["axes"][draw(st.integers(0, len(o["axes"]) - 1))] = None
        else:
            o["axes"].insert(draw(st.integers(0, len(o["axes"]))), None)
    elif op.startswith("outputs-"):
        o = outs[draw(st.integers(0, 1))]
        if op == "outputs-permuted":
            nperm = [1, 1, 2, 6, 24][len(out_idx)]
            perm = pick_distinct(draw(st.integers(1, nperm - 1)), out_idx, len(out_idx))  # code 0 is the identity
            o["axes"][:] = perm
        elif op == "outputs-one-index-renamed":
            o["axes"][draw(st.integers(0, len(out_idx) - 1))] = fresh
        elif op == "outputs-one-index-dropped":
            o["axes"].pop(draw(st.integers(0, len(out_idx) - 1)))
        else:
            o["axes"].insert(draw(st.integers(0, len(out_idx))), fresh)
    elif op.startswith("bad-array-name"):
        arrays = ast["inputs"] + ast["outputs"]
        pool = TOKENIZABLE_BAD_NAMES if op.endswith("tokenizable") else ARBITRARY_BAD_NAMES
        arrays[draw(st.integers(0, len(arrays) - 1))]["name"] = draw(st.sampled_from(pool))
    else:
        pool = BAD_INDEX_NAMES if op == "bad-index-name" else BAD_INDEX_NAMES_CTOR_ONLY
        bad = draw(st.sampled_from(pool))
        where = draw(st.sampled_from(["input", "one-output", "all-outputs"]))
        ins = [(a, p) for a in ast["inputs"] for p in range(len(a["axes"]))]
        if where == "input" and ins:
            a, p = ins[draw(st.integers(0, len(ins) - 1))]
            a["axes"][p] = bad
        else:
            p = draw(st.integers(0, len(out_idx) - 1))
            targets = outs if where == "all-outputs" else [outs[draw(st.integers(0, len(outs) - 1))]]
            for o in targets:
                o["axes"][p] = bad
    return {"op": op, "spec": ast, "ws": draw(ws_strategy)}


CONFIRMED = {"colon-insert-in-output-1": "colon-in-later-output-accepted"}


def body_malformed(data) -> Outcome:
    out = Outcome()
    op, ast, ws = data["op"], data["spec"], data["ws"]
    out.nontrivial = True
    out.labels.append(op)
    paths = ["ctor"]
    if op not in ("bad-array-name-arbitrary", "bad-index-name-ctor"):
        paths.append("from_string")
    text = print_ast(ast, ws)
    out.units = len(paths)
    for path in paths:
        try:
            m = build(ast) if path == "ctor" else MapSpec.from_string(text)
        except ValueError:
            continue
        except Exception as e:  # noqa: BLE001  still a rejection at construction; recorded for the histogram
            out.labels.append(f"rejected-with-{type(e).__name__}")
            continue
        bucket = CONFIRMED.get(op) or f"malformed-accepted:{op}"
        out.fail(bucket, f"via {path}: {text!r} -> {m!s}")
    return out


# ---- campaign: strings ------------------------------------------------------------------------
TOKENS = ["a", "b", "c", "i", "j", "1", ".", ",", "[", "]", ":", "->", "...", " ", "-", ">", "x.y", "[i]", "[i,j]",
          "a[i]", "b[i, :]", "_", "[:]", ", "]  # fmt: skip


@st.composite
def string_case(draw):
    kind = draw(st.sampled_from(["soup", "edit", "edit", "two-sides"]))
    if kind == "soup":
        s = "".join(draw(st.lists(st.sampled_from(TOKENS), min_size=1, max_size=14)))
    elif kind == "two-sides":
        left = "".join(draw(st.lists(st.sampled_from(TOKENS), min_size=1, max_size=7)))
        right = "".join(draw(st.lists(st.sampled_from(TOKENS), min_size=1, max_size=7)))
        s = left + "->" + right
    else:
        s = print_ast(draw(spec_ast()), draw(ws_strategy))
        for _ in range(draw(st.integers(1, 2))):
            p = draw(st.integers(0, max(0, len(s) - 1)))
            act = draw(st.sampled_from(["del", "ins", "rep", "dup"]))
            ch = draw(st.sampled_from(list("ab1ij.,[]:-> _")))
            if act == "del":
                s = s[:p] + s[p + 1 :]
            elif act == "ins":
                s = s[:p] + ch + s[p:]
            elif act == "rep":
                s = s[:p] + ch + s[p + 1 :]
            else:
                q = draw(st.integers(p, min(len(s), p + 6)))
                s = s[:q] + s[p:q] + s[q:]
    return {"s": s}


def body_strings(data) -> Outcome:
    out = Outcome()
    s = data["s"]
    accepted, exc, fails = check_string(MapSpec, s)
    out.labels.append("accepted" if accepted else f"rejected-{exc}")
    if accepted:
        try:
            m = MapSpec.from_string(s)
            out.nontrivial = len(m.inputs) + len(m.outputs) >= 2
            if str(m) != s:
                out.labels.append("accepted-non-canonical")
        except Exception:  # noqa: BLE001
            pass
    out.units = 6 if accepted else 1
    for bucket, detail in fails:
        out.fail(bucket, detail)
    return out


# ---- campaign: atheris fuzzing (thorough tier only) --------------------------------------------
FUZZ_SCRIPT = os.path.join(boot.VERIF, "fuzz", "mapspec_fuzz.py")
FUZZ_RUNS = 200_000


def enum_fuzz_runs():
    try:
        base = int(os.environ.get("VERIF_SEED", "1") or "1")
    except ValueError:
        base = 1
    for i in range(16):
        yield {"seed": base * 1000 + i + 1, "corpus": "empty" if i % 2 == 0 else "seeded", "runs": FUZZ_RUNS}


def body_fuzz(data) -> Outcome:
    out = Outcome()
    out.labels.append("corpus-" + data["corpus"])
    if importlib.util.find_spec("atheris") is None:
        out.labels.append("atheris-missing")
        return out
    work = boot.fresh_dir("fuzz")
    corpus = os.path.join(work, "corpus")
    os.makedirs(corpus)
    if data["corpus"] == "seeded":
        for i, s in enumerate(FUZZ_SEEDS):
            with open(os.path.join(corpus, f"seed{i}"), "w") as f:
                f.write(s)
    dict_path = os.path.join(work, "dict")
    with open(dict_path, "w") as f:
        f.write("\n".join(FUZZ_DICT) + "\n")
    report = os.path.join(work, "report.json")
    env = dict(os.environ, VERIF_REPO=boot.REPO, MAPSPEC_FUZZ_REPORT=report, PYTHONHASHSEED="0")
    cmd = [sys.executable, FUZZ_SCRIPT, f"-runs={int(data['runs'])}", f"-seed={int(data['seed'])}", "-max_len=64",
           f"-dict={dict_path}", "-print_final_stats=1", f"-artifact_prefix={work}/", corpus]  # fmt: skip
    # libFuzzer's value-profile features depend on load addresses: without ASLR a (seed, runs) pair replays exactly
    noaslr = ["setarch", os.uname().machine, "-R"]
    try:
        if subprocess.run([*noaslr, "true"], stdout=subprocess.DEVNULL, stderr=subprocess.DEVNULL).returncode == 0:
            cmd = noaslr + cmd
        else:
            out.labels.append("aslr-on")
    except OSError:
        out.labels.append("aslr-on")
    try:
        p = subprocess.run(cmd, env=env, cwd=work, stdout=subprocess.PIPE, stderr=subprocess.STDOUT, text=True, timeout=900)
        rc, log = p.returncode, p.stdout
    except subprocess.TimeoutExpired as e:
        rc, log = -9, (e.stdout or "") if isinstance(e.stdout, str) else ""
        out.fail("fuzz-timeout", f"{cmd}")
    rep = {}
    if os.path.exists(report):
        try:
            with open(report) as f:
                rep = json.load(f)
        except ValueError:
            rep = {}
    boot.rm(work)
    if rc == 4 or "atheris_missing" in rep:
        out.labels.append("atheris-missing")
        return out
    execs = int(rep.get("execs", 0))
    out.units = max(1, execs)
    out.nontrivial = int(rep.get("accepted", 0)) >= 1000
    if execs and rep.get("elapsed_s"):  # label only (libFuzzer's own final stats are lost when the target exits 3)
        eps = execs / max(float(rep["elapsed_s"]), 1e-3)
        out.labels.append("exec/s " + ("<10k" if eps < 10000 else "10k-25k" if eps < 25000 else "25k-50k" if eps < 50000 else ">=50k"))
    for exc in rep.get("rejected", {}):
        out.labels.append(f"saw-rejection-{exc}")
    if execs and rep.get("accepted", 0) * 20 >= execs:
        out.labels.append("accepted>=5%")
    for bucket, info in sorted(rep.get("failures", {}).items()):
        out.fail("fuzz-" + bucket, f"input {info.get('input')!r}: {info.get('detail')}")
    if rc not in (0, 3) and not out.failures:
        out.fail("fuzz-target-crashed", f"rc={rc} seed={data['seed']} log tail: {log[-400:]}")
    elif rc == 0 and execs != int(data["runs"]):
        out.fail("fuzz-run-incomplete", f"execs={execs} of {data['runs']} log tail: {log[-300:]}")
    return out


# ------------------------------------------------------------------------------------------------
def campaigns(tier):
    camps = [
        Campaign("parse", body_parse, spec_case(), quick=4000, thorough=60000,
                 describe="print with drawn whitespace -> from_string vs constructors; str/round trip; accessors"),
        Campaign("shape", body_shape, spec_case(), quick=2500, thorough=30000,
                 describe="shape()/mask reference; single-fault shape dictionaries must raise ValueError"),
        Campaign("keys", body_keys, spec_case(), quick=2000, thorough=20000,
                 describe="output_key / input_keys over every linear index; denotation on NumPy arrays"),
        Campaign("keys-exhaustive", body_keys_exhaustive, enumerate=enum_key_shapes, quick=0, thorough=0, exhaustive=True,
                 describe="output_key/input_keys/shape_to_strides for every shape of rank 0-4 with sizes 1-4"),
        Campaign("rewrite", body_rewrite, rewrite_case(), quick=2500, thorough=30000,
                 describe="rename (subset, swap, no match, empty) and add_axes (new, duplicate, None)"),
        Campaign("lists", body_lists, list_case(), quick=2500, thorough=30000,
                 describe="validate_consistent_axes / mapspec_axes / mapspec_dimensions on chains of 1-3 specs"),
        Campaign("malformed", body_malformed, malformed_case(), quick=4000, thorough=50000,
                 describe="single-mutation malformed specs through constructors and from_string"),
        Campaign("strings", body_strings, string_case(), quick=4000, thorough=80000,
                 describe="token soup and edited valid strings: laws on every accepted string"),
    ]  # fmt: skip
    if tier == "thorough":
        camps.append(
            Campaign("fuzz", body_fuzz, enumerate=enum_fuzz_runs, quick=0, thorough=16, shards_thorough=16,
                     describe=f"atheris coverage-guided runs of fuzz/mapspec_fuzz.py, {FUZZ_RUNS} executions each, "
                              "alternating empty / 5-string seed corpus")  # fmt: skip
        )
    return camps


PREDICATES = {}

"""C17 -- sweeps enumerate exactly the documented combinations (DESIGN.md section 4, C17).

Recipe of one sweep (JSON):
    {"items": [[key, [value, ...]], ...]      ordered; values are strings "<key><i>", duplicates allowed
     "dims":  None | [group, ...]             group = "key" | ["key"] (1-tuple) | ["k1", "k2", ...] (zipped tuple)
     "constants": None | {key: value}
     "derivers":  None | [[name, [read-key, ...]], ...]   value = "name<v1,v2>" built from the read keys, applied in order
     "exclude":   None | {"key": k, "value": v}            combination excluded iff combination[k] == v
     "via_add":   bool                          derivers attached with Sweep.add_derivers instead of the constructor}
"""

from __future__ import annotations

import json

import copy
import itertools
from collections import Counter

from hypothesis import strategies as st

from vlib import boot  # noqa: F401
from vlib.core import Campaign, Outcome, exc_bucket, exc_detail
from vlib.dag import DagModel, build_pipeline, dag_programs

from pipefunc.sweep import MultiSweep, Sweep, count_sweep, generate_sweep

PID = "C17"
LEVEL = "exploration"
RULE = (
    "Hypothesis-generated Sweep recipes (0-4 keys in a drawn item order, value lists of length 0-3 with repeated "
    "values, dims = None | contiguous partition in item order | arbitrary partition with permuted groups, "
    "singletons as 'k' or ('k',), zipped lists of equal length, optional constants (new keys and keys overlapping "
    "items), derivers (tag string of selected keys; new names and names overwriting items/constants), exclude "
    "(key == value)); products of 2-3 such sweeps over disjoint key namespaces (variadic and chained), sums of "
    "2-3 arbitrary sweeps (+, MultiSweep, combine, nested, MultiSweep + MultiSweep), filtered_sweep on sweeps without constants/exclude, "
    "count_sweep on 2-4 function DAG programs, plus an exhaustive enumeration of every dims partition/ordering of "
    "<= 4 keys with list lengths 0-2. Oracle = reference written as comprehensions from the docstrings (Cartesian "
    "product of zipped groups, constants setdefault, derivers in order, exclude last); compared as multisets and, "
    "when dims is None or lists its groups in item order, as sequences; len(s) == len(s.list()). Non-trivial = "
    ">= 2 keys with a zipped group, or a product/sum, or exclude/derivers present (count: >= 2 dependencies); "
    "distinct by sha1 of the recipe."
)
ASSUMPTIONS = [
    "a Sweep whose items dict is empty denotes no combinations (source comment in Sweep.generate); only its len() is judged",
    "constants never override an item of the same name (item value wins), as in the upstream test-suite",
    "dims always partitions the item keys; zipped lists have equal length; exclude/derivers only read keys that exist",
    "'dims lists its groups in item order' means: the concatenation of the dims groups equals the item key order",
    "product operands use disjoint names for items, constants and derivers; product order is judged only when every operand's own order is defined",
    "filtered_sweep keys are a non-empty subset of the combination keys; results are compared as sets plus a no-duplicates check",
    "count_sweep tuples are compared independent of the argument order chosen by Pipeline.root_args",
    "values are short strings (hashable, sortable)",
    "Sweep({}) is not used as a product operand (undetermined: empty set vs. identity)",
    "count_sweep is exercised with use_pandas=False only; the pandas fast path's key format is not covered by the property",
]


# ------------------------------------------------------------------------------------------------
# reference semantics


def _cartesian(parts: list) -> list:
    """Row-major Cartesian product of lists of dicts; the first part varies slowest."""
    acc = [{}]
    for part in parts:
        acc = [{**left, **right} for left in acc for right in part]
    return acc


def rec_keys(rec: dict) -> list:
    return [k for k, _ in rec["items"]]


def rec_groups(rec: dict) -> list:
    if rec["dims"] is None:
        return [[k] for k in rec_keys(rec)]
    return [[g] if isinstance(g, str) else list(g) for g in rec["dims"]]


def order_defined(rec: dict) -> bool:
    return [k for g in rec_groups(rec) for k in g] == rec_keys(rec)


def deriver_value(name: str, vals: list) -> str:
    return f"{name}<" + ",".join(str(v) for v in vals) + ">"


def finish(combo: dict, rec: dict):
    """constants added, derivers applied in order, exclusion decided. Returns None if excluded."""
    c = dict(combo)
    for k, v in (rec["constants"] or {}).items():
        if k not in c:
            c[k] = v
    for name, reads in rec["derivers"] or []:
        c[name] = deriver_value(name, [c[r] for r in reads])
    ex = rec["exclude"]
    if ex is not None and c[ex["key"]] == ex["value"]:
        return None
    return c


def ref_combos(rec: dict, empty_identity: bool = False) -> list:
    items = {k: v for k, v in rec["items"]}
    if not items and not empty_identity:
        return []
    parts = []
    for g in rec_groups(rec):
        n = len(items[g[0]])
        parts.append([{k: items[k][i] for k in g} for i in range(n)])
    return [c for c in (finish(raw, rec) for raw in _cartesian(parts)) if c is not None]


def final_keys(rec: dict) -> list:
    ks = rec_keys(rec)
    for k in rec["constants"] or {}:
        if k not in ks:
            ks.append(k)
    for name, _ in rec["derivers"] or []:
        if name not in ks:
            ks.append(name)
    return ks


def canon(c) -> tuple:
    return tuple(sorted(c.items()))


def multiset(combos) -> Counter:
    return Counter(canon(c) for c in combos)


def show(combos, n=6) -> str:
    combos = list(combos)
    return f"{len(combos)}:{combos[:n]}"


# ------------------------------------------------------------------------------------------------
# building the real objects


def make_deriver(name: str, reads: list):
    def deriver(combo):
        return deriver_value(name, [combo[r] for r in reads])

    return deriver


def make_exclude(ex):
    if ex is None:
        return None
    key, value = ex["key"], ex["value"]

    def exclude(combo):
        return combo[key] == value

    return exclude


def build_args(rec: dict) -> dict:
    return {
        "items": {k: list(v) for k, v in rec["items"]},
        "dims": None if rec["dims"] is None else [g if isinstance(g, str) else tuple(g) for g in rec["dims"]],
        "exclude": make_exclude(rec["exclude"]),
        "constants": None if rec["constants"] is None else dict(rec["constants"]),
        "derivers": None if rec["derivers"] is None else {n: make_deriver(n, r) for n, r in rec["derivers"]},
    }


def build_sweep(rec: dict) -> Sweep:
    a = build_args(rec)
    if rec.get("via_add") and a["derivers"]:
        d = a.pop("derivers")
        return Sweep(**a).add_derivers(**d)
    return Sweep(**a)


def snapshot(s: Sweep):
    return copy.deepcopy((s.items, s.dims, s.constants))


# ------------------------------------------------------------------------------------------------
# strategies


def _chance(draw, k: int, n: int) -> bool:
    """True with probability ~k/n; the common case (False) is the one Hypothesis treats as simplest."""
    return draw(st.sampled_from([False] * (n - k) + [True] * k))


def _lengths(p_empty_percent: int):
    # list lengths 0..3; the empty list is rare and is *not* the simplest choice
    rest = 100 - p_empty_percent
    return st.sampled_from([2] * (rest * 2 // 5) + [3] * (rest * 2 // 5) + [1] * (rest // 5) + [0] * p_empty_percent)


@st.composite
def sweep_recipe(draw, pool, tag="", min_keys=0, max_keys=4, exact=False, extras=True, allow_const=True,
                 allow_excl=True, p_empty=7):  # fmt: skip
    pool = list(draw(st.permutations(list(pool))))
    hi = min(max_keys, len(pool))
    if exact:
        n = len(pool)
    else:
        choices = [k for k in range(max(1, min_keys), hi + 1)] * 8 + ([0] if min_keys == 0 else [])
        n = draw(st.sampled_from(choices))
    keys = pool[:n]
    _LEN = _lengths(p_empty)
    mode = draw(st.sampled_from(["none", "none", "ordered", "ordered", "ordered", "free", "free", "free"])) if n else "none"
    if mode == "ordered" or mode == "none":
        groups = []
        for k in keys:
            if groups and mode == "ordered" and _chance(draw, 2, 5):
                groups[-1].append(k)
            else:
                groups.append([k])
    else:
        ids = [draw(st.integers(0, max(0, n - 2))) for _ in keys]
        by_id: dict = {}
        for k, i in zip(keys, ids):
            by_id.setdefault(i, []).append(k)
        groups = [list(draw(st.permutations(g))) for g in by_id.values()]
        groups = list(draw(st.permutations(groups)))
    values = {}
    for g in groups:
        length = draw(_LEN)
        for k in g:
            if draw(st.booleans()):  # distinct values in a drawn order
                idx = list(draw(st.permutations([0, 1, 2])))[:length]
            else:  # values may repeat
                idx = [draw(st.sampled_from([0, 1, 2])) for _ in range(length)]
            values[k] = [f"{k}{i}" for i in idx]
    items = [[k, values[k]] for k in keys]
    if mode == "none":
        dims = None
    else:
        dims = [(g[0] if draw(st.booleans()) else [g[0]]) if len(g) == 1 else g for g in groups]
    rec = {"items": items, "dims": dims, "constants": None, "derivers": None, "exclude": None, "via_add": False}
    if not extras:
        return rec
    avail = list(keys)
    if allow_const and _chance(draw, 2, 5):
        names = draw(st.lists(st.sampled_from([f"k{tag}0", f"k{tag}1"] + keys), min_size=0, max_size=2, unique=True))
        rec["constants"] = {nm: f"K{j}" for j, nm in enumerate(names)}
        avail += [nm for nm in names if nm not in avail]
    if _chance(draw, 1, 2):
        cand = [f"d{tag}0", f"d{tag}1"] + avail
        names = draw(st.lists(st.sampled_from(cand), min_size=1, max_size=2, unique=True))
        ders = []
        for nm in names:
            reads = draw(st.lists(st.sampled_from(avail), min_size=1, max_size=2, unique=True)) if avail else []
            ders.append([nm, reads])
            if nm not in avail:
                avail.append(nm)
        rec["derivers"] = ders
        rec["via_add"] = draw(st.booleans())
    if allow_excl and avail and _chance(draw, 1, 2):
        key = draw(st.sampled_from(avail))
        seen = sorted({c[key] for c in ref_combos(rec, empty_identity=True)})
        value = draw(st.sampled_from(["zz"] + seen + seen)) if seen else "zz"
        rec["exclude"] = {"key": key, "value": value}
    return rec


@st.composite
def product_case(draw):
    n_ops = draw(st.sampled_from([2, 2, 3, 3, 3]))
    pool = list(draw(st.permutations(list("abcdef"))))
    ops = []
    for i in range(n_ops):
        if _chance(draw, 1, 30):
            ops.append(draw(sweep_recipe([], tag=str(i), exact=True)))  # a sweep without items
        else:
            ops.append(draw(sweep_recipe(pool[2 * i : 2 * i + 2], tag=str(i), min_keys=1, max_keys=2, p_empty=4)))
    return {"ops": ops, "mode": draw(st.sampled_from(["variadic", "variadic", "chained"]))}


@st.composite
def sum_case(draw):
    n_ops = draw(st.sampled_from([2, 3]))
    ops = []
    for i in range(n_ops):
        if _chance(draw, 1, 25):
            ops.append(draw(sweep_recipe([], tag=str(i), exact=True)))  # a sweep without items
        else:
            ops.append(draw(sweep_recipe("abc", tag=str(i), min_keys=1, max_keys=3)))
    return {"ops": ops, "mode": draw(st.sampled_from(["add", "multisweep", "combine", "nested", "merge"]))}


@st.composite
def filtered_case(draw):
    rec = draw(sweep_recipe("abcd", min_keys=1, max_keys=4, allow_const=False, allow_excl=False))
    fk = final_keys(rec)
    keys = draw(st.lists(st.sampled_from(fk), min_size=1, max_size=len(fk), unique=True))
    return {"sweep": rec, "keys": keys}


@st.composite
def count_case(draw):
    prog = draw(
        dag_programs(max_funcs=4, min_funcs=3, allow_bound=False, allow_defaults=False, allow_renames=True,
                     allow_multi=True, allow_nullary=False)
    )  # fmt: skip
    rec = draw(sweep_recipe(prog["roots"], exact=True, p_empty=3))
    return {
        "prog": prog,
        "sweep": rec,
        "pick": draw(st.sampled_from([0, 0, 0, 1, 1, 2, 3])),  # index into the outputs sorted by #dependencies (desc)
        "whole_tuple": draw(st.booleans()),
        "as_list": _chance(draw, 1, 3),
        "use_pandas": False,  # the pandas fast path is not part of the property (see ASSUMPTIONS)
        "as_multi": _chance(draw, 1, 3),  # the sweep is a MultiSweep of the recipe and a one-value-per-key copy of it
    }


def _set_partitions(xs: list):
    if not xs:
        yield []
        return
    head, rest = xs[0], xs[1:]
    for part in _set_partitions(rest):
        yield [[head]] + part
        for i in range(len(part)):
            yield part[:i] + [[head] + part[i]] + part[i + 1 :]


def enum_dims():
    """Every partition of <= 4 keys into dims groups, every listing order of the groups, every assignment of
    list lengths 0..2 to the groups, singletons written as 'k' and as ('k',); plus dims=None."""
    for n in range(0, 5):
        keys = list("abcd"[:n])
        base = {"constants": None, "derivers": None, "exclude": None, "via_add": False}
        for lens in itertools.product([0, 1, 2], repeat=n):
            items = [[k, [f"{k}{i}" for i in range(ln)]] for k, ln in zip(keys, lens)]
            yield {"items": items, "dims": None, **base}
        if n == 0:
            continue
        for part in _set_partitions(keys):
            part = sorted(sorted(g) for g in part)
            for order in itertools.permutations(part):
                for lens in itertools.product([0, 1, 2], repeat=len(order)):
                    ln_of = {k: ln for g, ln in zip(order, lens) for k in g}
                    items = [[k, [f"{k}{i}" for i in range(ln_of[k])]] for k in keys]
                    for rep in (0, 1):
                        dims = [(g[0] if rep == 0 else [g[0]]) if len(g) == 1 else list(g) for g in order]
                        yield {"items": items, "dims": dims, **base}


# ------------------------------------------------------------------------------------------------
# shared oracle pieces


def rec_labels(rec: dict) -> list:
    labs = [f"keys{len(rec['items'])}"]
    groups = rec_groups(rec)
    if rec["dims"] is None:
        labs.append("dims-none")
    elif order_defined(rec):
        labs.append("dims-item-order")
    else:
        labs.append("dims-permuted")
    if any(len(g) > 1 for g in groups):
        labs.append("zipped")
    if any(len(v) == 0 for _, v in rec["items"]):
        labs.append("empty-list")
    if any(len(set(v)) < len(v) for _, v in rec["items"]):
        labs.append("dup-values")
    keys = rec_keys(rec)
    if rec["constants"]:
        labs.append("constants")
        if any(k in keys for k in rec["constants"]):
            labs.append("constants-overlap-items")
    if rec["derivers"]:
        labs.append("derivers")
        if any(n in keys or n in (rec["constants"] or {}) for n, _ in rec["derivers"]):
            labs.append("deriver-overwrites")
    if rec["exclude"]:
        labs.append("exclude")
    return labs


def rec_nontrivial(rec: dict) -> bool:
    zipped = any(len(g) > 1 for g in rec_groups(rec))
    return (len(rec["items"]) >= 2 and zipped) or bool(rec["exclude"]) or bool(rec["derivers"])


def compare_lists(out: Outcome, tag: str, got: list, ref: list, ordered: bool, ctx) -> bool:
    """got vs reference: both directions as multisets, then as sequences if the order is defined."""
    out.units += 1
    try:
        mg, mr = multiset(got), multiset(ref)
    except Exception as e:
        out.fail(f"{tag}-not-a-list-of-dicts", f"{exc_detail(e)} got {show(got)}")
        return False
    if mg != mr:
        missing, extra = mr - mg, mg - mr
        if set(mg) == set(mr):
            b = f"{tag}-wrong-multiplicity"
        elif missing and not extra:
            b = f"{tag}-missing-combinations"
        elif extra and not missing:
            b = f"{tag}-invented-combinations"
        else:
            b = f"{tag}-wrong-combinations"
        out.fail(b, f"{ctx} got {show(got)} want {show(ref)}")
        return False
    if ordered and [canon(c) for c in got] != [canon(c) for c in ref]:
        out.fail(f"{tag}-order-not-row-major", f"{ctx} got {show(got)} want {show(ref)}")
        return False
    return True


def check_len(out: Outcome, tag: str, sweep, got_list: list, n_empty_items: int, ctx) -> None:
    out.units += 1
    try:
        n = len(sweep)
    except Exception as e:
        out.fail(exc_bucket(e, f"{tag}-len-raised"), f"{ctx} {exc_detail(e)}")
        return
    if n == len(got_list):
        return
    if n_empty_items and 0 < n - len(got_list) <= n_empty_items:
        # confirmed deviation: Sweep({}) has len 1 but lists nothing
        out.fail("len-empty-items-reports-1", f"{ctx} len {n} list {show(got_list)}")
    else:
        out.fail(f"{tag}-len-differs-from-list", f"{ctx} len {n} list {show(got_list)}")


# ------------------------------------------------------------------------------------------------
# bodies


def body_single(rec) -> Outcome:
    out = Outcome(units=0)
    out.labels = rec_labels(rec)
    out.nontrivial = rec_nontrivial(rec)
    ref = ref_combos(rec)
    ordered = order_defined(rec)
    if not ref:
        out.labels.append("empty-result")
    if ordered and len(ref) >= 2:
        out.labels.append("order-checked")
    if rec["exclude"] and len(ref) < len(ref_combos({**rec, "exclude": None})):
        out.labels.append("exclude-hits")
    try:
        s = build_sweep(rec)
        snap = snapshot(s)
        got = s.list()
    except Exception as e:
        out.fail(exc_bucket(e, "sweep-raised"), f"{rec} {exc_detail(e)}")
        return out
    compare_lists(out, "list", got, ref, ordered, rec)
    check_len(out, "sweep", s, got, 0 if rec["items"] else 1, rec)
    try:
        again = s.list()
        it = list(iter(s))
        gen = list(s.generate())
        fn = generate_sweep(**build_args(rec))
    except Exception as e:
        out.fail(exc_bucket(e, "sweep-raised"), f"{rec} {exc_detail(e)}")
        return out
    out.units += 4
    if again != got:
        out.fail("list-not-repeatable", f"{rec} {show(got)} then {show(again)}")
    if it != got:
        out.fail("iter-differs-from-list", f"{rec} iter {show(it)} list {show(got)}")
    if gen != got:
        out.fail("generate-differs-from-list", f"{rec} generate {show(gen)} list {show(got)}")
    if fn != got:
        out.fail("generate_sweep-differs-from-list", f"{rec} generate_sweep {show(fn)} list {show(got)}")
    if any(x is y for x, y in zip(got, again)):
        out.fail("list-shares-dicts-between-calls", rec)
    if snapshot(s) != snap:
        out.fail("list-mutated-sweep", f"{snap} -> {snapshot(s)}")
    return out


def ref_product(ops: list, empty_identity: bool = False) -> list:
    return _cartesian([ref_combos(r, empty_identity=empty_identity) for r in ops])


def body_product(data) -> Outcome:
    out = Outcome(units=0)
    ops, mode = data["ops"], data["mode"]
    out.nontrivial = True
    out.labels = [f"n{len(ops)}", mode]
    for lab in ("zipped", "exclude", "constants", "derivers", "empty-list", "dims-permuted"):
        if any(lab in rec_labels(r) for r in ops):
            out.labels.append("some-" + lab)
    if any(not r["items"] for r in ops):
        # Sweep({}) as a product operand is outside the domain: neither the property nor the docs say whether it
        # denotes "no combination" or "the single empty combination" (see ASSUMPTIONS)
        out.labels.append("n/a:empty-items-operand")
        out.nontrivial = False
        return out
    ref = ref_product(ops)
    out.labels.append("empty-result" if not ref else "nonempty-result")
    all_ordered = all(order_defined(r) for r in ops)
    try:
        sweeps = [build_sweep(r) for r in ops]
        snaps = [snapshot(s) for s in sweeps]
        if mode == "variadic":
            prod = sweeps[0].product(*sweeps[1:])
        else:
            prod = sweeps[0]
            for s in sweeps[1:]:
                prod = prod.product(s)
        got = prod.list()
    except Exception as e:
        out.fail(exc_bucket(e, "product-raised"), f"{data} {exc_detail(e)}")
        return out
    out.units += 1
    try:
        mg = multiset(got)
    except Exception as e:
        out.fail("product-not-a-list-of-dicts", f"{exc_detail(e)} got {show(got)}")
        return out
    if mg == multiset(ref):
        if all_ordered and len(ref) >= 2:
            out.labels.append("order-checked")
            if [canon(c) for c in got] != [canon(c) for c in ref]:
                out.fail("product-order-not-row-major", f"{data} got {show(got)} want {show(ref)}")
    else:
        # Is the difference fully explained by (a minimal set of) the confirmed deviations?  Each deviation is
        # modelled as a rewrite of the operand recipes; the reference machinery is then re-run on the rewrite.
        transforms = {}
        if ops[0]["dims"] is None and any(len(g) > 1 for r in ops[1:] for g in rec_groups(r)):
            transforms["product-receiver-dims-None-unzips-zipped-operand"] = lambda rs, f: (
                [rs[0]] + [{**r, "dims": None} for r in rs[1:]],
                f,
            )
        if mode == "variadic" and len(ops) == 3 and (ops[1]["exclude"] or ops[1]["constants"] or ops[1]["derivers"]):
            transforms["product-variadic-drops-middle-operand-exclude-constants-derivers"] = lambda rs, f: (
                [rs[0], {**rs[1], "exclude": None, "constants": None, "derivers": None}, rs[2]],
                f,
            )
        if any(not r["items"] for r in ops):
            transforms["product-operand-with-empty-items-acts-as-identity"] = lambda rs, f: (rs, True)
        explained = None
        names = list(transforms)
        for size in range(1, len(names) + 1):
            for subset in itertools.combinations(names, size):
                rs, flag = list(ops), False
                for nm in subset:
                    rs, flag = transforms[nm](rs, flag)
                if any(not r["items"] for r in rs) and not flag:
                    variant = []
                else:
                    try:
                        variant = ref_product(rs, empty_identity=flag)
                    except KeyError:
                        continue
                if multiset(variant) == mg:
                    explained = subset
                    break
            if explained:
                break
        if explained and len(explained) == 1:
            out.fail(explained[0], f"{data} got {show(got)} want {show(ref)}")
        elif explained:
            out.fail("product-several-confirmed-deviations-at-once", f"{list(explained)} {data} got {show(got)}")
        else:
            compare_lists(out, "product", got, ref, False, data)
    n_empty = 1 if not any(r["items"] for r in ops) else 0
    check_len(out, "product", prod, got, n_empty, data)
    for s, snap, r in zip(sweeps, snaps, ops):
        if snapshot(s) != snap:
            out.fail("product-mutated-operand", f"{snap} -> {snapshot(s)}")
    # operands still enumerate their own combinations afterwards
    try:
        for s, r in zip(sweeps, ops):
            if multiset(s.list()) != multiset(ref_combos(r)):
                out.fail("product-changed-operand-list", f"{data}")
    except Exception as e:
        out.fail(exc_bucket(e, "product-operand-raised-afterwards"), exc_detail(e))
    return out


def body_sum(data) -> Outcome:
    out = Outcome(units=0)
    ops, mode = data["ops"], data["mode"]
    out.nontrivial = True
    out.labels = [f"n{len(ops)}", mode]
    refs = [ref_combos(r) for r in ops]
    ref = [c for part in refs for c in part]
    if any(not r["items"] for r in ops):
        out.labels.append("some-empty-items")
    if any(not part for part in refs):
        out.labels.append("some-empty-operand")
    if len({tuple(sorted(rec_keys(r))) for r in ops}) > 1:
        out.labels.append("different-key-sets")
    try:
        sweeps = [build_sweep(r) for r in ops]
        if mode == "add":
            ms = sweeps[0]
            for s in sweeps[1:]:
                ms = ms + s
        elif mode == "multisweep":
            ms = MultiSweep(*sweeps)
        elif mode == "combine":
            ms = sweeps[0]
            for s in sweeps[1:]:
                ms = ms.combine(s)
        elif mode == "merge":  # MultiSweep + MultiSweep -> the right operand's members are appended
            ms = MultiSweep(*sweeps[:1]) + MultiSweep(*sweeps[1:])
        else:  # nested: a + (b + c)
            tail = sweeps[-1]
            for s in reversed(sweeps[1:-1]):
                tail = s + tail
            ms = sweeps[0] + tail
        got = ms.list()
        it = list(iter(ms))
    except Exception as e:
        out.fail(exc_bucket(e, "sum-raised"), f"{data} {exc_detail(e)}")
        return out
    if not isinstance(ms, MultiSweep):
        out.fail("sum-not-a-MultiSweep", type(ms).__name__)
    all_ordered = all(order_defined(r) for r in ops)
    if compare_lists(out, "sum", got, ref, all_ordered, data) and not all_ordered:
        # concatenation: the k-th segment holds exactly the k-th operand's combinations
        pos = 0
        for part in refs:
            seg = got[pos : pos + len(part)]
            pos += len(part)
            if multiset(seg) != multiset(part):
                out.fail("sum-not-a-concatenation", f"{data} got {show(got)} want {show(ref)}")
                break
    if it != got:
        out.fail("sum-iter-differs-from-list", f"{data}")
    check_len(out, "sum", ms, got, sum(1 for r in ops if not r["items"]), data)
    # history: after the sum has been listed and measured it (or a nested MultiSweep member of it) grows in place
    # through combine(); the sum is again the concatenation and len() again agrees with list()
    if not out.failures and isinstance(ms, MultiSweep):
        try:
            nested = [m for m in ms.sweeps if isinstance(m, MultiSweep)]
            target = nested[-1] if nested else ms
            at_end = not nested or ms.sweeps[-1] is target
            target.combine(build_sweep(ops[0]))
            got2 = ms.list()
        except Exception as e:
            out.fail(exc_bucket(e, "sum-grow-raised"), f"{data} {exc_detail(e)}")
            return out
        if at_end:
            out.labels.append("grown-nested-member" if nested else "grown-in-place")
            ref2 = ref + refs[0]
            if compare_lists(out, "sum-grown", got2, ref2, all_ordered, data):
                check_len(out, "sum-grown", ms, got2, sum(1 for r in ops + [ops[0]] if not r["items"]), data)
    return out


def body_filtered(data) -> Outcome:
    out = Outcome(units=0)
    rec, keys = data["sweep"], data["keys"]
    out.labels = rec_labels(rec)
    out.nontrivial = rec_nontrivial(rec) or len(rec["items"]) >= 2
    full = ref_combos(rec)
    proj = []
    for c in full:
        p = {k: c[k] for k in keys}
        if p not in proj:
            proj.append(p)
    if len(proj) < len(full):
        out.labels.append("projection-collapses")
    if not full:
        out.labels.append("empty-result")
    out.labels.append("all-keys" if set(keys) == set(final_keys(rec)) else "proper-subset")
    try:
        s = build_sweep(rec)
        snap = snapshot(s)
        fs = s.filtered_sweep(list(keys))
        got = fs.list()
    except Exception as e:
        out.fail(exc_bucket(e, "filtered_sweep-raised"), f"{data} {exc_detail(e)}")
        return out
    out.units += 1
    try:
        mg = multiset(got)
    except Exception as e:
        out.fail("filtered_sweep-not-a-list-of-dicts", f"{exc_detail(e)} got {show(got)}")
        return out
    want = multiset(proj)
    ctx = f"{data} got {show(got)} want {show(proj)}"
    if set(mg) != set(want):
        unselected_empty = any(len(v) == 0 for k, v in rec["items"] if k not in keys)
        if not proj and got and unselected_empty and not rec["derivers"]:
            out.fail("filtered_sweep-ignores-empty-unselected-dimension", ctx)
        elif set(want) - set(mg) and not set(mg) - set(want):
            out.fail("filtered_sweep-missing-projections", ctx)
        elif set(mg) - set(want) and not set(want) - set(mg):
            out.fail("filtered_sweep-invented-projections", ctx)
        else:
            out.fail("filtered_sweep-wrong-projections", ctx)
    if any(n > 1 for n in mg.values()):
        if not rec["derivers"] and any(len(set(v)) < len(v) for k, v in rec["items"] if k in keys):
            out.fail("filtered_sweep-keeps-duplicates-of-repeated-item-value", ctx)
        else:
            out.fail("filtered_sweep-keeps-duplicate-projections", ctx)
    if rec["derivers"] and not full:
        # confirmed deviation: the derivers branch builds Sweep({}, dims=[keys]) whose __len__ looks up items[keys[0]]
        try:
            if len(fs) != len(got):
                out.fail("filtered_sweep-len-differs-from-list", ctx)
        except KeyError as e:
            out.fail("filtered_sweep-of-empty-derivers-sweep-len-raises-KeyError", f"{data} {exc_detail(e)}")
        except Exception as e:
            out.fail(exc_bucket(e, "filtered_sweep-len-raised"), f"{data} {exc_detail(e)}")
    else:
        check_len(out, "filtered_sweep", fs, got, 0, data)
    if snapshot(s) != snap:
        out.fail("filtered_sweep-mutated-receiver", f"{snap} -> {snapshot(s)}")
    try:
        if multiset(s.list()) != multiset(full):
            out.fail("filtered_sweep-changed-receiver-list", f"{data}")
    except Exception as e:
        out.fail(exc_bucket(e, "filtered_sweep-receiver-raised-afterwards"), exc_detail(e))
    return out


def body_count(data) -> Outcome:
    out = Outcome(units=0)
    prog, rec = data["prog"], data["sweep"]
    model = DagModel(prog)
    outs = sorted(model.all_outputs(), key=lambda o: -len(model.cone(o)))
    name = outs[data["pick"] % len(outs)]
    fn = model.producer[name]
    request = tuple(fn["outs"]) if (data["whole_tuple"] and len(fn["outs"]) > 1) else name
    combos = ref_combos(rec)
    rec_b = None
    if data.get("as_multi") and not data["as_list"]:
        rec_b = json.loads(json.dumps(rec))
        rec_b["items"] = [[k, vs[:1]] for k, vs in rec_b["items"]]
        combos = combos + ref_combos(rec_b)
    deps = [f for f in model.cone(name) if f != fn["name"]]
    want = {}
    for f in deps:
        fo = model.funcs[f]["outs"]
        key = fo[0] if len(fo) == 1 else tuple(fo)
        roots = model.needed_roots(fo)
        want[key] = (set(roots), Counter(frozenset((r, c[r]) for r in roots) for c in combos))
    out.labels = [f"deps{len(deps)}", "as-list" if data["as_list"] else "as-sweep"]
    out.labels += [lab for lab in rec_labels(rec) if lab in ("zipped", "dup-values", "exclude", "derivers", "empty-list")]
    if data["use_pandas"]:
        out.labels.append("pandas")
    if any(len(roots) < len(prog["roots"]) and any(n > 1 for n in cnt.values()) for roots, cnt in want.values()):
        out.labels.append("shared-root-tuples")
    if not combos:
        out.labels.append("empty-sweep")
    out.nontrivial = len(deps) >= 2 and len(combos) >= 2
    try:
        pipeline = build_pipeline(prog, None)
        sweep = [dict(c) for c in combos] if data["as_list"] else build_sweep(rec)
        if rec_b is not None:
            sweep = MultiSweep(sweep, build_sweep(rec_b))
            out.labels.append("as-multisweep-of-unequal-members")
    except Exception as e:
        out.fail(exc_bucket(e, "count-setup-raised"), f"{data} {exc_detail(e)}")
        return out
    px = "count_sweep-pandas" if data["use_pandas"] else "count_sweep"
    try:
        got = count_sweep(request, sweep, pipeline, use_pandas=data["use_pandas"])
    except Exception as e:
        if data["use_pandas"] and not combos:
            out.fail("count_sweep-pandas-empty-sweep-raises", f"{exc_detail(e)}")
        else:
            out.fail(exc_bucket(e, f"{px}-raised"), f"{data} {exc_detail(e)}")
        return out
    out.units += 1
    if set(got) != set(want):
        out.fail(f"{px}-wrong-dependencies", f"{data} got {sorted(map(str, got))} want {sorted(map(str, want))}")
    for key in got:
        if key not in want:
            continue
        roots, cnt = want[key]
        out.units += 1
        try:
            args = pipeline.root_args(key)
        except Exception as e:
            out.fail(exc_bucket(e, "root_args-raised"), exc_detail(e))
            continue
        if set(args) != roots or len(args) != len(roots):
            out.fail("count_sweep-root-args-differ-from-model", f"{key}: {args} want {sorted(roots)}")
            continue
        conv = Counter()
        scalar = False
        for k, n in got[key].items():
            if not isinstance(k, tuple):
                scalar = True
                k = (k,)
            conv[frozenset(zip(args, k))] += n
        if scalar:
            if data["use_pandas"] and len(args) == 1:
                out.fail("count_sweep-pandas-scalar-key-for-single-root-arg", f"{key}: {dict(got[key])}")
            else:
                out.fail(f"{px}-key-not-a-tuple", f"{key}: {dict(got[key])}")
        if conv != cnt:
            out.fail(f"{px}-wrong-counts", f"{data} {key}: got {dict(got[key])} want {dict(cnt)}")
    return out


# ------------------------------------------------------------------------------------------------


# ---- filtered_sweep over numeric values whose hashes collide (hash(-1) == hash(-2) in CPython) -----------------
NUM_POOL = [-2, -1, 0, 1, 2, 3, -1.5, -2.5]
NUM_DERIVERS = {"same": lambda c: c["a"], "neg": lambda c: -c["a"], "plus": lambda c: c["a"] + 1}  # a deriver gets the combination


@st.composite
def numeric_filtered(draw):
    return {
        "a": draw(st.lists(st.sampled_from(NUM_POOL), min_size=2, max_size=5, unique=True)),
        "b": draw(st.lists(st.integers(-2, 1), min_size=1, max_size=3, unique=True)),
        "keys": draw(st.sampled_from([["a"], ["a", "b"], ["a", "c"], ["c"], ["b", "c"], ["b"], ["a", "b", "c"]])),
        "deriver": draw(st.sampled_from(sorted(NUM_DERIVERS))),
        "with_derivers": draw(st.sampled_from([True, True, False])),
    }


def body_numeric_filtered(data) -> Outcome:
    out = Outcome()
    f = NUM_DERIVERS[data["deriver"]]
    keys = [k for k in data["keys"] if data["with_derivers"] or k != "c"] or ["a"]
    want = []
    for a in data["a"]:
        for b in data["b"]:
            combo = {"a": a, "b": b}
            if data["with_derivers"]:
                combo["c"] = f(combo)
            proj = {k: combo[k] for k in keys}
            if proj not in want:
                want.append(proj)
    out.labels = ["numeric", "derivers" if data["with_derivers"] else "no-derivers"]
    vals = [tuple(p.values()) for p in want]
    if len({hash(v) for v in vals}) < len(vals):
        out.labels.append("distinct-projections-with-equal-hash")
        out.nontrivial = True
    try:
        s = Sweep({"a": list(data["a"]), "b": list(data["b"])}, derivers={"c": f} if data["with_derivers"] else None)
        got = s.filtered_sweep(list(keys)).list()
    except Exception as e:
        out.fail(exc_bucket(e, "numeric-filtered_sweep-raised"), f"{data} {exc_detail(e)}")
        return out
    if sorted(map(repr, got)) != sorted(map(repr, want)):
        out.fail("numeric-filtered_sweep-wrong-projections", f"{data}: got {got} want {want}")
    return out


def _base_campaigns(tier):
    return [
        Campaign("single", body_single, sweep_recipe("abcd"), quick=4000, thorough=150000,
                 describe="one Sweep: list/iter/generate/generate_sweep/len vs reference"),
        Campaign("dims", body_single, enumerate=enum_dims, quick=0, thorough=0, exhaustive=True,
                 describe="every dims partition x group order x list lengths 0-2 of <= 4 keys (distinct values, no extras)"),
        Campaign("product", body_product, product_case(), quick=3200, thorough=120000,
                 describe="a.product(b[, c]) over disjoint key namespaces, variadic and chained"),
        Campaign("sum", body_sum, sum_case(), quick=1600, thorough=50000,
                 describe="+ / MultiSweep / combine / nested sums of 2-3 sweeps"),
        Campaign("filtered", body_filtered, filtered_case(), quick=2400, thorough=80000,
                 describe="filtered_sweep(keys) of sweeps without constants/exclude"),
        Campaign("filtered-numeric", body_numeric_filtered, numeric_filtered(), quick=1500, thorough=20000,
                 describe="filtered_sweep over numeric values incl. pairs with equal hashes (-1 / -2), with and without derivers"),
        Campaign("count", body_count, count_case(), quick=800, thorough=30000,
                 describe="count_sweep over DAG programs of 2-4 functions"),
    ]  # fmt: skip


PREDICATES = {}


def campaigns(tier):
    camps = list(_base_campaigns(tier))
    if tier == "thorough":  # coverage-guided search over the same structured cases (fuzz/hyp_fuzz.py)
        from vlib.core import cov_fuzz_campaign

        camps.append(cov_fuzz_campaign(PID, [('sum', 20000)]))
    return camps

"""C05 -- an interrupted map resumes to the uninterrupted result, redoing no stored work (DESIGN.md C05)."""

from __future__ import annotations

import os
import shutil

from hypothesis import strategies as st

from vlib import boot
from vlib import faultfs
from vlib import mapprog as mp
from vlib.core import Campaign, Outcome, digest

PID = "C05"
EVALUATIONS_ARE_UNITS = True  # one evaluation = one executed crash point (kill / torn write / raise)
LEVEL = "fault_enumeration"
RULE = (
    "For a fixed family of small pipelines (map -> element-wise -> reduction -> plain function; tuple output; "
    "internal axis; generator) and Hypothesis-generated MapPrograms (<= 3 functions, sizes <= 2), each persisting "
    "storage and sequential / ScheduledExecutor execution, a fault-free pass in a forked child counts the file-system "
    "events (open-for-write, every write, close, mkdir, unlink, rmdir, replace/rename below the run folder) and user "
    "calls; then EVERY event index is used as a kill point (os._exit before the operation, nothing flushed), selected "
    "write events are torn (0 / 1 / half / all-but-one bytes reach the file), and every user-call index is used as a "
    "raise point. Crash states are de-duplicated by (folder digest, call log); each distinct state is resumed with the "
    "same inputs and cleanup=False; for a sample of states a second kill is enumerated inside the resumed run. Oracle: "
    "the resume does not raise, returns and stores exactly the model's results, and does not call any (function, "
    "index) whose result files were already complete (byte-identical to the uninterrupted run's) in the crash state. "
    "evaluations = crash points executed; distinct_nontrivial = distinct crash states (folder digest + log) in which "
    "the crash lies after the first user call and before the last close."
)
ASSUMPTIONS = [
    "process death only: bytes the kernel accepted are durable; no write reordering, no fsync semantics, no directory-entry loss",
    "shutil.rmtree of cleanup=True is not enumerated (it runs before anything of the new run exists)",
    "a result counts as completely stored when its file(s) in the crash state are byte-identical to those of the uninterrupted run",
    "parallel execution is modelled with the deterministic ScheduledExecutor (same dump-in-worker / dump-in-parent code paths)",
]


# ---- one run inside a forked, instrumented child -----------------------------------------------------------
def child_run(prog, folder, logpath, plan, *, cleanup, fail_base=None, mode="seq", choices=(0,), timeout=120.0):
    side = boot.fresh_path("side") + ".json"

    def fn():
        import io as _io

        from pipefunc.map import load_outputs

        log = mp.FileLog(logpath)

        def hook(fname, base, kw):
            if fail_base is not None and base == fail_base:
                raise RuntimeError("injected failure")

        pipe = mp.build_pipeline(prog, log, hook)
        kw = dict(run_folder=folder, internal_shapes=mp.internal_shapes_arg(prog), storage=mp.storage_arg(prog), cleanup=cleanup)
        if mode == "seq":
            kw["parallel"] = False
        else:
            from vlib.sched import ScheduledExecutor

            kw["executor"] = ScheduledExecutor(list(choices), [0])
        res = pipe.map(mp.make_inputs(prog), **kw)
        names = mp.output_names(prog)
        del _io
        return {
            "result": {o: mp.canon(res[o].output) for o in names},
            "loaded": {o: mp.canon(load_outputs(o, run_folder=folder)) for o in names},
        }

    return faultfs.run_child(fn, folder, plan, side, timeout=timeout)


def read_log(path):
    return mp.FileLog(path).read()


def element_files(prog):
    """(function name, call ordinal) -> list of relative file paths holding its results, per storage."""
    storage = prog["storage"]
    files = {}
    counts = mp.expected_call_counts(prog)
    for fn in prog["funcs"]:
        key = ",".join(fn["outs"]) if len(fn["outs"]) > 1 else fn["outs"][0]
        stor = storage if isinstance(storage, str) else storage.get(key, storage.get("", "file_array"))
        is_array = fn["mapspec"] and any(p["spec"] is not None for p in fn["params"])
        for k in range(counts[fn["name"]]):
            if not is_array:
                files[(fn["name"], k)] = [f"outputs/{o}.cloudpickle" for o in fn["outs"]]
            elif stor == "file_array":
                files[(fn["name"], k)] = [f"outputs/{o}/__{k}__.pickle" for o in fn["outs"]]
            else:
                files[(fn["name"], k)] = [f"outputs/{o}/dict_array.cloudpickle" for o in fn["outs"]]
    return files


def check_resume(out: Outcome, tag: str, prog, ref, ref_digest, crash_digest, resume, resume_log, calls, label):
    if resume.get("timeout"):
        out.labels.append("inconclusive:resume-timeout")  # 120 s without a result: inconclusive, not a verdict
        return
    if not resume.get("ok"):
        if "exc_type" in resume:
            out.fail(f"{tag}-resume-raised:{resume['exc_type']}@{resume.get('where')}", f"{label}: {resume.get('exc_msg')}")
        else:
            out.fail(f"{tag}-resume-died", f"{label}: {resume}")
        return
    r = resume["result"]
    for o in mp.output_names(prog):
        want = mp.canon(ref[o])
        if r["result"].get(o) != want:
            out.fail(f"{tag}-resume-result-differs", f"{label}: {o}: got {str(r['result'].get(o))[:200]} want {str(want)[:200]}")
        if r["loaded"].get(o) != want:
            out.fail(f"{tag}-resume-stored-differs", f"{label}: {o}: got {str(r['loaded'].get(o))[:200]} want {str(want)[:200]}")
    # recomputation of completely stored elements
    files = element_files(prog)
    by_func: dict[str, list] = {}
    for fname, base, _ in calls:
        by_func.setdefault(fname, []).append(base)
    started = {(e[1], e[2]) for e in resume_log if e[0] == "start"}
    for (fname, k), paths in files.items():
        complete = all(p in crash_digest and crash_digest[p] == ref_digest.get(p) for p in paths)
        if complete and (fname, by_func[fname][k]) in started:
            out.fail(f"{tag}-recomputed-stored-element", f"{label}: {fname} call {k} files {paths}")
            return


def explore(prog, mode, choices, kinds, out: Outcome, second_every: int, tear_limit: int, all_writes: bool = False, max_points: int = 0):
    base = boot.fresh_dir("c05")
    units = 0
    try:
        calls: list = []
        ref = mp.denotation(prog, calls_out=calls)
        # ---- fault-free pass: events, trace, reference folder ----------------------------------------------
        f0 = os.path.join(base, "ref")
        r0 = child_run(prog, f0, os.path.join(base, "ref.log"), {"record": True}, cleanup=True, mode=mode, choices=choices)
        if not r0.get("ok"):
            out.labels.append("n/a:base-run-refused")
            return
        for o in mp.output_names(prog):
            if r0["result"]["result"].get(o) != mp.canon(ref[o]):
                out.labels.append("n/a:base-run-differs")  # C01's subject
                return
        n_events = r0["events"]
        trace = r0.get("trace", [])
        ref_digest = faultfs.folder_digest(f0)
        first_call_seen_at = None
        plans = []
        if "kill" in kinds:
            points = list(range(n_events))
            if not all_writes:
                # runs of consecutive writes into the same file lead to crash states that differ only in the
                # content of a file nobody reads before it is complete (temporary file, later renamed): keep the
                # first, middle and last write of each run (the thorough tier keeps every write)
                points = []
                i = 0
                while i < len(trace):
                    kind, path = trace[i]
                    if kind != "write" or not path.endswith(".tmp"):
                        points.append(i)
                        i += 1
                        continue
                    j = i
                    while j + 1 < len(trace) and trace[j + 1] == [kind, path]:
                        j += 1
                    points += sorted({i, (i + j) // 2, j})
                    i = j + 1
            if max_points and len(points) > max_points:  # evenly spaced sample (generated programs, quick tier)
                step = len(points) / max_points
                points = sorted({points[int(i * step)] for i in range(max_points)})
                out.labels.append("kill-points-sampled")
            plans += [("kill", {"kill_at": n}, None) for n in points]
        if "tear" in kinds:
            writes: dict[str, list[int]] = {}
            for n, (kind, path) in enumerate(trace):
                if kind == "write":
                    writes.setdefault(path, []).append(n)
            picks = []
            for path, ns in writes.items():
                sel = {ns[0], ns[len(ns) // 2], ns[-1]}
                picks += sorted(sel)
            if tear_limit and len(picks) > tear_limit:
                step = len(picks) / tear_limit
                picks = [picks[int(i * step)] for i in range(tear_limit)]
            for n in picks:
                for t in ("0", "1", "half", "all-1"):
                    plans.append(("tear", {"kill_at": n, "tear": t}, None))
        if "raise" in kinds:
            plans += [("raise", None, c[1]) for c in calls]
        seen: set = set()
        n_state = 0
        last_close = max((n for n, (k, _) in enumerate(trace) if k == "close"), default=0)
        for kind, plan, fail_base in plans:
            units += 1
            idx = plan["kill_at"] if plan else calls.index(next(c for c in calls if c[1] == fail_base))
            fol = os.path.join(base, f"{kind}{units}")
            lg = os.path.join(base, f"{kind}{units}.log")
            r1 = child_run(prog, fol, lg, plan, cleanup=True, fail_base=fail_base, mode=mode, choices=choices)
            if kind == "raise":
                if r1.get("ok"):
                    raise AssertionError("injected failure did not surface")
            elif r1.get("exit") != 137:
                if r1.get("ok"):
                    continue  # fewer events than in the counting pass (cannot happen in deterministic modes)
                if r1.get("timeout"):
                    out.labels.append("inconclusive:child-timeout")  # a time budget hit is never a verdict
                    shutil.rmtree(fol, ignore_errors=True)
                    continue
                raise AssertionError(f"unexpected child outcome {r1}")
            log1 = read_log(lg)
            crash_digest = faultfs.folder_digest(fol)
            key = digest([crash_digest, [(e[0], e[1], e[2]) for e in log1]])
            if key in seen:
                shutil.rmtree(fol, ignore_errors=True)
                continue
            seen.add(key)
            n_state += 1
            label = f"{kind}@{idx} event={r1.get('event')}" if plan else f"raise@call{idx}"
            after_first_call = any(e[0] == "start" for e in log1)
            if after_first_call and (kind == "raise" or idx < last_close):
                out.extra_digests.append(digest([prog, mode, key]))
            do_second = second_every and n_state % second_every == 0
            if do_second:
                second_crash(prog, mode, choices, fol, base, units, ref, ref_digest, crash_digest, calls, out, label)
            lg2 = os.path.join(base, f"{kind}{units}.resume.log")
            r2 = child_run(prog, fol, lg2, None, cleanup=False, mode=mode, choices=choices)
            check_resume(out, kind, prog, ref, ref_digest, crash_digest, r2, read_log(lg2), calls, label)
            shutil.rmtree(fol, ignore_errors=True)
        del first_call_seen_at
        out.labels.append(f"states:{min(n_state, 99) // 10 * 10}+")
    finally:
        out.units = max(units, 1)
        boot.rm(base)


def second_crash(prog, mode, choices, fol, base, uid, ref, ref_digest, crash_digest, calls, out, label):
    """Enumerate a sample of kill points inside the resumed run of this crash state."""
    probe = os.path.join(base, f"second{uid}-probe")
    shutil.copytree(fol, probe)
    rp = child_run(prog, probe, os.path.join(base, f"second{uid}-probe.log"), {"record": True}, cleanup=False, mode=mode, choices=choices)
    shutil.rmtree(probe, ignore_errors=True)
    if not rp.get("ok"):
        return  # the plain resume of this state is judged by the caller
    n2 = rp["events"]
    if n2 == 0:
        return
    points = sorted({0, n2 // 4, n2 // 2, (3 * n2) // 4, n2 - 1})
    for p2 in points:
        f2 = os.path.join(base, f"second{uid}-{p2}")
        shutil.copytree(fol, f2)
        lg = os.path.join(base, f"second{uid}-{p2}.log")
        r = child_run(prog, f2, lg, {"kill_at": p2}, cleanup=False, mode=mode, choices=choices)
        out.units += 0
        if r.get("exit") != 137:
            shutil.rmtree(f2, ignore_errors=True)
            continue
        d2 = faultfs.folder_digest(f2)
        lg2 = os.path.join(base, f"second{uid}-{p2}.resume.log")
        r2 = child_run(prog, f2, lg2, None, cleanup=False, mode=mode, choices=choices)
        check_resume(out, "second", prog, ref, ref_digest, d2, r2, read_log(lg2), calls, f"{label} then kill@{p2} event={r.get('event')}")
        shutil.rmtree(f2, ignore_errors=True)


# ---- fixed family ------------------------------------------------------------------------------------------
def _family():
    def fn(name, outs, params, out_axes, int_axes=(), mapspec=True, picker=None):
        return {"name": name, "outs": outs, "picker": picker, "mapspec": mapspec, "params": params,
                "out_axes": list(out_axes), "int_axes": list(int_axes), "ret": "list", "shape_via": "map"}  # fmt: skip

    P = lambda n, s=None: {"name": n, "spec": s}  # noqa: E731
    fam = {}
    fam["chain"] = {"sizes": {"i": 3}, "roots": {"r0": {"axes": ["i"], "kind": "list"}}, "funcs": [
        fn("f0", ["o0"], [P("r0", ["i"])], ["i"]),
        fn("f1", ["o1"], [P("o0", ["i"])], ["i"]),
        fn("f2", ["o2"], [P("o1")], [], mapspec=False),
        fn("f3", ["o3"], [P("o2")], [], mapspec=False)]}  # fmt: skip
    fam["tuple"] = {"sizes": {"i": 2}, "roots": {"r0": {"axes": ["i"], "kind": "ndarray"}}, "funcs": [
        fn("f0", ["o0a", "o0b"], [P("r0", ["i"])], ["i"], picker="tuple"),
        fn("f1", ["o1a", "o1b"], [P("o0a"), P("o0b")], [], mapspec=False, picker="tuple"),
        fn("f2", ["o2"], [P("o1a"), P("o0b", ["i"])], ["i"])]}  # fmt: skip
    fam["internal"] = {"sizes": {"i": 2, "k": 2}, "roots": {"r0": {"axes": ["i"], "kind": "list"}}, "funcs": [
        fn("f0", ["o0"], [P("r0", ["i"])], ["k", "i"], ["k"]),
        fn("f1", ["o1"], [P("o0", [None, "i"])], ["i"]),
        fn("f2", ["o2"], [P("o1"), P("o0")], [], mapspec=False)]}  # fmt: skip
    fam["generator"] = {"sizes": {"j": 2}, "roots": {"r0": {"axes": [], "kind": "scalar"}}, "funcs": [
        fn("f0", ["o0"], [P("r0")], ["j"], ["j"]),
        fn("f1", ["o1"], [P("o0", ["j"])], ["j"])]}  # fmt: skip
    fam["dictpicker"] = {"sizes": {"i": 2}, "roots": {"r0": {"axes": ["i"], "kind": "list"}}, "funcs": [
        fn("f0", ["o0a", "o0b"], [P("r0")], [], mapspec=False, picker="dict"),
        fn("f1", ["o1"], [P("o0a"), P("r0", ["i"])], ["i"])]}  # fmt: skip
    return fam


def enum_family(tier):
    def gen():
        fam = _family()
        storages = ["file_array", "dict"] if tier == "quick" else ["file_array", "dict", "shared_memory_dict", "mixed"]
        for name in fam:
            for storage in storages:
                for mode in ["seq", "sched"] if tier == "thorough" else ["seq"]:
                    for kinds in (["kill"], ["tear", "raise"]):
                        yield {"family": name, "storage": storage, "mode": mode, "kinds": kinds, "all_writes": tier == "thorough"}

    return gen


def body_family(data) -> Outcome:
    out = Outcome()
    prog = dict(_family()[data["family"]])
    if data["storage"] == "mixed":
        names = mp.output_names(prog)
        prog["storage"] = {"": "file_array", names[0] if len(prog["funcs"][0]["outs"]) == 1 else ",".join(prog["funcs"][0]["outs"]): "dict"}
    else:
        prog["storage"] = data["storage"]
    out.labels = [data["family"], "storage:" + data["storage"], data["mode"]] + data["kinds"]
    out.nontrivial = True
    explore(prog, data["mode"], [2, 0, 1, 3, 1], data["kinds"], out, second_every=4, tear_limit=12, all_writes=data.get("all_writes", False))
    return out


def body_generated(data) -> Outcome:
    out = Outcome()
    prog = data["prog"]
    out.labels = [l for l in mp.labels(prog) if l.startswith("storage:")] + [data["mode"]] + data["kinds"]
    out.nontrivial = True
    explore(prog, data["mode"], data["choices"], data["kinds"], out, second_every=data.get("second_every", 0), tear_limit=6,
            max_points=data.get("max_points", 0))
    return out


def campaigns(tier):
    gen = st.fixed_dictionaries(
        {
            "prog": mp.map_programs(max_funcs=3, max_rank=2, max_size=2, min_funcs=2, storages=("file_array", "dict", "shared_memory_dict")),
            "mode": st.sampled_from(["seq", "sched"]),
            "choices": st.lists(st.integers(0, 5), min_size=1, max_size=6),
            "kinds": st.sampled_from([["kill"], ["raise", "tear"], ["kill"]]),
            "max_points": st.just(80 if tier == "quick" else 0),
            "second_every": st.just(0 if tier == "quick" else 9),
        }
    )
    return [
        Campaign("family", body_family, enumerate=enum_family(tier), quick=0, thorough=0, shards_quick=16, exhaustive=True,
                 describe="fixed family x storage x all kill points / torn writes / raise points (+ sampled second crashes)"),
        Campaign("generated", body_generated, gen, quick=20, thorough=320, shards_quick=5,
                 describe="generated MapPrograms x all kill points or torn/raise points"),
    ]  # fmt: skip


PREDICATES = {}
